"""Oracle self-checks (DESIGN.md section 2, end).  Exit 0 if all pass."""
from __future__ import annotations

import random
import sys

from . import corpus
from .gen import patterns as gp
from .oracles import refmachine as rm
from .oracles import semantics as sem
from .oracles import tb


def check_o2_snapshots():
    n = 0
    for name, g, c, p in corpus.snapshot_triples():
        r = rm.run_triple(g, c, p)
        assert r[0] == 'ACCEPT', (name, r[:4])
        n += 1
    assert n >= 8, n
    return n


def check_subst_lemma(n=2000, seed=7):
    rng = random.Random(seed)
    done = 0
    for _ in range(n):
        p = gp.rand_concrete(rng, 3, (0, 1), (0, 1), (0,))
        plug = gp.rand_concrete(rng, 2, (0, 1), (0, 1), (0,))
        M = sem.random_model(rng, rng.randint(1, 3), (0,))
        re = {0: rng.randrange(M.n), 1: rng.randrange(M.n), 2: rng.randrange(M.n), 3: rng.randrange(M.n)}
        rs = {0: rng.randint(0, M.full), 1: rng.randint(0, M.full), 2: rng.randint(0, M.full), 3: rng.randint(0, M.full)}
        try:
            # set variable: any plug
            X = rng.choice((0, 1))
            q = tb.subst_s(p, X, plug, 'alpha')
            if tb.wf_conc(q) and tb.wf_conc(p):
                pv = sem.evaluate(plug, M, dict(re), dict(rs))
                lhs = sem.evaluate(q, M, dict(re), dict(rs))
                rs2 = dict(rs); rs2[X] = pv
                rhs = sem.evaluate(p, M, dict(re), rs2)
                assert lhs == rhs, ('ssubst lemma', p, X, plug)
                done += 1
            # element variable: singleton-valued plug = another element variable
            x = rng.choice((0, 1))
            y = rng.choice((0, 1, 2))
            q = tb.subst_e(p, x, tb.ev(y), 'alpha')
            if tb.wf_conc(p):
                lhs = sem.evaluate(q, M, dict(re), dict(rs))
                re2 = dict(re); re2[x] = re[y]
                rhs = sem.evaluate(p, M, re2, dict(rs))
                assert lhs == rhs, ('esubst lemma', p, x, y)
                done += 1
        except sem.IllFormed:
            pass
    assert done > n, done
    return done


def check_axioms_valid():
    rng = random.Random(3)
    pool = gp.concrete_pool(rng, 80, 2, (0, 1), (0, 1), (0,))
    n = 0
    for ax in (rm.PROP1, rm.PROP2, rm.PROP3, rm.QUANTIFIER, rm.EXISTENCE):
        for _ in range(40):
            theta = gp.admissible_instance(rng, ax, pool)
            t = tb.inst(ax, theta, 'alpha')
            if not tb.wf_conc(t):
                continue
            for size in (1, 2):
                for M in sem.all_models(size, (0,), with_app=(size == 1)):
                    for re, rs in sem.valuations(M, tb.fv_e(t), tb.fv_s(t)):
                        assert sem.evaluate(t, M, dict(re), dict(rs)) == M.full, (ax, theta)
                        n += 1
            for _ in range(6):
                M = sem.random_model(rng, rng.choice((2, 3)), (0,))
                for re, rs in sem.valuations(M, tb.fv_e(t), tb.fv_s(t), rng, 30):
                    assert sem.evaluate(t, M, dict(re), dict(rs)) == M.full, (ax, theta)
                    n += 1
    # and an invalid pattern is found invalid
    bad = tb.im(tb.ex(0, tb.ev(0)), tb.im(tb.sy(0), tb.ev(0)))
    assert sem.find_countermodel(bad, [sem.random_model(rng, 2, (0,)) for _ in range(20)]) is not None
    return n


def check_show_parse():
    rng = random.Random(5)
    for _ in range(500):
        t = gp.rand_meta(rng, 4)
        assert tb.parse(tb.show(t)) == t


def main():
    out = {}
    out['o2_snapshots_accepted'] = check_o2_snapshots()
    out['subst_lemma_cases'] = check_subst_lemma()
    out['axiom_valuations'] = check_axioms_valid()
    check_show_parse()
    print('selfcheck ok', out)
    return out


if __name__ == '__main__':
    try:
        main()
    except AssertionError as e:
        print('SELFCHECK FAILED', e)
        sys.exit(2)

"""C08 - a proof means the same under every interpreter."""
from __future__ import annotations

import io

from .. import repo
from ..oracles import tb
from . import modules_workload as mw

READY = True
LEVEL = 'exploration'
TECHNIQUE = 'differential runtime monitoring: one proof expression run under eight interpreter stacks of the real toolkit; outcomes (success/failure) and conclusions compared with each other and with the conclusion advertised before running'
LEVEL_TEXT = ('Random proof expressions over the DSL and the propositional library (incl. empty, identity and repeated instantiations, both instantiate spellings, '
              'load_axiom, generalization, thunks run twice) are executed after the module\'s gamma and claim phases on BasicInterpreter, StatefulInterpreter, '
              'CountingInterpreter, SerializingInterpreter, PrettyPrintingInterpreter, MemoizingInterpreter(Serializing, Counting.finalize()), '
              'InstantiationOptimizer(Stateful) and MemoizingInterpreter(InstantiationOptimizer(Serializing)); all must succeed or all fail, with O1-equal conclusions '
              'equal to thunk.conc.')
LEVEL_NOTE = 'Trusted: O1 expansion/equality of conclusions. A uniform failure (all interpreters refuse) is not a violation.'
DESIGN_REF = 'DESIGN.md section 5 C08'
NSHARDS = 16
TIMEOUT = {'quick': 1500, 'thorough': 3 * 3600}
RULE = ('A case is one proof expression (thunk) of a generated module, run on 8 interpreter stacks (and a second time on two of them). distinct_nontrivial = distinct '
        '(module axioms, expression description, conclusion) with at least one instantiate or generalization.')
ASSUMPTIONS = ['the memoising stack gets its candidate set from a counting pre-pass over the same module, as ProofExp.serialize does']
STACKS = ['basic', 'stateful', 'counting', 'serializing', 'pretty', 'memo(ser,count)', 'instopt(stateful)', 'memo(instopt(ser))', 'memo{}(stateful)', 'memo{some}(ser)']
FLOORS = {'quick': {'expressions': 1000, **{f'ran:{s}': 1000 for s in STACKS}, 'empty_or_identity_instantiation': 100, 'memoizer_emitted_save_load': 50, 'run_twice': 300,
                    'static_instantiate_expressions': 100, 'many_axioms_modules': 10, 'module_pipelines_compared': 50}}
FLOORS['thorough'] = dict(FLOORS['quick'], expressions=20000)


def make(stack, mod, claims, memo_set):
    I = repo.mod('interpreter')
    G = I.ExecutionPhase.Gamma
    Claim = repo.mod('claim').Claim
    cl = [Claim(c) for c in claims]
    B = repo.mod('basic_interpreter').BasicInterpreter
    S = repo.mod('stateful_interpreter').StatefulInterpreter
    C = repo.mod('counting_interpreter').CountingInterpreter
    Ser = repo.mod('serializing_interpreter').SerializingInterpreter
    Pre = repo.mod('pretty_printing_interpreter').PrettyPrintingInterpreter
    O = repo.mod('optimizing_interpreters')
    from ..gen.calls import KeepBytesIO

    def ser():
        return Ser(phase=G, out=KeepBytesIO(), claims=cl, claim_out=KeepBytesIO(), proof_out=KeepBytesIO())
    if stack == 'basic':
        return B(G), None
    if stack == 'stateful':
        return S(G, cl), None
    if stack == 'counting':
        return C(G, cl), None
    if stack == 'serializing':
        s = ser()
        return s, s
    if stack == 'pretty':
        return Pre(phase=G, out=io.StringIO(), claims=cl, claim_out=io.StringIO(), proof_out=io.StringIO(), pretty_options=mod.pretty_options()), None
    if stack == 'memo(ser,count)':
        s = ser()
        return O.MemoizingInterpreter(s, set(memo_set)), s
    if stack == 'instopt(stateful)':
        return O.InstantiationOptimizer(S(G, cl)), None
    if stack == 'memo(instopt(ser))':
        s = ser()
        return O.MemoizingInterpreter(O.InstantiationOptimizer(s), set(memo_set)), s
    if stack == 'memo{}(stateful)':
        return O.MemoizingInterpreter(S(G, cl), set()), None       # nothing suggested: it may still reuse what the proof itself saved
    if stack == 'memo{some}(ser)':
        s = ser()
        some = set(sorted(memo_set, key=str)[::2])                  # another (smaller) suggestion set than the analysis computed
        return O.MemoizingInterpreter(s, some), s
    raise ValueError(stack)


def run_on(stack, mod, thunk, memo_set, twice=False):
    """('ok', conclusion expansion, extra) | ('fail', error class)"""
    try:
        it, ser = make(stack, mod, [], memo_set)
        mod.execute_gamma_phase(it)          # moves into the claim phase
        it.into_proof_phase()
    except Exception as ex:
        return ('setup_fail', type(ex).__name__ + ':' + str(ex)[:80])
    try:
        pr = thunk(it)
        if twice:
            pr = thunk(it)
        extra = None
        if ser is not None:
            extra = bytes(ser.proof_out.value() if hasattr(ser.proof_out, 'value') else b'')
        return ('ok', tb.norm_py(tb.of_repo(pr.conclusion)), extra)
    except AssertionError as ex:
        return ('fail', 'AssertionError')
    except Exception as ex:
        return ('fail', type(ex).__name__)


def shard(ctx):
    rng = ctx.rng
    C = repo.mod('counting_interpreter').CountingInterpreter
    I = repo.mod('interpreter')
    n = ctx.scale(250, 6000)
    for k in range(n):
        try:
            if k % 16 == 0:
                b = mw.many_axioms_module(rng)
                ctx.count('many_axioms_modules')
            else:
                b = mw.random_module(rng, static_instantiate=0.2, pool_rounds=rng.randint(2, 8))
        except Exception as ex:
            ctx.violation('module_construction_raises:' + type(ex).__name__, 'building a module raised', {'error': repr(ex)[:300]})
            continue
        # candidate set for the memoiser: counting pre-pass over the whole module (as serialize() does)
        memo_set = set()
        try:
            an = C(I.ExecutionPhase.Gamma, [])
            mod2_claims = b.mod.get_claims()
            an.claims = [repo.mod('claim').Claim(c) for c in mod2_claims]
            b.mod.execute_full(an)
            memo_set = an.finalize()
        except Exception:
            ctx.count('counting_prepass_failed')
        # the whole module through the two pipelines of ProofExp.serialize (plain; counting pass + memoising serialiser, which share one
        # claims list): both succeed or both fail
        if b.mod.get_claims() and rng.random() < 0.5:
            outcome = {}
            for opt in (False, True):
                try:
                    mw.serialize(b.mod, ctx.mkscratch(), 'p', opt)
                    outcome[opt] = 'ok'
                except AssertionError:
                    outcome[opt] = 'fail:AssertionError'
                except Exception as ex:
                    outcome[opt] = 'fail:' + type(ex).__name__
            ctx.count('module_pipelines_compared')
            if (outcome[False] == 'ok') != (outcome[True] == 'ok'):
                ctx.violation('serialize_pipelines_differ:' + outcome[False].split(':')[0] + '/' + outcome[True], 'ProofExp.serialize succeeds with one optimise setting and fails with the other',
                              {'module': b.desc[:8], 'outcomes': {'optimize=False': outcome[False], 'optimize=True': outcome[True]}})
        for th, d in b.pool[:6]:
            advertised = tb.norm_py(tb.of_repo(th.conc))
            ctx.count('expressions')
            if 'instantiate(' in d:
                ctx.count('static_instantiate_expressions')
            if 'keys=[]' in d or 'identity' in ' '.join(b.tags):
                ctx.count('empty_or_identity_instantiation')
            ctx.case((tuple(str(a) for a in b.mod.get_axioms()), d, tb.show(advertised)), nontrivial=('inst' in d or 'gen(' in d))
            results = {}
            for s in STACKS:
                results[s] = run_on(s, b.mod, th, memo_set)
                ctx.count('ran:' + s)
            twice = {}
            if rng.random() < 0.5:
                ctx.count('run_twice')
                for s in ('stateful', 'serializing'):
                    twice[s] = run_on(s, b.mod, th, memo_set, twice=True)
            for s in ('memo(ser,count)', 'memo(instopt(ser))'):
                r = results[s]
                if r[0] == 'ok' and r[2] and (b'\x1c' in r[2] or b'\x1d' in r[2]):
                    ctx.count('memoizer_emitted_save_load')
            w = {'module': b.desc[:8], 'expression': d, 'advertised': tb.pretty(advertised),
                 'outcomes': {s: (r[0] if r[0] != 'ok' else 'ok') + ('' if r[0] == 'ok' else ':' + str(r[1])) for s, r in results.items()}}
            kinds = {r[0] for r in results.values()}
            if 'setup_fail' in kinds:
                bad = [s for s, r in results.items() if r[0] == 'setup_fail']
                if len(bad) != len(STACKS):
                    ctx.violation('gamma_phase_fails_on_some_interpreters:' + '+'.join(sorted(bad))[:60], 'the module\'s gamma phase fails on some interpreter stacks only', w)
                continue
            oks = [s for s, r in results.items() if r[0] == 'ok']
            fails = [s for s, r in results.items() if r[0] == 'fail']
            if oks and fails:
                feat = 'static_instantiate' if 'instantiate(' in d else ('empty_map' if 'keys=[]' in d else 'other')
                sig = 'fails_on:' + '+'.join(sorted(fails)) if len(fails) <= len(oks) else 'succeeds_only_on:' + '+'.join(sorted(oks))
                ctx.violation(f'success_differs_between_interpreters:{feat}:{sig}'[:150], f'the expression succeeds on {oks} and fails on {fails}', w)
                continue
            if not oks:
                ctx.count('uniformly_refused')
                continue
            concs = {s: r[1] for s, r in results.items()}
            ref = concs['basic']
            diff = [s for s, c_ in concs.items() if c_ != ref]
            if diff:
                ctx.violation('conclusions_differ_between_interpreters:' + '+'.join(sorted(diff))[:80], 'interpreters return different conclusions',
                              dict(w, conclusions={s: tb.pretty(c_) for s, c_ in concs.items()}))
                continue
            if ref != advertised:
                ctx.violation('conclusion_differs_from_advertised', 'the conclusion returned at run time differs from thunk.conc read before running',
                              dict(w, returned=tb.pretty(ref)))
                continue
            for s, r in twice.items():
                if r[0] != 'ok' or r[1] != advertised:
                    ctx.violation('second_run_differs:' + s, 'running the same thunk a second time on the same interpreter fails or changes its conclusion',
                                  dict(w, second=str(r[:2])[:200]))
            if k % 200 == 0:
                ctx.sample({'expression': d, 'conclusion': tb.pretty(advertised)[:200]})

"""C13 - matching is sound and complete; notation applications can be deconstructed."""
from __future__ import annotations

from .. import repo
from ..gen import patterns as gp
from ..gen import repo_patterns as rp
from ..oracles import tb

READY = True
LEVEL = 'exploration'
TECHNIQUE = 'runtime post-condition monitoring of the real match_single / match / Notation.matches / assert_matches against textbook instantiation and a textbook one-way matcher'
LEVEL_TEXT = ('Instances are built by the independent term algebra as instantiations of substitution-free schematic patterns (so a solution is '
              'known to exist), spelled with and without notation; the real matcher must find a substitution, any substitution it returns must '
              'rebuild the instance (textbook instantiation of expansions) and extend the pre-supplied bindings; every shipped notation and the '
              'generated families are applied to random argument tuples (arity 0 included) and deconstructed again.')
LEVEL_NOTE = 'Trusted: O1 instantiation, expansion and structural equality.'
DESIGN_REF = 'DESIGN.md section 5 C13'
NSHARDS = 16
TIMEOUT = {'quick': 1500, 'thorough': 3 * 3600}
RULE = ('Cases: (P, tau) with P substitution-free and I = P[tau] computed by O1 (tau may be empty, P may be ground); seeds that agree or conflict '
        'with tau; perturbed instances (soundness only); equation lists of length 0-4 incl. all-ground lists; every notation x random argument '
        'tuples. distinct_nontrivial = distinct (pattern, instance) pairs where the pattern has a metavariable or a binder.')
ASSUMPTIONS = ['completeness is only demanded for substitution-free patterns, as the property states']
FLOORS = {'quick': {'match_single_success': 1000, 'match_single_failure': 1000, 'empty_substitution_success': 200, 'seeded_agree': 300, 'seeded_conflict': 300,
                    'match_list': 2000, 'match_list_all_ground': 200, 'match_list_empty': 10, 'match_list_identity_equation': 200, 'notation_roundtrips': 3000, 'assert_matches_calls': 3000,
                    'notation_arity0': 50, 'nary_deconstruct': 200, 'same_label_sibling_notation_asked': 500, 'nary_deconstruct_any_notation': 1000, 'nary_deconstruct_notation_in_head_position': 200, 'instances_spelled_through_substitution_headed_notation': 200}}
FLOORS['thorough'] = dict(FLOORS['quick'])


def E(x):
    return tb.norm_py(tb.of_repo(x))


def shard(ctx):
    rng = ctx.rng
    rp.IDENTITY_WRAP = 0.03     # leaves and compound nodes spelled through an identity-like notation (definition = bare metavariable)
    P = repo.P()
    T = rp.table()
    K = repo.mod('proofs.kore')

    def W(**w):
        return {k: (str(v) if not isinstance(v, (str, int, list, dict, type(None), bool)) else v) for k, v in w.items()}

    def check_sound(pat, pat_e, inst_, inst_e, sigma, ext_snapshot, how):
        """sigma returned by the real matcher"""
        try:
            back = E(pat.instantiate(sigma))
        except Exception as ex:
            ctx.violation('match_result_cannot_be_instantiated', f'pattern.instantiate(result) raised {type(ex).__name__}', W(pattern=pat, instance=inst_, result=str(sigma), error=repr(ex)))
            return
        if back != tb.norm_py(inst_e):
            ctx.violation(f'match_unsound:{how}', 'instantiating the pattern with the returned substitution does not give the instance',
                          W(pattern=pat, instance=inst_, result={str(k): str(v) for k, v in sigma.items()}, rebuilt=tb.pretty(back), instance_expansion=tb.pretty(inst_e)))
            return
        for k, v in ext_snapshot.items():
            if k not in sigma or E(sigma[k]) != v:
                ctx.violation(f'match_drops_presupplied_binding:{how}', 'a pre-supplied binding was changed or dropped', W(pattern=pat, instance=inst_, seed_key=k, result=str(sigma)))
                return

    n = ctx.scale(128000, 1200000)
    pool = gp.concrete_pool(rng, 80, 2, syms=('a', 'b'))
    ESUB3 = P.Notation('syn_esub3', 2, P.ESubst(P.MetaVar(0), P.EVar(3), P.MetaVar(1)), 'esub3({0}, {1})')
    for k in range(n):
        pe = rp.rand_term(rng, rng.randint(0, 3), meta=rng.random() < 0.85, notation=0.3, substs=False, constrained=0.0, mvs=(0, 1, 2))
        if tb.size(pe) > 120:
            continue
        ids = sorted(tb.metavar_ids(pe))
        tau = {i: (rng.choice(pool) if rng.random() < 0.6 else rp.rand_term(rng, rng.randint(0, 2), meta=rng.random() < 0.3, notation=0.2, substs=False, constrained=0.0)) for i in ids}
        ie = tb.inst(pe, tau, 'naive')
        pat = rp.fold(pe, rng, rng.choice((0.0, 0.5, 0.9)))
        ins = rp.fold(ie, rng, rng.choice((0.0, 0.5, 0.9)))
        if rng.random() < 0.06 and not tb.metavar_ids(ie) and ie[0] in ('im', 'ap'):
            # the instance (or one of its two children) spelled through a notation whose definition is a pending substitution on a
            # metavariable: esub3(t, plug) := t[plug/x3] is t itself when x3 does not occur in t
            def wrap(t):
                return ESUB3(rp.fold(t, rng, 0.4), rp.fold(rng.choice(pool), rng, 0.0))
            which = rng.choice(('whole', 'left', 'right'))
            if which == 'whole':
                cand = wrap(ie)
            else:
                l_, r_ = (wrap(ie[1]), rp.fold(ie[2], rng, 0.4)) if which == 'left' else (rp.fold(ie[1], rng, 0.4), wrap(ie[2]))
                cand = (P.Implies if ie[0] == 'im' else P.App)(l_, r_)
            try:
                if tb.of_repo(cand, 'strict') == ie:
                    ins = cand
                    ctx.count('instances_spelled_through_substitution_headed_notation')
            except tb.Undefined:
                pass
        nontriv = bool(ids) or '(ex ' in tb.show(pe) or '(mu ' in tb.show(pe)
        ctx.case(('ms', tb.show(pe), tb.show(ie)), nontrivial=nontriv)
        if len(ids) >= 2 and tb.size(pe) >= 5 and len(ctx.samples) < 6:
            ctx.sample({'pattern': str(pat)[:160], 'instance': str(ins)[:200], 'tau': {str(i): tb.pretty(v)[:60] for i, v in tau.items()}})
        # ---- unseeded: must succeed
        try:
            sigma = P.match_single(pat, ins)
        except Exception as ex:
            ctx.violation('match_single_raises', f'match_single raised {type(ex).__name__}', W(pattern=pat, instance=ins, error=repr(ex)))
            continue
        if sigma is None:
            ctx.violation('match_single_incomplete' + ('' if ids else ':ground_pattern'), 'match_single failed although the instance is an instantiation of the pattern',
                          W(pattern=pat, instance=ins, tau={str(i): tb.pretty(v) for i, v in tau.items()}))
        else:
            ctx.count('match_single_success')
            if not sigma:
                ctx.count('empty_substitution_success')
            check_sound(pat, pe, ins, ie, sigma, {}, 'match_single')
        # ---- seeded
        if ids:
            key = rng.choice(ids)
            if rng.random() < 0.5:
                ext = {key: rp.fold(tau[key], rng, 0.5)}
                snap = {key: tb.norm_py(tau[key])}
                ctx.count('seeded_agree')
                sigma = P.match_single(pat, ins, dict(ext))
                if sigma is None:
                    ctx.violation('match_single_incomplete:agreeing_seed', 'match_single failed with a pre-supplied binding that agrees with the solution', W(pattern=pat, instance=ins, seed=str(ext)))
                else:
                    check_sound(pat, pe, ins, ie, sigma, snap, 'match_single_seeded')
            else:
                other = rp.perturb(tau[key], rng)
                if tb.norm_py(other) != tb.norm_py(tau[key]):
                    ctx.count('seeded_conflict')
                    ext = {key: tb.to_repo(other, P)}
                    sigma = P.match_single(pat, ins, dict(ext))
                    if sigma is not None:
                        ctx.count('match_single_success')
                        check_sound(pat, pe, ins, ie, sigma, {key: tb.norm_py(other)}, 'match_single_seeded')
                    else:
                        ctx.count('match_single_failure')
        # ---- near miss: soundness only
        ie2 = rp.perturb(ie, rng)
        ins2 = rp.fold(ie2, rng, 0.5)
        try:
            sigma = P.match_single(pat, ins2)
        except Exception as ex:
            ctx.violation('match_single_raises', f'match_single raised {type(ex).__name__}', W(pattern=pat, instance=ins2, error=repr(ex)))
            sigma = None
        if sigma is None:
            ctx.count('match_single_failure')
        else:
            ctx.count('match_single_success')
            check_sound(pat, pe, ins2, ie2, sigma, {}, 'match_single')

    # ---- equation lists
    n = ctx.scale(64000, 500000)
    for k in range(n):
        m = rng.choice((0, 1, 1, 2, 2, 3, 4))
        all_ground = rng.random() < 0.2
        tau = {i: rng.choice(pool) for i in (0, 1, 2)}
        eqs = []
        eqs_e = []
        for _ in range(m):
            pe = rp.rand_term(rng, rng.randint(0, 2), meta=not all_ground, notation=0.25, substs=False, constrained=0.0, mvs=(0, 1, 2))
            ie = tb.inst(pe, tau, 'naive')
            eqs.append((rp.fold(pe, rng, 0.5), rp.fold(ie, rng, 0.5)))
            eqs_e.append((pe, ie))
        if m and rng.random() < 0.15:
            # an equation whose two sides are identical and schematic (tau is the identity there) next to one that binds the same
            # metavariable to something else: no solution exists, and any answer must still rebuild every instance
            pe0 = rp.rand_term(rng, rng.randint(1, 2), meta=True, notation=0.2, substs=False, constrained=0.0, mvs=(0, 1))
            ids0 = sorted(tb.metavar_ids(pe0))
            if ids0:
                i0 = rng.choice(ids0)
                other = rng.choice(pool)
                extra = [(pe0, pe0), (tb.mv(i0), other)]
                if rng.random() < 0.5:
                    extra.reverse()
                for a_, b_ in extra:
                    eqs.append((rp.fold(a_, rng, 0.4), rp.fold(b_, rng, 0.4)))
                    eqs_e.append((a_, b_))
                ctx.count('match_list_identity_equation')
                try:
                    sigma = P.match(list(eqs))
                except Exception as ex:
                    ctx.violation('match_raises', f'match raised {type(ex).__name__}', W(equations=[(str(a), str(b)) for a, b in eqs], error=repr(ex)))
                    continue
                if sigma is not None:
                    for (pat, ins), (pe, ie) in zip(eqs, eqs_e):
                        check_sound(pat, pe, ins, ie, sigma, {}, 'match_list')
                continue
        ground = all(not tb.metavar_ids(pe) for pe, _ in eqs_e)
        ctx.count('match_list')
        if m == 0:
            ctx.count('match_list_empty')
        elif ground:
            ctx.count('match_list_all_ground')
        ctx.case(('ml', tuple((tb.show(a), tb.show(b)) for a, b in eqs_e)), nontrivial=m > 0)
        try:
            sigma = P.match(list(eqs))
        except Exception as ex:
            ctx.violation('match_raises', f'match raised {type(ex).__name__}', W(equations=[(str(a), str(b)) for a, b in eqs], error=repr(ex)))
            continue
        if sigma is None:
            first_ground = bool(eqs_e) and not tb.metavar_ids(eqs_e[0][0])
            ctx.violation('match_list_incomplete' + (':empty_substitution_treated_as_failure' if (ground or first_ground) else ''),
                          'match(equations) failed although a common solution exists', W(equations=[(str(a), str(b)) for a, b in eqs]))
            continue
        for (pat, ins), (pe, ie) in zip(eqs, eqs_e):
            check_sound(pat, pe, ins, ie, sigma, {}, 'match_list')
        # a conflicting equation appended: soundness only
        if m and rng.random() < 0.3:
            pe, ie = eqs_e[rng.randrange(m)]
            bad = rp.perturb(ie, rng)
            try:
                s2 = P.match(list(eqs) + [(tb.to_repo(pe, P), tb.to_repo(bad, P))])
            except Exception as ex:
                ctx.violation('match_raises', f'match raised {type(ex).__name__}', W(error=repr(ex)))
                continue
            if s2 is not None:
                for (pat, ins), (pe2, ie2) in zip(list(eqs) + [(tb.to_repo(pe, P), tb.to_repo(bad, P))], eqs_e + [(pe, bad)]):
                    check_sound(pat, pe2, ins, ie2, s2, {}, 'match_list')

    # ---- notations: apply and deconstruct
    n = ctx.scale(128000, 800000)
    items = T.items
    for k in range(n):
        key, N_, fam, de, sf = items[k % len(items)] if k < 4 * len(items) else rng.choice(items)
        args_e = [rp.rand_term(rng, rng.randint(0, 2), meta=rng.random() < 0.4, notation=0.3, substs=False, constrained=0.0) for _ in range(N_.arity)]
        args = [rp.fold(a, rng, 0.5) for a in args_e]
        app = N_(*args)
        app_e = tb.inst(de, dict(enumerate(args_e)), 'naive')
        ctx.count('notation_roundtrips')
        ctx.count('notation:' + fam)
        if N_.arity == 0:
            ctx.count('notation_arity0')
        ctx.case(('nt', key, tuple(tb.show(a) for a in args_e)), nontrivial=True)
        if app_e[0] == 'ap' and sf:
            # the n-ary spine of ANY notation application whose expansion is an application (the head of a definition may be a parameter):
            # symbol and arguments as for the written-out pattern
            ctx.count('nary_deconstruct_any_notation')
            try:
                h1, a1 = K.deconstruct_nary_application(app)
                h2, a2 = K.deconstruct_nary_application(tb.to_repo(app_e, P))
                if E(h1) != E(h2) or tuple(E(a) for a in a1) != tuple(E(a) for a in a2):
                    ctx.violation('nary_deconstruct_differs_on_notation', 'deconstruct_nary_application differs between a notation application and its expansion',
                                  W(notation=N_.label, pattern=app, on_notation=[str(h1)] + [str(a) for a in a1], on_expansion=[str(h2)] + [str(a) for a in a2]))
            except Exception as ex:
                ctx.violation('nary_deconstruct_raises', f'deconstruct_nary_application raised {type(ex).__name__}', W(notation=N_.label, pattern=app, error=repr(ex)[:200]))
        for spelled, how in ((app, 'application'), (tb.to_repo(app_e, P), 'expansion')):
            try:
                got = N_.matches(spelled)
            except Exception as ex:
                ctx.violation('notation_matches_raises', f'{N_.label}.matches raised {type(ex).__name__}', W(notation=N_.label, pattern=spelled, error=repr(ex)))
                continue
            if got is None:
                ctx.violation(f'notation_matches_none_on_own_{how}', f'{N_.label}.matches returned None on an application of {N_.label}', W(notation=N_.label, pattern=spelled))
                continue
            if len(got) != N_.arity or tb.norm_py(tb.of_repo(N_(*got))) != tb.norm_py(app_e):
                ctx.violation('notation_matches_does_not_rebuild', f'{N_.label}.matches returned arguments that do not rebuild the pattern',
                              W(notation=N_.label, pattern=spelled, returned=[str(g) for g in got]))
            ctx.count('assert_matches_calls')
            try:
                got2 = N_.assert_matches(spelled)
                if tuple(E(g) for g in got2) != tuple(E(g) for g in got):
                    ctx.violation('assert_matches_differs_from_matches', 'assert_matches and matches disagree', W(notation=N_.label, pattern=spelled))
            except AssertionError as ex:
                ctx.violation('assert_matches_raises_on_own_application' + (':arity0' if N_.arity == 0 else ''), f'{N_.label}.assert_matches raised on an application of {N_.label}',
                              W(notation=N_.label, arity=N_.arity, pattern=spelled, error=str(ex)[:200]))
        # another notation object carrying the SAME label and arity (generated families: sorted-exists / kore-exists over another
        # variable) asked about this very application: None, or arguments that rebuild it
        sibs = [N2 for _k2, N2, _f2, _d2, _s2 in items if N2 is not N_ and N2.label == N_.label and N2.arity == N_.arity]
        if sibs:
            N2 = rng.choice(sibs)
            ctx.count('same_label_sibling_notation_asked')
            try:
                got2 = N2.matches(app)
                if got2 is not None and tb.norm_py(tb.of_repo(N2(*got2))) != tb.norm_py(app_e):
                    ctx.violation('notation_matches_unsound:same_label_sibling', f'{N2.label}.matches (another notation with the same label) succeeded on an application of its sibling but does not rebuild it',
                                  W(notation=N_.label, pattern=app, returned=[str(g) for g in got2]))
                again = N_.matches(app)
                if again is None or tb.norm_py(tb.of_repo(N_(*again))) != tb.norm_py(app_e):
                    ctx.violation('notation_matches_none_on_own_application:after_sibling', f'{N_.label}.matches no longer deconstructs its own application after a same-label sibling was asked',
                                  W(notation=N_.label, pattern=app))
            except Exception as ex:
                ctx.violation('notation_matches_raises', f'{N2.label}.matches raised {type(ex).__name__}', W(notation=N2.label, pattern=app, error=repr(ex)))
        # something that is not an application: None or sound
        other_e = rp.rand_term(rng, 2, meta=False, notation=0.3)
        got = N_.matches(tb.to_repo(other_e, P))
        if got is not None and tb.norm_py(tb.of_repo(N_(*got))) != tb.norm_py(other_e):
            ctx.violation('notation_matches_unsound', f'{N_.label}.matches succeeded but does not rebuild the pattern', W(notation=N_.label, pattern=tb.pretty(other_e)))
        if fam == 'nary_app' and rng.random() < 0.5:
            ctx.count('nary_deconstruct')
            sym, dargs = K.deconstruct_nary_application(app)
            if E(sym) != E(N_.definition if N_.arity == 0 else _head(N_.definition)) or tuple(E(a) for a in dargs) != tuple(tb.norm_py(a) for a in args_e):
                ctx.violation('nary_deconstruct_wrong', 'deconstruct_nary_application does not return the symbol and arguments', W(pattern=app, got=[str(sym)] + [str(a) for a in dargs]))
            # the application used as the HEAD of a longer spine: (N(args) . x) . y  deconstructs into the symbol and args + [x, y]
            extra_e = [rp.rand_term(rng, 1, meta=False, notation=0.2) for _ in range(rng.randint(1, 2))]
            spine = app
            for x_e in extra_e:
                spine = P.App(spine, rp.fold(x_e, rng, 0.4))
            ctx.count('nary_deconstruct_notation_in_head_position')
            sym2, dargs2 = K.deconstruct_nary_application(spine)
            want = tuple(tb.norm_py(a) for a in args_e) + tuple(tb.norm_py(x) for x in extra_e)
            if E(sym2) != E(N_.definition if N_.arity == 0 else _head(N_.definition)) or tuple(E(a) for a in dargs2) != want:
                ctx.violation('nary_deconstruct_wrong:notation_in_head_position', 'deconstruct_nary_application loses arguments when the head of the spine is a notation application',
                              W(pattern=spine, got=[str(sym2)] + [str(a) for a in dargs2]))


def _head(p):
    while type(p).__name__ == 'App':
        p = p.left
    return p

"""C18 - output is a deterministic function of the input (hash seed, process, serialisation history)."""
from __future__ import annotations

import json
import os
import subprocess
import sys
from pathlib import Path

from .. import repo

READY = True
LEVEL = 'exploration'
TECHNIQUE = 'configuration-sweep runtime monitoring: the real serializer / translator run in fresh subprocesses under different PYTHONHASHSEED values and after different in-process serialisation histories; file digests form the recorded journal and must be identical'
LEVEL_TEXT = ('Shipped and generated proof modules are serialised (binary and pretty, optimised and not) in fresh processes under 8 (thorough 16) hash seeds, '
              'the Metamath benchmarks and generated databases are translated under the same seeds, and within one process module A is serialised alone, after '
              'another module B, twice in a row and again after B; all digests of A\'s six files must coincide.')
LEVEL_NOTE = 'Trusted: sha256 of the emitted files; generators are functions of VERIF_SEED only (no set iteration).'
DESIGN_REF = 'DESIGN.md section 5 C18'
NSHARDS = 16
TIMEOUT = {'quick': 1500, 'thorough': 4 * 3600}
RULE = ('A case is one input (module index or .mm file) x the set of configurations it was run under. distinct_nontrivial = inputs run under at least two '
        'configurations that produced at least one non-empty file.')
ASSUMPTIONS = ['fresh subprocess per (batch, hash seed); determinism across machines/Python versions is out of scope']
FLOORS = {'quick': {'module_inputs': 60, 'nested_axiom_inputs': 20, 'shared_definition_notation_inputs': 6, 'hash_seeds': 8, 'history_cases': 40, 'grown_module_histories': 15, 'translate_inputs': 2, 'inputs_with_memoisation': 20, 'mm_multi_var_targets': 10, 'mm_multi_variable_axiom_inputs': 20}}
FLOORS['thorough'] = dict(FLOORS['quick'], module_inputs=500, hash_seeds=16, history_cases=300)

MM_SKIP = {'transfer.mm', 'transfer5000.mm', 'transfer-largest-slice.mm', 'disjointness-alt-lemma.mm', 'svm5.mm', 'perceptron.mm', 'impreflex.mm', 'impreflex-compressed.mm'}


def var_db(rng):
    names = []
    while len(names) < rng.randint(3, 5):
        n = ''.join(rng.choice('abcdefghkmnpqrstuvwxyz') for _ in range(rng.randint(1, 3))) + rng.choice('XYZ')
        if n not in names:
            names.append(n)
    decl = '\n'.join(f'{n}-is-var $f #Variable {n} $.' for n in names)
    axioms = []
    for i in range(rng.randint(1, 3)):
        vs = rng.sample(names, rng.randint(2, min(3, len(names))))
        t = vs[0]
        for v in vs[1:]:
            t = f'( \\app {t} {v} )' if rng.random() < 0.5 else f'( \\app {v} {t} )'
        axioms.append(f'var-axiom-{i} $a |- ( \\imp {t} {vs[-1]} ) $.')
    return ('$c #Pattern #Variable $.\n$v ph0 ph1 ph2 ' + ' '.join(names) + ' $.\n'
            'ph0-is-pattern $f #Pattern ph0 $.\nph1-is-pattern $f #Pattern ph1 $.\nph2-is-pattern $f #Pattern ph2 $.\n' + decl + '\n'
            '$c |- $.\n$c \\imp \\app $.\n$c ( ) $.\n'
            f'var-is-pattern $a #Pattern {names[0]} $.\n'
            'imp-is-pattern $a #Pattern ( \\imp ph0 ph1 ) $.\napp-is-pattern $a #Pattern ( \\app ph0 ph1 ) $.\n'
            'proof-rule-prop-1 $a |- ( \\imp ph0 ( \\imp ph1 ph0 ) ) $.\n'
            'proof-rule-prop-2 $a |- ( \\imp ( \\imp ph0 ( \\imp ph1 ph2 ) ) ( \\imp ( \\imp ph0 ph1 ) ( \\imp ph0 ph2 ) ) ) $.\n'
            '${\n proof-rule-mp.0 $e |- ( \\imp ph0 ph1 ) $.\n proof-rule-mp.1 $e |- ph0 $.\n proof-rule-mp $a |- ph1 $.\n$}\n'
            + '\n'.join(axioms) + '\n'
            'goal $p |- ( \\imp ph0 ph0 ) $=\n  ( imp-is-pattern proof-rule-prop-2 proof-rule-prop-1 proof-rule-mp ) AAABZBZF\n  AFABBGFBAFACAFDEAADE $.\n')


def run_worker(args, hashseed, timeout=1800):
    env = dict(os.environ)
    env['PYTHONHASHSEED'] = str(hashseed)
    r = subprocess.run([sys.executable, '-m', 'pi2v.checks.c18_worker', *map(str, args)], env=env, capture_output=True, text=True, timeout=timeout, cwd=str(Path(__file__).resolve().parents[2]))
    if r.returncode != 0:
        raise RuntimeError(f'worker failed rc={r.returncode}: {r.stderr[-600:]}')
    return json.loads(r.stdout.strip().splitlines()[-1])


def shard(ctx):
    sc = ctx.mkscratch()
    seeds = list(range(8)) if ctx.quick else list(range(16))
    ctx.count('hash_seeds', len(seeds) if ctx.shard == 0 else 0)
    # ---- modules: each shard owns a slice of inputs and sweeps all hash seeds over it
    per = 6 if ctx.quick else 40
    first = ctx.shard * per
    results = {}
    for hs in seeds:
        try:
            results[hs] = run_worker(['modules', ctx.seed, first, per, sc / f'm{hs}'], hs)
        except Exception as ex:
            ctx.inconclusive(f'modules worker failed under hash seed {hs}: {ex!r}'[:400])
            return
    ref = results[seeds[0]]
    for case, files in ref.items():
        ctx.count('module_inputs')
        if ':nested' in case:
            ctx.count('nested_axiom_inputs')
        if ':sharednot' in case:
            ctx.count('shared_definition_notation_inputs')
        nontriv = any(not k.endswith('refused') for k in files)
        ctx.case(('mod', ctx.seed, case), nontrivial=nontriv)
        if any(k.startswith('binary:1') for k in files) and files.get('binary:1:.ml-proof') != files.get('binary:0:.ml-proof'):
            ctx.count('inputs_with_memoisation')
        for hs in seeds[1:]:
            other = results[hs].get(case)
            if other != files:
                diff = sorted(k for k in set(files) | set(other or {}) if files.get(k) != (other or {}).get(k))
                kind = 'pretty' if all('pretty' in k for k in diff) else ('public_files' if any(k.endswith(('.ml-gamma', '.ml-claim')) for k in diff) else 'proof_file')
                ctx.violation(f'serialize_depends_on_hash_seed:{kind}', f'module {case}: files {diff} differ between PYTHONHASHSEED={seeds[0]} and {hs}',
                              {'case': case, 'verif_seed': ctx.seed, 'hash_seed_a': seeds[0], 'hash_seed_b': hs, 'differing': diff})
                break
    ctx.sample({'case': next(iter(ref)), 'digests': next(iter(ref.values()))})
    # ---- histories (one hash seed per shard, different shards use different ones)
    nh = 3 if ctx.quick else 40
    try:
        alone = run_worker(['hist_alone', ctx.seed, ctx.shard * nh, nh, sc / 'h1'], ctx.shard % 8)
        after = run_worker(['hist_after', ctx.seed, ctx.shard * nh, nh, sc / 'h2'], ctx.shard % 8)
    except Exception as ex:
        ctx.inconclusive(f'histories worker failed: {ex!r}'[:400])
        return
    for case, res0 in alone.items():
        res = dict(after.get(case, {}), A=res0['A'])
        ctx.count('history_cases')
        ctx.case(('hist', ctx.seed, case), nontrivial=True)
        if 'A+' in res0 and 'A,A+' in res:
            ctx.count('grown_module_histories')
            if res['A,A+'] != res0['A+']:
                diff = sorted(k for k in set(res0['A+']) | set(res['A,A+']) if res0['A+'].get(k) != res['A,A+'].get(k))
                ctx.violation('serialize_depends_on_history:A,A+', f'{case}: files {diff} of the extended module differ when the same object had been serialised before it was extended',
                              {'case': case, 'verif_seed': ctx.seed, 'history': 'A,A+', 'differing': diff})
        for h in ('B,A', 'A,A', 'A,B,A'):
            if res.get(h) != res['A']:
                diff = sorted(k for k in set(res['A']) | set(res[h]) if res['A'].get(k) != res[h].get(k))
                ctx.violation(f'serialize_depends_on_history:{h}', f'{case}: files {diff} of module A differ when serialised in history [{h}] instead of alone',
                              {'case': case, 'verif_seed': ctx.seed, 'history': h, 'differing': diff})
                break
    # ---- translate: benchmarks (+ generated databases when the generator is available)
    mm_dir = repo.REPO / 'generation' / 'mm-benchmarks'
    files = sorted(str(p) for p in mm_dir.glob('*.mm') if p.name not in MM_SKIP and p.stat().st_size > 0 and (not ctx.quick or p.stat().st_size < 5000))
    gen_files = []
    try:
        from ..gen import mmdb
        (sc / 'mm').mkdir(parents=True, exist_ok=True)
        want = 3 if ctx.quick else 20
        tries = 0
        while len(gen_files) < want and tries < 200:
            tries += 1
            g = mmdb.make_case(ctx.rng, max_rpn=400)
            if g is None or 'builtin_roles_not_in_f_order' in g['features']:
                continue
            if len(g['tvars']) < 2 and ctx.rng.random() < 0.7:
                continue      # targets with >= 2 metavariables are where hypothesis order matters
            lay = ctx.rng.choice(sorted(g['layouts']))
            f = sc / 'mm' / f'gen{ctx.shard}_{len(gen_files)}.mm'
            f.write_text(g['layouts'][lay]['text'])
            gen_files.append((f, g['target']))
            ctx.count('mm_generated_inputs')
            if len(g['tvars']) >= 2:
                ctx.count('mm_multi_var_targets')
    except Exception as ex:
        ctx.note('mm_generator_unavailable', repr(ex)[:200])
    # databases whose exported axioms mention several distinct #Variable metavariables (their disambiguation order must not
    # depend on the hash seed); variable names are random so that set orders differ between cases
    for k in range(2 if ctx.quick else 8):
        f = sc / 'mm' / f'vars{ctx.shard}_{k}.mm'
        f.write_text(var_db(ctx.rng))
        gen_files.append((f, 'goal'))
        ctx.count('mm_multi_variable_axiom_inputs')
    mine = [f + '::goal' for i, f in enumerate(files) if i % ctx.nshards == ctx.shard] + [f'{f}::{t}' for f, t in gen_files]
    if mine:
        tr = {}
        for hs in seeds[:4] if ctx.quick else seeds[:8]:
            try:
                tr[hs] = run_worker(['translate', sc / f't{hs}', *mine], hs, timeout=3000)
            except Exception as ex:
                ctx.inconclusive(f'translate worker failed under hash seed {hs}: {ex!r}'[:400])
                return
        hs0 = min(tr)
        for name, dig in tr[hs0].items():
            ctx.count('translate_inputs')
            ctx.case(('mm', name), nontrivial='error' not in dig)
            if 'error' in dig:
                ctx.count('translate_errors')
                ctx.note('translate_error_example', {name: dig})
            for hs, r in tr.items():
                if r.get(name) != dig:
                    ctx.violation('translate_depends_on_hash_seed', f'translating {name} gives different files under PYTHONHASHSEED={hs0} and {hs}',
                                  {'file': name, 'hash_seed_a': hs0, 'hash_seed_b': hs, 'a': dig, 'b': r.get(name)})
                    break

"""C20 - K execution traces become chained, checkable rewrite proofs.

Runtime monitor over generated definitions and traces (G7) driving the REAL K front end of the toolkit
(LanguageSemantics.from_kore_definition and the builder API, ConvertionScope, convert_substitutions,
get_proof_hints, ExecutionProofExp.from_proof_hints / rewrite_event, ProofExp.serialize) and judging
every observable against the textbook Kore model O7 (oracles/koreref.py), the term algebra O1
(oracles/tb.py), the real Rust checker (harness over the unmodified lib.rs) and the reference machine O2.
"""
from __future__ import annotations

import os
import random
import traceback
from pathlib import Path

from ..gen import kore as gk
from ..oracles import koreref as kr
from ..oracles import refmachine as rm
from ..oracles import tb
from ..rust import build
from ..rust.hx import Hx

REPO = Path(os.environ.get('PI2_REPO', '/repo'))

READY = True
LEVEL = 'exploration'
TECHNIQUE = ('runtime monitoring with a reference model: seeded Kore definitions and execution traces (matching, and with one '
             'deliberately mismatching step) are pushed through the real conversion and proof-generation code; produced claims, '
             'variable bookkeeping and refusals are compared with an independent textbook model of Kore substitution/conversion, '
             'and every serialised module is executed by the real checker and by the reference stack machine')
LEVEL_TEXT = ('For each generated definition (sorts, symbols, cells, parametric symbols, 1-3 modules) and each generated trace of '
              'length 0-8 the real LanguageSemantics / ConvertionScope / convert_substitutions / get_proof_hints / ExecutionProofExp '
              'code is run; its claims must be exactly the reference image of [rule_i instantiated by substitution_i], a step that does '
              'not start from the configuration reached before must raise and leave the module unchanged, a chained trace must not '
              'raise, conversion must be a scope-wise injective function on variable names and commute with substitution, and the '
              'serialised module (optimize off and on) must be accepted by the real checker and the reference machine with every claim '
              'discharged. Exploration of a seeded sample; nothing is claimed about definitions or traces that were not generated.')
LEVEL_NOTE = ('Trusted: O7 (documented image of Kore terms, decisions D1-D4 in oracles/koreref.py), O1, O2 with decisions A1-A11, and '
              'the structural stand-in for pyk.kore.syntax under /verif/shims (the real pyk is absent in this environment).')
DESIGN_REF = 'DESIGN.md section 5 C20, section 2 (O7), section 3 (G7), Appendix D'
NSHARDS = 16
TIMEOUT = {'quick': 1500, 'thorough': 4 * 3600}
RULE = ('A case is one (definition, trace) pair: the definition is converted by the real code, the trace is replayed through '
        'get_proof_hints + ExecutionProofExp.from_proof_hints, through step-by-step rewrite_event calls and through a semantics object '
        'made with the builder API; the resulting module is serialised and checked. Non-trivial = the trace has at least one step '
        '(it exercises a rule with its substitution); distinct_nontrivial counts distinct (definition text, trace text) hashes among '
        'those. Violations: claims differ from the reference image of the instantiated rules in order; a mismatching step accepted '
        'or a refused step leaving a claim/proof/configuration behind; a chained trace refused; one variable converted to two '
        'metavariables or two variables to one; instantiate(convert(rule), convert(sigma)) != convert(sigma(rule)); serialised '
        'module rejected by the real checker or by O2, or its published claims differ from the reference or stay undischarged.')
ASSUMPTIONS = [
    'the stand-in for pyk.kore.syntax (/verif/shims/pyk) is shape-compatible with pyk v0.1.535 for the constructors used; the Kore parser and the LLVM hint decoder (pyk.kllvm) are out of scope',
    'O7 decisions: a rewrite axiom stands for \\rewrites(L,R) with the second conjuncts (side conditions) dropped, as the toolkit documents; ordinals count every axiom sentence of the definition in textual order; no particular metavariable numbering is prescribed',
    'deciding traces bind variables only to ground terms headed by a symbol declared functional (other heads are tagged classes)',
    'O2 (pi2v/oracles/refmachine.py) is the trusted reading of docs/proof-language.md with decisions A1-A11; rustc stable builds lib.rs as the pinned nightly would',
]
FLOORS = {
    'quick': {
        'definitions': 100, 'rules_converted': 400, 'rules_two_vars_and_repeated_var': 50, 'rules_nonlinear_lhs': 20,
        'traces_matching_accepted': 150, 'traces_len_ge3_accepted': 50, 'traces_len0': 5, 'traces_mismatch_refused': 50,
        'mismatch_refused:subst': 10, 'mismatch_refused:rule': 10, 'mismatch_refused:skip': 5, 'mismatch_refused:init': 5, 'mismatch_refused:unbound': 5,
        'refused_step_state_checked': 50, 'steps_claim_compared': 500, 'commutation_checked': 300,
        'substitutions_converted': 300, 'parametric_symbols_used': 20, 'cell_symbols_used': 20,
        'modules_serialised': 300, 'modules_accepted_by_checker': 300, 'modules_accepted_by_o2': 300,
        'serialised_claims_compared': 500, 'hint_traces': 150, 'hint_traces_with_ignored_events': 40, 'builder_traces': 100, 'scope_sequences': 100,
        'multi_module_definitions': 20, 'equational_axioms_aligned': 10,
    },
}
FLOORS['thorough'] = {k: v * 10 for k, v in FLOORS['quick'].items()}
BUDGET = {'quick': 224, 'thorough': 4000}     # definitions in total (each with ~3 matching + ~3 mismatching traces)


def prepare(tier):
    b = build.ensure(('hx',))
    import proof_generation
    where = Path(proof_generation.__file__).resolve()
    if REPO.resolve() not in where.parents:
        raise RuntimeError(f'proof_generation imported from {where}, expected under {REPO}')
    import pyk.kore.syntax as ks
    if '/verif/shims/' not in ks.__file__ and 'shims' not in ks.__file__:
        return {'binaries': {k: str(v) for k, v in b.items()}, 'pyk': f'real pyk found at {ks.__file__}'}
    return {'binaries': {k: str(v) for k, v in b.items()}, 'pyk': 'structural stand-in /verif/shims/pyk', 'toolkit': str(where.parent)}


# --------------------------------------------------------------------------------------- real code
class Real:
    """late imports of the code under test"""

    def __init__(self):
        import proof_generation.proofs.kore as kl
        from proof_generation.k.execution_proof_generation import ExecutionProofExp
        from proof_generation.k.kore_convertion.language_semantics import (ConvertionScope, KEquationalRule, KRewritingRule,
                                                                           KSortVar, LanguageSemantics)
        from proof_generation.k.kore_convertion.rewrite_steps import RewriteStepExpression, get_proof_hints
        from proof_generation.llvm_proof_hint import LLVMRewriteTrace, LLVMRuleEvent
        from proof_generation.pattern import MetaVar, Symbol
        from proof_generation.proof import OutputFormat, ProofExp
        self.kl = kl
        self.ExecutionProofExp = ExecutionProofExp
        self.ConvertionScope = ConvertionScope
        self.KRewritingRule = KRewritingRule
        self.KEquationalRule = KEquationalRule
        self.KSortVar = KSortVar
        self.LanguageSemantics = LanguageSemantics
        self.RewriteStepExpression = RewriteStepExpression
        self.get_proof_hints = get_proof_hints
        self.LLVMRewriteTrace = LLVMRewriteTrace
        self.LLVMRuleEvent = LLVMRuleEvent
        self.MetaVar = MetaVar
        self.Symbol = Symbol
        self.OutputFormat = OutputFormat
        self.ProofExp = ProofExp


def site_of(exc) -> str:
    """innermost toolkit function on the traceback of a refusal (stable: module.function)"""
    for fr in reversed(traceback.extract_tb(exc.__traceback__)):
        if '/proof_generation/' in fr.filename:
            return f'{Path(fr.filename).stem}.{fr.name}'
    return 'outside_toolkit'


def short(s, n=1500):
    s = str(s)
    return s if len(s) <= n else s[:n] + f'...[{len(s) - n} more]'


def P(t):
    return short(kr.show_tpl(t), 2500)


# -------------------------------------------------------------------------------------- one case
class CaseRunner:
    def __init__(self, ctx, real: Real, hx, case_seed: int, scratch: Path):
        self.ctx = ctx
        self.R = real
        self.hx = hx
        self.seed = case_seed
        self.scratch = scratch
        self.case = gk.gen_case(random.Random(case_seed))
        self.aux = random.Random(case_seed ^ 0x5BD1E995)
        self.pending = []     # serialised modules waiting for the checker
        self.nfile = 0
        self.varmaps = {}     # rule idx -> {name: metavariable id} recovered from the converted rule
        self.claim_cache = {}

    # ------------------------------------------------------------------------------- reporting
    def witness(self, tr=None, **extra):
        c = self.case
        w = {'case_seed': self.seed, 'definition': short(c.definition.text, 14000)}
        if tr is not None:
            w['trace'] = [short(l, 1500) for l in gk.show_trace(tr, c.rules)]
        w.update(extra)
        return w

    def violation(self, mech, summary, tr=None, **extra):
        self.ctx.violation(mech, summary, self.witness(tr, **extra))

    # ------------------------------------------------------------------------------- reference
    def expected_claim(self, st):
        key = (st.rule, tuple(sorted((k, v) for k, v in st.sigma.items())))
        if key not in self.claim_cache:
            self.claim_cache[key] = kr.expected_claim(self.case.rules[st.rule].rewrite, st.sigma)
        return self.claim_cache[key]

    def head_class(self, t) -> str:
        sg = self.case.sig
        if sg.head_supported(t):
            return 'supported'
        h = kr.head(t)
        if h == 'dv':
            return 'dv'
        if h == 'app:kseq':
            return 'kseq'
        return 'nonfunctional_symbol'

    # ------------------------------------------------------------------- (ii) conversion of rules
    def convert_definition(self):
        ctx, R, c = self.ctx, self.R, self.case
        try:
            sem = R.LanguageSemantics.from_kore_definition(c.definition)
        except Exception as e:
            self.violation(f'definition_refused:{site_of(e)}', f'from_kore_definition raised {type(e).__name__}: {short(e, 300)}',
                           exception=short(traceback.format_exc(), 2500))
            return None
        ctx.count('definitions')
        if c.nmodules > 1:
            ctx.count('multi_module_definitions')
        used_syms = set()
        for r in c.rules:
            try:
                ax = sem.get_axiom(r.ordinal)
            except Exception as e:
                self.violation(f'rule_not_found_by_ordinal:{site_of(e)}', f'get_axiom({r.ordinal}) raised {type(e).__name__}: {short(e, 200)}',
                               rule=r.axiom.text)
                continue
            if not isinstance(ax, R.KRewritingRule) or ax.ordinal != r.ordinal:
                self.violation('rule_ordinal_bookkeeping', f'get_axiom({r.ordinal}) is {type(ax).__name__} with ordinal {getattr(ax, "ordinal", None)}',
                               rule=r.axiom.text)
                continue
            tpl = kr.template(r.rewrite)
            actual = tb.of_repo(ax.pattern)
            al = kr.align(tpl, actual)
            ctx.count('rules_converted')
            for t in r.tags:
                ctx.count('rules_' + t)
            if 'two_vars' in r.tags and 'repeated_var' in r.tags:
                ctx.count('rules_two_vars_and_repeated_var')
            ctx.count('rule_variable_occurrences_aligned', len(r.var_occurrences))
            self.judge_alignment(al, tpl, actual, 'rule', r.axiom.text)
            vm = al.varmap()
            self.varmaps[r.idx] = vm
            # the scope kept for the axiom must tell the same story as the pattern
            cache_ = getattr(sem, '_cached_axiom_scopes', None)
            if not isinstance(cache_, dict):
                # not the layout this probe knows (the attribute is private): skip the probe, the behavioural comparisons decide
                ctx.count('scope_probe_skipped')
                continue_probe = False
            else:
                continue_probe = True
            scope = cache_.get(r.ordinal) if continue_probe else None
            if not continue_probe:
                pass
            elif scope is None:
                self.violation('scope_missing_for_rule', f'no cached conversion scope for rule ordinal {r.ordinal}', rule=r.axiom.text)
            else:
                for v in r.variables:
                    try:
                        got = tb.of_repo(scope.lookup_metavar(v))
                    except Exception as e:
                        self.violation('scope_lookup_fails_for_rule_variable', f'lookup_metavar({v!r}) raised {type(e).__name__}', rule=r.axiom.text)
                        continue
                    ctx.count('scope_lookups_compared')
                    if v in vm and got != tb.mv(vm[v]):
                        self.violation('scope_lookup_disagrees_with_converted_rule',
                                       f'variable {v}: scope says {tb.pretty(got)}, converted rule uses phi{vm[v]}', rule=r.axiom.text)
            for _, t in kr.positions(r.rewrite):
                if isinstance(t, gk.K.App):
                    used_syms.add(t.symbol)
        for name in used_syms:
            s = c.symbols[name]
            if s.parametric:
                ctx.count('parametric_symbols_used')
            if s.cell:
                ctx.count('cell_symbols_used')
        # equational axioms share the per-axiom scope mechanism (sort variables live in the same id space)
        noise_by_ax = {}
        for ax, kind, _m in c.noise:
            noise_by_ax.setdefault(ax, kind)
        for o, _mn, ax in kr.ordinals(c.definition):
            kind = noise_by_ax.get(ax)
            if kind == 'equational':
                try:
                    conv = sem.get_axiom(o)
                    tpl = kr.template(ax.pattern)
                    actual = tb.of_repo(conv.pattern)
                except Exception as e:
                    self.violation(f'equational_axiom_refused:{site_of(e)}', f'{type(e).__name__}: {short(e, 200)}', axiom=ax.text)
                    continue
                ctx.count('equational_axioms_aligned')
                self.judge_alignment(kr.align(tpl, actual), tpl, actual, 'equational_axiom', ax.text)
            elif kind == 'other':
                try:
                    sem.get_axiom(o)
                    self.violation('non_rule_axiom_has_rule', f'get_axiom({o}) returned a rule for an axiom that is not a rule', axiom=ax.text)
                except ValueError:
                    ctx.count('non_rule_axioms_skipped')
        return sem

    def judge_alignment(self, al, tpl, actual, what, text):
        if al.mismatch is not None:
            path, e, a = al.mismatch
            self.violation(f'conversion_image_differs:{what}',
                           f'converted {what} differs structurally from the documented image at path {path}: expected {P(e)[:200]}, got {P(a)[:200]}',
                           source=text, expected=P(tpl), got=short(tb.pretty(actual), 2500))
            return False
        ok = True
        bad = al.not_metavariables()
        if bad:
            ok = False
            self.violation(f'variable_not_converted_to_plain_metavariable:{what}', f'variable {bad[0][0]} became {short(tb.pretty(bad[0][1]), 200)}',
                           source=text, got=short(tb.pretty(actual), 2500))
        sp = al.split_variables()
        if sp:
            ok = False
            n, ids = next(iter(sp.items()))
            self.violation(f'one_variable_two_metavariables:{what}', f'occurrences of variable {n} were converted to metavariables {ids}',
                           source=text, got=short(tb.pretty(actual), 2500), relation={k: v for k, v in sp.items()})
        mg = al.merged_variables()
        if mg:
            ok = False
            i, ns = next(iter(mg.items()))
            self.violation(f'two_variables_one_metavariable:{what}', f'distinct variables {ns} were all converted to metavariable phi{i}',
                           source=text, got=short(tb.pretty(actual), 2500), relation={str(k): v for k, v in mg.items()})
        return ok

    # ------------------------------------------------- (ii) substitutions and commutation per step
    def convert_step(self, sem, st, tr, cache):
        """-> converted substitution dict or None.  Checks keys/values and the commutation law once per (rule, sigma)."""
        ctx, c = self.ctx, self.case
        r = c.rules[st.rule]
        key = (st.rule, tuple(st.sigma.items()))
        if key in cache:
            return cache[key]
        try:
            subs = sem.convert_substitutions(dict(st.sigma), r.ordinal)
        except Exception as e:
            self.violation(f'convert_substitutions_refused:{site_of(e)}', f'{type(e).__name__}: {short(e, 200)}', tr, rule=r.axiom.text,
                           sigma=gk.show_sigma(st.sigma))
            cache[key] = None
            return None
        ctx.count('substitutions_converted')
        vm = self.varmaps.get(r.idx, {})
        exp = {vm[v]: kr.image(t) for v, t in st.sigma.items() if v in vm}
        got = {k: tb.of_repo(v) for k, v in subs.items()}
        if len(exp) == len(st.sigma):
            if set(exp) != set(got):
                self.violation('converted_substitution_keys_differ', f'expected metavariable ids {sorted(exp)}, got {sorted(got)}', tr,
                               rule=r.axiom.text, sigma=gk.show_sigma(st.sigma), varmap=vm)
            else:
                for k in exp:
                    if exp[k] != got[k]:
                        self.violation('converted_substitution_value_differs', f'value for phi{k}: expected {P(exp[k])[:200]}, got {tb.pretty(got[k])[:200]}',
                                       tr, rule=r.axiom.text, sigma=gk.show_sigma(st.sigma))
                        break
        if set(kr.variables(r.rewrite)) - set(st.sigma):
            # a deliberately partial substitution (mismatch mode 'unbound'): the commutation law speaks about ground substitutions
            ctx.count('partial_substitutions_converted')
            cache[key] = subs
            return subs
        # commutation: instantiate(convert(rule), convert(sigma)) == convert(sigma(rule)) == reference
        try:
            ax = sem.get_axiom(r.ordinal)
            lhs = tb.of_repo(ax.pattern.instantiate(subs))
            rhs = tb.of_repo(sem.convert_pattern(kr.subst(r.rewrite, st.sigma)))
        except Exception as e:
            self.violation(f'commutation_refused:{site_of(e)}', f'{type(e).__name__}: {short(e, 200)}', tr, rule=r.axiom.text)
            cache[key] = subs
            return subs
        ref = self.expected_claim(st)
        ctx.count('commutation_checked')
        if lhs != rhs:
            self.violation('instantiate_converted_rule_differs_from_converting_substituted_rule',
                           'convert(rule).instantiate(convert_substitutions(sigma)) != convert(sigma(rule))', tr, rule=r.axiom.text,
                           sigma=gk.show_sigma(st.sigma), instantiated=short(tb.pretty(lhs), 2500), converted=short(tb.pretty(rhs), 2500))
        elif lhs != ref:
            self.violation('instantiated_rule_differs_from_reference_image', 'both sides of the commutation law agree with each other but not with O7',
                           tr, rule=r.axiom.text, sigma=gk.show_sigma(st.sigma), got=short(tb.pretty(lhs), 2500), expected=P(ref))
        cache[key] = subs
        return subs

    # ----------------------------------------------------------------------- (i) driving a trace
    def classify_refusal(self, tr, i, exc, sem=None, subs=None):
        site = site_of(exc)
        st = tr.steps[i]
        feature = 'other'
        if site.endswith('add_claim') and gk.first_repeat(gk.Trace(tr.init, tr.steps[:i + 1]), self.case.rules) == i:
            feature = 'repeated_step'
        elif 'collect_functional_axioms' in site:
            # which value is it that the toolkit cannot make a functional assumption for?  ask it value by value
            for v, conv in zip(st.sigma.values(), (subs or {}).values()):
                try:
                    self.R.ExecutionProofExp.collect_functional_axioms(sem, {0: conv})
                except Exception:
                    feature = 'subst_value_' + self.head_class(v)
                    break
        return site, feature

    def judge_outcome(self, tr, path, refused_at, exc, accepted_bad, sem=None, subs=None):
        """Compares where the real code refused with where the reference says it must.  Returns True if the trace behaved."""
        ctx = self.ctx
        if tr.kind == 'mismatch':
            if accepted_bad or (refused_at is not None and refused_at > tr.bad_step):
                self.violation(f'mismatching_step_accepted:{path}',
                               f'step {tr.bad_step} starts from a configuration different from the one reached before it (mode {tr.mode}) and was not refused',
                               tr, expected_current=self.cfg_text(tr, tr.bad_step), step_lhs=self.lhs_text(tr, tr.bad_step))
                return False
            if refused_at == tr.bad_step:
                if path == 'rewrite_event':
                    ctx.count('traces_mismatch_refused')
                    ctx.count(f'mismatch_refused:{tr.mode}')
                ctx.count(f'mismatch_refused_via:{path}')
                ctx.count(f'mismatch_refusal_site:{site_of(exc)}')
                return True
        if refused_at is None:
            return True
        # a step that does start where the previous one ended was refused
        site, feature = self.classify_refusal(tr, refused_at, exc, sem, subs[refused_at] if subs and refused_at < len(subs) else None)
        if feature == 'subst_value_nonfunctional_symbol':
            # the toolkit can only assume functionality of symbols declared functional: refusal is the documented behaviour
            ctx.count('refused_nonfunctional_head')
            return False
        self.violation(f'matching_trace_refused:{site}:{feature}',
                       f'step {refused_at} starts from the configuration reached before it but {path} raised {type(exc).__name__}: {short(exc, 300)}',
                       tr, refused_step=refused_at, exception=short(''.join(traceback.format_exception(exc)), 2500))
        return False

    def cfg_text(self, tr, i):
        return short(gk.configs(tr, self.case.rules)[i].text, 1500)

    def lhs_text(self, tr, i):
        st = tr.steps[i]
        return short(kr.subst(self.case.rules[st.rule].lhs, st.sigma).text, 1500)

    def compare_claims(self, pe, tr, upto, path):
        """claims / proof expressions of the module vs the reference, in order"""
        ctx = self.ctx
        exp = [self.expected_claim(st) for st in tr.steps[:upto]]
        got = [tb.of_repo(c) for c in pe.get_claims()]
        ctx.count('steps_claim_compared', len(exp))
        if got != exp:
            k = next((i for i, (a, b) in enumerate(zip(got, exp)) if a != b), min(len(got), len(exp)))
            kind = 'count' if len(got) != len(exp) else ('order' if sorted(map(tb.show, got)) == sorted(map(tb.show, exp)) else 'content')
            self.violation(f'claims_differ_from_instantiated_rules:{kind}:{path}',
                           f'{len(got)} claims, {len(exp)} expected; first difference at index {k}', tr,
                           expected=[P(e) for e in exp[:10]], got=[short(tb.pretty(g), 2500) for g in got[:10]])
            return False
        concs = [tb.of_repo(p.conc) for p in pe.get_proof_expressions()]
        if concs != exp:
            self.violation(f'proof_expressions_differ_from_claims:{path}', 'conclusions of the registered proof expressions are not the claims in order', tr,
                           expected=[P(e) for e in exp[:10]], got=[short(tb.pretty(g), 2500) for g in concs[:10]])
            return False
        return True

    def drive_steps(self, sem, tr, subs):
        """step-by-step rewrite_event calls; checks the module state after every step"""
        ctx, R, c = self.ctx, self.R, self.case
        pe = R.ExecutionProofExp(sem, sem.convert_pattern(tr.init))
        cfgs = gk.configs(tr, c.rules)
        init_img = kr.image(tr.init)
        if tb.of_repo(pe.initial_configuration) != init_img or tb.of_repo(pe.current_configuration) != init_img:
            self.violation('initial_configuration_differs', 'initial/current configuration of a fresh module is not the image of the initial configuration', tr)
        refused_at, exc, accepted_bad = None, None, False
        done = 0
        for i, st in enumerate(tr.steps):
            r = c.rules[st.rule]
            before = (len(pe.get_claims()), len(pe.get_proof_expressions()), tb.of_repo(pe.current_configuration))
            try:
                pe.rewrite_event(sem.get_axiom(r.ordinal), subs[i])
            except Exception as e:
                refused_at, exc = i, e
                if tr.kind == 'mismatch' and i == tr.bad_step:
                    after = (len(pe.get_claims()), len(pe.get_proof_expressions()), tb.of_repo(pe.current_configuration))
                    ctx.count('refused_step_state_checked')
                    if after != before:
                        what = [n for n, a, b in zip(('claims', 'proof_expressions', 'current_configuration'), after, before) if a != b]
                        self.violation('refused_step_changed_module:' + '+'.join(what),
                                       f'step {i} was refused but {"+".join(what)} changed', tr, before=str(before[:2]), after=str(after[:2]))
                break
            done = i + 1
            if tr.kind == 'mismatch' and i == tr.bad_step:
                accepted_bad = True
                break
            if tb.of_repo(pe.current_configuration) != kr.image(cfgs[i + 1]):
                self.violation('current_configuration_differs_after_step', f'after step {i} the current configuration is not sigma(rhs)', tr,
                               expected=short(cfgs[i + 1].text), got=short(tb.pretty(tb.of_repo(pe.current_configuration)), 2500))
                break
            if len(pe.get_claims()) != i + 1:
                self.violation('claims_differ_from_instantiated_rules:count:rewrite_event', f'{len(pe.get_claims())} claims after {i + 1} steps', tr)
                break
        return pe, done, refused_at, exc, accepted_bad

    def run_trace(self, sem, tr, sub_cache):
        ctx, R, c = self.ctx, self.R, self.case
        n = len(tr.steps)
        key = (c.definition.text, '\n'.join(gk.show_trace(tr, c.rules)))
        ctx.case(key, n >= 1)
        ctx.count('traces')
        ctx.count('traces_' + tr.kind)
        for t in tr.tags:
            ctx.count('trace_tag:' + t)
        last = tr.bad_step + 1 if tr.kind == 'mismatch' else n
        subs = []
        for st in tr.steps[:last]:
            s = self.convert_step(sem, st, tr, sub_cache)
            if s is None:
                return
            subs.append(s)

        # ---- path A: step by step
        pe, done, refused_at, exc, accepted_bad = self.drive_steps(sem, tr, subs)
        ok = self.judge_outcome(tr, 'rewrite_event', refused_at, exc, accepted_bad, sem, subs)
        if ok:
            if self.compare_claims(pe, tr, done, 'rewrite_event'):
                if tr.kind == 'matching':
                    ctx.count('traces_matching_accepted')
                    if n >= 3:
                        ctx.count('traces_len_ge3_accepted')
                    if n == 0:
                        ctx.count('traces_len0')
                    ctx.count(f'trace_length:{n}')
                self.queue_module(pe, tr, done, 'rewrite_event', (False, True))
        elif tr.kind == 'matching' and done and refused_at is not None:
            # the accepted prefix is still a module the property speaks about
            if self.compare_claims_prefix(pe, tr, done):
                self.queue_module(pe, tr, done, 'rewrite_event_prefix', (self.aux.random() < 0.5,))

        # ---- path B: hand-built LLVM trace -> get_proof_hints -> from_proof_hints
        self.run_hints(sem, tr, subs)

    def compare_claims_prefix(self, pe, tr, done):
        exp = [self.expected_claim(st) for st in tr.steps[:done]]
        got = [tb.of_repo(c) for c in pe.get_claims()]
        return got == exp

    def run_hints(self, sem, tr, subs):
        ctx, R, c = self.ctx, self.R, self.case
        n = len(tr.steps)
        events = []
        noisy = False
        for st in tr.steps:
            # events the front end documents as ignored (side conditions, function and hook events) may precede a rule event
            if self.aux.random() < 0.3:
                from proof_generation import llvm_proof_hint as H
                for _ in range(self.aux.randint(1, 2)):
                    kind = self.aux.choice(('side', 'side+term', 'function', 'hook'))
                    if kind == 'side':
                        events.append(H.LLVMSideCondEvent(c.rules[st.rule].ordinal, tuple(st.sigma.items())))
                    elif kind == 'side+term':
                        # a side-condition check followed by a term (what it evaluated to / the configuration it looked at)
                        events.append(H.LLVMSideCondEvent(c.rules[st.rule].ordinal, tuple(st.sigma.items())))
                        events.append(self.aux.choice((tr.init, st.after)))
                    elif kind == 'function':
                        events.append(H.LLVMFunctionEvent('Lblf{}', '0:0', ()))
                    else:
                        events.append(H.LLVMHookEvent('INT.add', '0:1', (), tr.init))
                    noisy = True
            events.append(R.LLVMRuleEvent(c.rules[st.rule].ordinal, tuple(st.sigma.items())))
            events.append(st.after)
        if noisy:
            ctx.count('hint_traces_with_ignored_events')
        llvm = R.LLVMRewriteTrace((), tr.init, tuple(events))
        try:
            hints = list(R.get_proof_hints(llvm, sem))
        except Exception as e:
            self.violation(f'get_proof_hints_refused:{site_of(e)}', f'{type(e).__name__}: {short(e, 200)}', tr)
            return
        ctx.count('hint_traces')
        if len(hints) != n:
            self.violation('hints_count_differs', f'{len(hints)} hints for {n} rule events', tr)
            return
        prev = tr.init
        for i, (h, st) in enumerate(zip(hints, tr.steps)):
            r = c.rules[st.rule]
            bad = None
            if getattr(h.axiom, 'ordinal', None) != r.ordinal:
                bad = 'axiom'
            elif tb.of_repo(h.configuration_before) != kr.image(prev):
                bad = 'configuration_before'
            elif tb.of_repo(h.configuration_after) != kr.image(st.after):
                bad = 'configuration_after'
            elif i < len(subs) and {k: tb.of_repo(v) for k, v in h.substitutions.items()} != {k: tb.of_repo(v) for k, v in subs[i].items()}:
                bad = 'substitutions'
            if bad:
                self.violation(f'hint_field_differs:{bad}', f'hint {i}: {bad} is not what the trace says', tr)
                return
            prev = st.after
            ctx.count('hints_compared')
        refused_at, exc, accepted_bad = None, None, False
        consumed = []

        def feed():
            for h in hints:
                consumed.append(h)
                yield h
        try:
            pe = R.ExecutionProofExp.from_proof_hints(feed(), sem)
        except Exception as e:
            refused_at, exc = len(consumed) - 1, e
            pe = None
        else:
            if tr.kind == 'mismatch':
                accepted_bad = True
        if tr.kind == 'mismatch' and tr.mode == 'init':
            # from_proof_hints takes the starting configuration from the first hint; the LLVM trace's initial configuration
            # IS that hint's configuration_before, so the mismatch is visible to it
            pass
        ok = self.judge_outcome(tr, 'from_proof_hints', refused_at, exc, accepted_bad, sem, subs)
        if ok and pe is not None and tr.kind == 'matching':
            if n == 0:
                if type(pe) is not R.ProofExp and not isinstance(pe, R.ProofExp):
                    self.violation('empty_trace_not_a_module', 'from_proof_hints on an empty trace did not return a proof module', tr)
                    return
                if pe.get_claims():
                    self.violation('claims_differ_from_instantiated_rules:count:from_proof_hints', 'empty trace produced claims', tr)
                    return
                self.queue_module(pe, tr, 0, 'from_proof_hints', (self.aux.random() < 0.5,))
            elif self.compare_claims(pe, tr, n, 'from_proof_hints'):
                ctx.count('hint_traces_accepted')
                self.queue_module(pe, tr, n, 'from_proof_hints', (self.aux.random() < 0.5,))

    # ------------------------------------------------------------------------- builder API path
    def to_pattern(self, sem, t, varmap):
        R, K = self.R, gk.K
        if isinstance(t, K.EVar):
            return R.MetaVar(varmap[t.name])
        if isinstance(t, K.App):
            sym = sem.get_symbol(t.symbol)
            return sym.app(*[sem.get_sort(s.name).aml_symbol for s in t.sorts], *[self.to_pattern(sem, a, varmap) for a in t.args])
        if isinstance(t, K.DV):
            return R.kl.kore_dv(sem.get_sort(t.sort.name).aml_symbol, R.Symbol(t.value.value))
        if isinstance(t, K.Rewrites):
            return R.kl.kore_rewrites(sem.get_sort(t.sort.name).aml_symbol, self.to_pattern(sem, t.left, varmap), self.to_pattern(sem, t.right, varmap))
        raise TypeError(type(t).__name__)

    def build_with_builder(self):
        """the same definition through the public builder API; rules are written by the client with metavariables of its own choice"""
        R, c, K = self.R, self.case, gk.K
        sem = R.LanguageSemantics()
        rules = {}
        by_ord = {r.ordinal: r for r in c.rules}
        ords = {id(ax): o for o, _m, ax in kr.ordinals(c.definition)}
        with sem as s:
            for km in c.definition.modules:
                mod = s.module(km.name)
                with mod as mm:
                    for sent in km.sentences:
                        if isinstance(sent, K.Import):
                            mm.import_module(sem.get_module(sent.module_name))
                        elif isinstance(sent, K.SortDecl):
                            (mm.hooked_sort if sent.hooked else mm.sort)(sent.name)
                        elif isinstance(sent, K.SymbolDecl):
                            params = tuple(R.KSortVar(v.name) for v in sent.symbol.vars)
                            pm = {p.name: p for p in params}

                            def srt(x):
                                return pm[x.name] if isinstance(x, K.SortVar) else mm.get_sort(x.name)
                            attrs = {a.symbol for a in sent.attrs}
                            mm.symbol(sent.symbol.name, srt(sent.sort), sort_params=params, input_sorts=tuple(srt(a) for a in sent.param_sorts),
                                      is_functional='functional' in attrs, is_ctor='constructor' in attrs, is_cell='cell' in attrs)
                        elif isinstance(sent, K.Axiom):
                            r = by_ord.get(ords[id(sent)])
                            if r is None:
                                continue
                            vs = r.variables
                            ids = self.aux.sample(range(len(vs) + 3), len(vs))
                            vm = dict(zip(vs, ids))
                            rules[r.idx] = (mm.rewrite_rule(self.to_pattern(sem, r.rewrite, vm)), vm)
        return sem, rules

    def run_builder(self, traces):
        ctx, R, c = self.ctx, self.R, self.case
        try:
            sem, rules = self.build_with_builder()
        except Exception as e:
            self.violation(f'builder_refused_definition:{site_of(e)}', f'{type(e).__name__}: {short(e, 300)}',
                           exception=short(traceback.format_exc(), 2500))
            return
        ctx.count('builder_definitions')
        for idx, (kr_rule, vm) in rules.items():
            r = c.rules[idx]
            if tb.of_repo(kr_rule.pattern) != kr.image(r.rewrite, vm):
                self.violation('builder_rule_pattern_differs', 'pattern built with KSymbol.app / kore_rewrites is not the documented image',
                               rule=r.axiom.text, got=short(tb.pretty(tb.of_repo(kr_rule.pattern)), 2500), expected=P(kr.image(r.rewrite, vm)))
                return
        for tr in traces:
            n = len(tr.steps)
            cfgs = [tr.init] + [st.after for st in tr.steps]
            hints = []
            for i, st in enumerate(tr.steps):
                rule, vm = rules[st.rule]
                subst = {vm[v]: self.to_pattern(sem, t, {}) for v, t in st.sigma.items()}
                hints.append(R.RewriteStepExpression(self.to_pattern(sem, cfgs[i], {}), self.to_pattern(sem, cfgs[i + 1], {}), rule, subst))
            ctx.count('builder_traces')
            refused_at, exc, accepted_bad = None, None, False
            consumed = []

            def feed():
                for h in hints:
                    consumed.append(h)
                    yield h
            try:
                pe = R.ExecutionProofExp.from_proof_hints(feed(), sem)
            except Exception as e:
                refused_at, exc, pe = len(consumed) - 1, e, None
            else:
                accepted_bad = tr.kind == 'mismatch'
            ok = self.judge_outcome(tr, 'builder_from_proof_hints', refused_at, exc, accepted_bad, sem, [h.substitutions for h in hints])
            if ok and pe is not None and tr.kind == 'matching' and n >= 1:
                if self.compare_claims(pe, tr, n, 'builder_from_proof_hints'):
                    ctx.count('builder_traces_accepted')
                    if self.aux.random() < 0.5:
                        self.queue_module(pe, tr, n, 'builder', (self.aux.random() < 0.5,))

    # ------------------------------------------------------------------------- (iii) serialised
    def queue_module(self, pe, tr, nclaims, path, flags):
        ctx, R = self.ctx, self.R
        exp = [self.expected_claim(st) for st in tr.steps[:nclaims]]
        for opt in flags:
            self.nfile += 1
            base = self.scratch / f'm{self.nfile}'
            try:
                pe.serialize(base, R.OutputFormat.Binary, opt)
            except Exception as e:
                self.violation(f'serialize_refused:{site_of(e)}', f'serialize(optimize={opt}) raised {type(e).__name__}: {short(e, 300)}', tr,
                               path=path, exception=short(traceback.format_exc(), 2500))
                continue
            files = [base.with_suffix(s) for s in ('.ml-gamma', '.ml-claim', '.ml-proof')]
            g, cl, p = (f.read_bytes() for f in files)
            if not p and nclaims:
                # the toolkit never closes its output files; make sure buffered bytes reached the disk
                import gc
                gc.collect()
                g, cl, p = (f.read_bytes() for f in files)
                ctx.count('late_flush_after_gc')
            for f in files:
                f.unlink(missing_ok=True)
            ctx.count('modules_serialised')
            ctx.count(f'modules_serialised:optimize={opt}')
            self.pending.append((g, cl, p, tr, exp, path, opt))

    def flush(self):
        ctx = self.ctx
        if not self.pending:
            return
        pend, self.pending = self.pending, []
        answers = self.hx.run_triples([(g, c, p) for g, c, p, *_ in pend])
        for (g, cl, p, tr, exp, path, opt), a in zip(pend, answers):
            hexw = {'gamma': g.hex()[:6000], 'claim': cl.hex()[:6000], 'proof': p.hex()[:6000], 'path': path, 'optimize': opt}
            if a.startswith('ACCEPT'):
                ctx.count('modules_accepted_by_checker')
            else:
                self.violation('serialised_module_rejected_by_checker', f'real checker: {a[:200]} (path {path}, optimize={opt})', tr, **hexw)
            o2 = rm.run_triple(g, cl, p)
            if o2[0] != 'ACCEPT':
                self.violation(f'serialised_module_rejected_by_reference_machine:{o2[1]}', f'O2 rejects: {o2[1]} {short(o2[2], 200)} (path {path}, optimize={opt})',
                               tr, **hexw)
                continue
            ctx.count('modules_accepted_by_o2')
            j = o2[1].journal
            claims = list(reversed(j['claims']))      # published in reverse, discharged LIFO
            if j['discharged'] != claims:
                self.violation('claims_left_undischarged', f'{len(j["claims"])} claims published, {len(j["discharged"])} discharged (or in another order)', tr, **hexw)
                continue
            ctx.count('claims_discharged', len(claims))
            if len(claims) != len(exp):
                self.violation('serialised_claims_differ:count', f'{len(claims)} claims in the claim file, {len(exp)} expected', tr, **hexw)
                continue
            fwd, bwd = {}, {}
            for i, (e, got) in enumerate(zip(exp, claims)):
                ctx.count('serialised_claims_compared')
                if not tb.match_symbols(e, got, fwd, bwd):
                    self.violation('serialised_claims_differ:content', f'claim {i} of the claim file is not the instantiated rule of step {i} (up to symbol numbering)',
                                   tr, expected=P(e), got=short(tb.pretty(got), 2500), **hexw)
                    break

    # ----------------------------------------------------------------------------------- driver
    def run(self):
        ctx, c = self.ctx, self.case
        sem = self.convert_definition()
        if sem is None:
            return
        cache = {}
        for tr in c.traces:
            self.run_trace(sem, tr, cache)
        self.flush()
        self.run_builder(c.traces)
        self.flush()


# ---------------------------------------------------------------------------- scope, directly
NAME_POOL = gk.VAR_NAMES + ['', ' ', 'x0', '0', '00', 'R', 'From', 'To', 'Val']


def scope_sequences(ctx, real: Real, n: int):
    rng = ctx.rng
    for _ in range(n):
        sc = real.ConvertionScope()
        seen: dict[str, int] = {}
        sseen: dict[str, int] = {}
        names = [rng.choice(NAME_POOL) for _ in range(rng.randint(1, 40))]
        ctx.count('scope_sequences')
        for nm in names:
            sortvar = rng.random() < 0.2
            t = tb.of_repo(sc.resolve_sort_param_metavar(nm) if sortvar else sc.resolve_metavar(nm))
            table = sseen if sortvar else seen
            ctx.count('scope_resolutions')
            w = {'names': names, 'at': nm, 'sort_variable': sortvar, 'got': tb.pretty(t), 'table': dict(table)}
            if t[0] != 'mv' or any(t[2:]):
                ctx.violation('scope_returns_no_plain_metavariable', f'resolve of {nm!r} gave {tb.pretty(t)}', w)
                break
            if nm in table and table[nm] != t[1]:
                ctx.violation('scope_one_name_two_metavariables', f'{nm!r} resolved to phi{table[nm]} and later to phi{t[1]}', w)
                break
            if nm not in table and (t[1] in seen.values() or t[1] in sseen.values()):
                ctx.violation('scope_two_names_one_metavariable', f'{nm!r} resolved to phi{t[1]}, already used for another name', w)
                break
            table[nm] = t[1]
            back = tb.of_repo(sc.lookup_sort_param_metavar(nm) if sortvar else sc.lookup_metavar(nm))
            if back != t:
                ctx.violation('scope_lookup_differs_from_resolve', f'lookup of {nm!r} gave {tb.pretty(back)} after resolve gave {tb.pretty(t)}', w)
                break


# ------------------------------------------------------------------------------------------ shard
def shard(ctx):
    real = Real()
    hx = Hx('hx')
    scratch = ctx.mkscratch()
    scope_sequences(ctx, real, ctx.scale(1600, 16000))
    n = ctx.scale(BUDGET['quick'], BUDGET['thorough'])
    sampled = 0
    for i in range(n):
        seed = ctx.rng.getrandbits(48)
        runner = CaseRunner(ctx, real, hx, seed, scratch)
        runner.run()
        if sampled < 2 and runner.case.traces:
            tr = max(runner.case.traces, key=lambda t: len(t.steps))
            ctx.sample({'case_seed': seed, 'modules': runner.case.nmodules, 'rules': len(runner.case.rules),
                        'rule_example': short(runner.case.rules[0].axiom.text, 600) if runner.case.rules else None,
                        'trace': [short(l, 400) for l in gk.show_trace(tr, runner.case.rules)][:6]})
            sampled += 1
    hx.close()
    ctx.note('hx_restarts', hx.restarts)


# ----------------------------------------------------------------------------------------- replay
class _ReplayCtx:
    def __init__(self):
        self.rng = random.Random(0)
        self.found = []

    def count(self, *a, **k): pass
    def case(self, *a, **k): pass
    def sample(self, *a, **k): pass
    def note(self, *a, **k): pass

    def violation(self, mech, summary, witness):
        self.found.append((mech, summary, witness))


def replay(w):
    """Regenerates the case from its seed and runs the whole monitor on it again."""
    import shutil
    import tempfile
    wit = w['witness']
    want = w.get('mechanism')
    ctx = _ReplayCtx()
    real = Real()
    if 'case_seed' not in wit:
        # a ConvertionScope sequence: self-contained
        sc = real.ConvertionScope()
        for nm in wit['names']:
            print(repr(nm), '->', tb.pretty(tb.of_repo(sc.resolve_metavar(nm))))
        return True
    hx = Hx('hx')
    d = Path(tempfile.mkdtemp(dir=str(Path(__file__).resolve().parents[2] / '.build')))
    try:
        CaseRunner(ctx, real, hx, wit['case_seed'], d).run()
    finally:
        hx.close()
        shutil.rmtree(d, ignore_errors=True)
    for mech, summary, _ in ctx.found:
        print('violation', mech, '-', summary[:300])
    hit = any(m == want for m, _, _ in ctx.found) if want else bool(ctx.found)
    print('reproduced' if hit else 'NOT reproduced', want)
    return hit

"""C12 - notation is transparent: every operation gives O1-equal results on a pattern and on its expansion."""
from __future__ import annotations

from .. import repo
from ..gen import patterns as gp
from ..gen import repo_patterns as rp
from ..oracles import tb

READY = True
LEVEL = 'exploration'
TECHNIQUE = 'runtime reference-model monitoring: real Pattern operations run on notation-wrapped patterns and on their independently computed full expansions, results compared by textbook equality'
LEVEL_TEXT = ('Random and notation-rich patterns are spelled with nested shipped notation (fold) and without (full expansion computed by the '
              'independent term algebra O1); equality, evar_is_free, metavars, apply_esubst/apply_ssubst, instantiate, match_single, '
              'unwrap/extract/deconstruct and Notation.matches of the real classes must agree on both spellings, and == must coincide '
              'with structural equality of expansions (reflexive, symmetric, transitive on sampled triples).')
LEVEL_NOTE = 'Trusted: O1 expansion (tb.of_repo / tb.inst) and its equality up to the A10 normalisation. Hash consistency is recorded, not judged.'
DESIGN_REF = 'DESIGN.md section 5 C12'
NSHARDS = 16
TIMEOUT = {'quick': 1500, 'thorough': 3 * 3600}
RULE = ('A case is a pair (p, q) of repo patterns built from one O1 term e (or from e and a one-leaf perturbation e\'): p, q are random '
        'notation foldings of nesting depth 0-4, e_repo is the notation-free embedding. All listed operations are run on p and on e_repo with '
        'the same arguments. distinct_nontrivial = distinct expansions e whose folding contains at least one notation application.')
ASSUMPTIONS = ['notation definitions that contain deferred substitutions are not folded (none of the shipped ones does)']
FLOORS = {'quick': {'pairs': 5000, 'depth1': 300, 'depth2': 300, 'depth3': 200, 'depth4': 30, 'op:eq': 5000, 'op:evar_is_free': 5000, 'op:metavars': 2000,
                    'op:apply_esubst': 2000, 'op:apply_ssubst': 2000, 'op:instantiate': 2000, 'op:match_single_pat': 1000,
                    'op:match_single_inst': 1000, 'op:unwrap': 2000, 'op:deconstruct': 2000, 'op:deconstruct_nary': 2000, 'substitution_headed_notation_with_implies_or_app_head': 500, 'op:deconstruct_nary_spine>=2': 100, 'op:matches': 2000, 'near_miss_pairs': 1000,
                    'equal_pairs_different_spelling': 1000, 'transitivity_triples': 500}}
FLOORS['thorough'] = dict(FLOORS['quick'], pairs=200000)


def E(x):
    return tb.norm_py(tb.of_repo(x))


def shard(ctx):
    rng = ctx.rng
    rp.IDENTITY_WRAP = 0.03     # leaves and compound nodes spelled through an identity-like notation (definition = bare metavariable)
    P = repo.P()
    T = rp.table()
    npairs = ctx.scale(96000, 1200000)
    plug_pool = gp.concrete_pool(rng, 60, 2, syms=('a', 'b'))
    global SUBST_HEADED
    SUBST_HEADED = [P.Notation('syn_esub', 2, P.ESubst(P.MetaVar(0), P.EVar(0), P.MetaVar(1)), 'esub({0}, {1})'),
                    P.Notation('syn_ssub', 2, P.SSubst(P.MetaVar(0), P.SVar(0), P.MetaVar(1)), 'ssub({0}, {1})'),
                    P.Notation('syn_esub1', 2, P.ESubst(P.MetaVar(0), P.EVar(1), P.MetaVar(1)), 'esub1({0}, {1})')]

    def viol(mech, summary, **w):
        ctx.violation(mech, summary, {k: (str(v) if not isinstance(v, (str, int, list, dict, type(None))) else v) for k, v in w.items()})

    for k in range(npairs):
        depth = rng.randint(1, 4)
        e = rp.rand_term(rng, depth, meta=True, notation=0.45)
        if tb.size(e) > 250:
            continue
        st = {}
        p = rp.fold(e, rng, p=0.8, stats=st)
        q = rp.fold(e, rng, p=rng.choice((0.3, 0.6, 0.9)))
        if rng.random() < 0.06:
            # a notation whose DEFINITION is a pending substitution on a metavariable: the head constructor of an application is only
            # known after the substitution has been carried out on the argument
            nt = rng.choice(SUBST_HEADED)
            a0 = rp.rand_term(rng, rng.randint(1, 2), meta=rng.random() < 0.3, notation=0.3, substs=False, constrained=0.0)
            a1 = rp.rand_term(rng, rng.randint(0, 1), meta=False, notation=0.0, substs=False)
            cand = nt(rp.fold(a0, rng, 0.5), rp.fold(a1, rng, 0.3))
            try:
                e_c = tb.of_repo(cand, 'strict')
                p, q, e = cand, cand, e_c
                st = {}
                ctx.count('substitution_headed_notation_applications')
                if e_c[0] in ('im', 'ap'):
                    ctx.count('substitution_headed_notation_with_implies_or_app_head')
            except tb.Undefined:
                pass
        er = tb.to_repo(e, P)
        nd = rp.arg_layers(p)
        ctx.count('pairs')
        ctx.count(f'depth{min(nd, 4)}')
        for fam, n in st.items():
            if fam != 'depth':
                ctx.count('folded:' + fam, n)
        ctx.case(tb.show(e), nontrivial=nd > 0)
        if k % 997 == 0:
            ctx.sample({'p': str(p)[:300], 'expansion': tb.pretty(e)[:300], 'notation_depth': nd})
        # sanity of the generator itself: the independent expansion of p is e
        if tb.of_repo(p) != e or tb.of_repo(q) != e:
            ctx.inconclusive('generator bug: fold() did not preserve the expansion')
            return
        # ---- equality
        ctx.count('op:eq')
        try:
            r = {'p==er': p == er, 'er==p': er == p, 'p==p': p == p, 'p==q': p == q, 'q==p': q == p, 'er==er': er == er}
        except Exception as ex:
            viol('eq_raises', f'== raised {type(ex).__name__}', p=p, q=q, expansion=tb.pretty(e), error=repr(ex))
            continue
        if p is not q and str(p) != str(q):
            ctx.count('equal_pairs_different_spelling')
        for name, val in r.items():
            if val is not True:
                viol('eq_false_on_equal_expansions:' + ('reflexive' if name in ('p==p',) else 'notation_vs_expansion' if 'er' in name else 'two_spellings'),
                     f'{name} is {val} although both sides expand to the same pattern', p=p, q=q, expansion=tb.pretty(e))
                break
        if r['p==q'] and hash(p) != hash(q):
            ctx.count('recorded_only:hash_differs_on_equal')
        # near miss
        e2 = rp.perturb(e, rng)
        if e2 != e:
            ctx.count('near_miss_pairs')
            p2 = rp.fold(e2, rng, p=0.8)
            er2 = tb.to_repo(e2, P)
            exp_equal = tb.norm_py(e2) == tb.norm_py(e)
            for name, a, b in (('p==p2', p, p2), ('p2==p', p2, p), ('p==er2', p, er2), ('er2==p', er2, p)):
                try:
                    val = (a == b)
                except Exception as ex:
                    viol('eq_raises', f'== raised {type(ex).__name__}', a=a, b=b, error=repr(ex))
                    break
                if bool(val) != exp_equal:
                    viol('eq_differs_from_expansion_equality', f'{name} is {val}, expansions equal: {exp_equal}', a=a, b=b,
                         expansion_a=tb.pretty(tb.of_repo(a)), expansion_b=tb.pretty(tb.of_repo(b)))
                    break
            # transitivity sample: p == er, er == q  =>  p == q  (already covered when all true); and p==q, q!=p2 => p!=p2
            ctx.count('transitivity_triples')
            try:
                if (p == q) and (q == er) and not (p == er):
                    viol('eq_not_transitive', 'p==q and q==e but not p==e', p=p, q=q)
            except Exception:
                pass
        # ---- evar_is_free / metavars
        for x in (0, 1, 2):
            ctx.count('op:evar_is_free')
            a, b = p.evar_is_free(x), er.evar_is_free(x)
            if a != b:
                viol('evar_is_free_differs_on_notation', f'evar_is_free({x}) is {a} on the notation spelling and {b} on its expansion',
                     p=p, expansion=tb.pretty(e), var=x, on_notation=a, on_expansion=b)
                break
        ctx.count('op:metavars')
        if p.metavars() != er.metavars():
            viol('metavars_differs_on_notation', 'metavars() differs between notation and expansion', p=p, expansion=tb.pretty(e),
                 on_notation=sorted(p.metavars()), on_expansion=sorted(er.metavars()))
        # ---- substitution / instantiation with the same arguments
        x = rng.choice((0, 1, 2))
        plug_e = rng.choice(plug_pool) if rng.random() < 0.7 else rp.rand_term(rng, 1)
        plug = rp.fold(plug_e, rng, 0.5)
        def outcome(f):
            try:
                return ('ok', f())
            except AssertionError as ex:
                return ('refused', str(ex)[:80])
            except Exception as ex:
                return ('error', repr(ex)[:200])

        for op in ('apply_esubst', 'apply_ssubst'):
            ctx.count('op:' + op)
            a = outcome(lambda: getattr(p, op)(x, plug))
            b = outcome(lambda: getattr(er, op)(x, tb.to_repo(plug_e, P)))
            if a[0] == 'error' or b[0] == 'error':
                viol(op + '_raises', f'{op} raised an unexpected exception', p=p, var=x, plug=plug, on_notation=a, on_expansion=b)
            elif a[0] != b[0]:
                viol(op + '_refused_on_one_spelling', f'{op}({x}, plug) is refused on one spelling only', p=p, expansion=tb.pretty(e), var=x,
                     plug=plug, on_notation=a[0], on_expansion=b[0])
            elif a[0] == 'refused':
                ctx.count('op_refused_on_both:' + op)
            elif E(a[1]) != E(b[1]):
                viol(op + '_differs_on_notation', f'{op}({x}, plug) differs between notation and expansion', p=p, expansion=tb.pretty(e), var=x,
                     plug=plug, on_notation=tb.pretty(E(a[1])), on_expansion=tb.pretty(E(b[1])))
        ctx.count('op:instantiate')
        ids = sorted(tb.metavar_ids(e))
        if ids:
            chosen = [i for i in ids if rng.random() < 0.7] or ids[:1]
            delta_e = {i: (rng.choice(plug_pool) if rng.random() < 0.5 else rp.rand_term(rng, 1, substs=False)) for i in chosen}
            d1 = {i: rp.fold(v, rng, 0.5) for i, v in delta_e.items()}
            d2 = {i: tb.to_repo(v, P) for i, v in delta_e.items()}
            # Instantiate is lazy: force the work on both spellings by expanding the results
            a = outcome(lambda: E(p.instantiate(d1)))
            b = outcome(lambda: E(er.instantiate(d2)))
            if a[0] == 'error' or b[0] == 'error':
                viol('instantiate_raises', 'instantiate raised an unexpected exception', p=p, on_notation=a, on_expansion=b)
            elif a[0] == 'ok' and b[0] == 'ok':
                if a[1] != b[1]:
                    viol('instantiate_differs_on_notation', 'instantiate(delta) differs between notation and expansion', p=p,
                         expansion=tb.pretty(e), delta={str(i): tb.pretty(v) for i, v in delta_e.items()},
                         on_notation=tb.pretty(a[1]), on_expansion=tb.pretty(b[1]))
            elif a[0] == 'refused' and b[0] == 'refused':
                ctx.count('op_refused_on_both:instantiate')
            else:
                # the notation spelling defers the substitution (lazy wrapper); it must be refused when simplified
                lazy = outcome(lambda: _force(p.instantiate(d1)))
                if lazy[0] == 'refused' and b[0] == 'refused':
                    ctx.count('op_refused_on_both:instantiate')
                else:
                    viol('instantiate_refused_on_one_spelling', 'instantiate(delta) is refused on one spelling only', p=p, expansion=tb.pretty(e),
                         delta={str(i): tb.pretty(v) for i, v in delta_e.items()}, on_notation=a[0], forced=lazy[0], on_expansion=b[0])
        # ---- matching: as pattern and as instance
        if '(es ' not in tb.show(e) and '(ss ' not in tb.show(e):
            ctx.count('op:match_single_pat')
            inst_e = tb.inst(e, {i: rng.choice(plug_pool) for i in ids}, 'naive') if ids else e
            inst_r = tb.to_repo(inst_e, P)
            try:
                a = P.match_single(p, inst_r)
                b = P.match_single(er, inst_r)
                ea = None if a is None else {i: E(v) for i, v in a.items()}
                eb = None if b is None else {i: E(v) for i, v in b.items()}
                if ea != eb:
                    viol('match_single_differs_on_notation_pattern', 'match_single(pattern, instance) differs when the pattern is spelled with notation',
                         p=p, instance=inst_r, on_notation=str(a), on_expansion=str(b))
            except Exception as ex:
                viol('match_single_raises', f'match_single raised {type(ex).__name__}', p=p, error=repr(ex))
            ctx.count('op:match_single_inst')
            # schematic pattern = a notation definition or a generalisation of e; instance spelled both ways
            key, n, fam, de, sf = rng.choice(T.items)
            schem = tb.to_repo(de, P) if rng.random() < 0.5 else tb.to_repo(_generalise(e, rng), P)
            try:
                a = P.match_single(schem, p)
                b = P.match_single(schem, er)
                ea = None if a is None else {i: E(v) for i, v in a.items()}
                eb = None if b is None else {i: E(v) for i, v in b.items()}
                if ea != eb:
                    viol('match_single_differs_on_notation_instance', 'match_single(pattern, instance) differs when the instance is spelled with notation',
                         pattern=schem, instance=p, on_notation=str(a), on_expansion=str(b))
            except Exception as ex:
                viol('match_single_raises', f'match_single raised {type(ex).__name__}', pattern=schem, instance=p, error=repr(ex))
        # ---- destructuring
        ctx.count('op:unwrap')
        for cls in (P.Implies, P.App):
            a, b = cls.unwrap(p), cls.unwrap(er)
            if (a is None) != (b is None) or (a is not None and tuple(E(v) for v in a) != tuple(E(v) for v in b)):
                viol('unwrap_differs_on_notation', f'{cls.__name__}.unwrap differs between notation and expansion', p=p, expansion=tb.pretty(e),
                     on_notation=str(a), on_expansion=str(b))
            try:
                xa = cls.extract(p)
                okb = True
            except AssertionError:
                xa = None
            if (xa is None) != (b is None):
                viol('extract_differs_on_notation', f'{cls.__name__}.extract raises on one spelling only', p=p, expansion=tb.pretty(e))
        ctx.count('op:deconstruct')
        for cls in (P.EVar, P.SVar, P.Symbol, P.Exists, P.Mu):
            a, b = cls.deconstruct(p), cls.deconstruct(er)
            na = _norm_dec(a); nb = _norm_dec(b)
            if na != nb:
                viol('deconstruct_differs_on_notation', f'{cls.__name__}.deconstruct differs between notation and expansion', p=p,
                     expansion=tb.pretty(e), on_notation=str(a), on_expansion=str(b))
        # n-ary application spine (proofs.kore.deconstruct_nary_application): head and argument list
        try:
            K = repo.mod('proofs.kore')
            ha, aa = K.deconstruct_nary_application(p)
            hb, ab = K.deconstruct_nary_application(er)
            ctx.count('op:deconstruct_nary')
            if len(ab) >= 2:
                ctx.count('op:deconstruct_nary_spine>=2')
            if E(ha) != E(hb) or tuple(E(v) for v in aa) != tuple(E(v) for v in ab):
                viol('deconstruct_nary_differs_on_notation', 'deconstruct_nary_application differs between notation and expansion', p=p,
                     expansion=tb.pretty(e), on_notation=str((ha, aa)), on_expansion=str((hb, ab)))
        except Exception as ex:
            viol('deconstruct_nary_raises', f'deconstruct_nary_application raised {type(ex).__name__}', p=p, error=repr(ex))
        ctx.count('op:matches')
        key, n, fam, de, sf = rng.choice(T.items)
        try:
            a, b = n.matches(p), n.matches(er)
            na = None if a is None else tuple(E(v) for v in a)
            nb = None if b is None else tuple(E(v) for v in b)
            if na != nb:
                viol('notation_matches_differs_on_notation', f'{n.label}.matches differs between notation and expansion', p=p,
                     expansion=tb.pretty(e), on_notation=str(a), on_expansion=str(b))
        except Exception as ex:
            viol('notation_matches_raises', f'{n.label}.matches raised {type(ex).__name__}', p=p, error=repr(ex))


def _force(x):
    """fully simplify a repo pattern with the repo's own code (raises where a deferred substitution is refused)"""
    cn = type(x).__name__
    if cn == 'Instantiate':
        return _force(x.simplify())
    if cn in ('Implies', 'App'):
        return type(x)(_force(x.left), _force(x.right))
    if cn in ('Exists', 'Mu'):
        return type(x)(x.var, _force(x.subpattern))
    if cn in ('ESubst', 'SSubst'):
        return type(x)(_force(x.pattern), x.var, _force(x.plug))
    return x


def _norm_dec(a):
    if a is None:
        return None
    if isinstance(a, tuple):
        return (a[0], E(a[1]))
    return a


def _generalise(e, rng, p=0.3):
    """replace random subterms by metavariables (a schematic pattern that e is an instance of, modulo repeated ids)"""
    k = e[0]
    if rng.random() < p:
        return tb.mv(rng.choice((0, 1, 2)))
    if k in ('im', 'ap'):
        return (k, _generalise(e[1], rng, p), _generalise(e[2], rng, p))
    if k in ('ex', 'mu'):
        return (k, e[1], _generalise(e[2], rng, p))
    if k in ('es', 'ss'):
        return tb.mv(3)
    return e

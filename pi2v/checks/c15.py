"""C15 - Metamath compressed proofs are decoded as Appendix B of the Metamath book says.

The real lark parser and the real MetamathConverter decode generated database texts in fresh
subprocesses (one per PYTHONHASHSEED); `Lemma.proof.labels` and `.applied_lemmas` are compared with
O6 (pi2v.oracles.mm: codec + mandatory-hypothesis order of the small verifier).
"""
from __future__ import annotations

import json
import os
import subprocess
import sys
from pathlib import Path

READY = True
LEVEL = 'exploration'
TECHNIQUE = ('post-condition monitor on the real parser+converter (_import_proof) against an independent Appendix-B codec and '
             'mandatory-hypothesis oracle; exhaustive step numbers 1..10^6; hash-seed sweep in fresh subprocesses')
LEVEL_TEXT = ('Every step number 1..10^6 (thorough: ..3*10^6 plus 10^5 random numbers below 5^9*20) is encoded by the oracle, put in a '
              'database text, parsed by the real lark grammar, decoded by the real converter and compared. Label tables: generated '
              'targets with 0-6 mandatory variables whose $f order is a random permutation, label lists of length 0-40, Z never/'
              'always/random, all whitespace a .mm file allows, plus valid G6 proofs in three compression layouts; each database is '
              'decoded under every hash seed of the sweep and every result must equal the oracle. Exhaustive for the numbers, '
              'sampled for tables.')
LEVEL_NOTE = ('Trusted: the 20-line codec in pi2v/oracles/mm.py (checked against the values printed in the Metamath book and by round '
              'trip) and its mandatory-hypothesis order (the verifier that accepts every shipped benchmark).')
DESIGN_REF = 'DESIGN.md section 5 C15'
NSHARDS = 16
TIMEOUT = {'quick': 900, 'thorough': 3 * 3600}
RULE = ('A case is one database text decoded under one hash-seed sweep. Number cases: a chunk of 50 000 consecutive step numbers. '
        'Table cases: a target with m mandatory variables, a label list and a step list. distinct_nontrivial = distinct database '
        'texts whose target has >= 2 mandatory variables or whose step list has a number > 20 or a Z.')
ASSUMPTIONS = ['floating hypotheses follow the `<var>-is-pattern` label convention the converter documents (other spellings are run and reported only)',
               'targets have no essential hypotheses (the translator does not support them)']
EXHAUSTIVE = {'quick': 'step numbers 1..1 000 000, each decoded by the real parser+converter', 'thorough': 'step numbers 1..3 000 000'}

QUICK_SEEDS = list(range(16))
FLOORS = {'quick': {'numbers_decoded': 1000000, 'number_chunks': 20, 'table_cases': 1500, 'targets_with_2plus_vars': 200,
                    'targets_with_2plus_vars_f_not_name_order': 100, 'valid_proof_cases': 100, 'cases_with_Z': 300,
                    'label_list_len_0': 20, 'twin_theorem_cases': 100, 'targets_with_element_or_set_variable': 100, 'label_list_len_30plus': 50, 'wild_whitespace_cases': 300, 'hash_seeds_per_case_min16': 1500,
                    **{f'seed_runs:{s}': 1500 for s in QUICK_SEEDS}}}
FLOORS['thorough'] = dict(FLOORS['quick'], numbers_decoded=3000000, number_chunks=60, table_cases=12000,
                          **{f'seed_runs:{s}': 12000 for s in range(32)})

REPO = Path(os.environ.get('PI2_REPO', '/repo'))
VERIF = Path(__file__).resolve().parents[2]
CHUNK = 50000


# ------------------------------------------------------------------------------------------ worker
def worker(inp, outp):
    """Runs in a fresh interpreter with the PYTHONHASHSEED under test: real parser + real converter."""
    from proof_generation.metamath.converter.converter import MetamathConverter
    from proof_generation.metamath.parser import parse_database
    cases = json.loads(Path(inp).read_text())
    out = []
    for c in cases:
        try:
            db = parse_database(c['text'])
            conv = MetamathConverter(db)
            pr = conv.get_lemma_by_name(c['target']).proof
            out.append({'labels': {str(k): v for k, v in pr.labels.items()}, 'label_order': [int(k) for k in pr.labels],
                        'applied': list(pr.applied_lemmas)})
        except BaseException as e:  # noqa: BLE001 - the monitor records any failure of the real code
            import traceback
            tb = traceback.extract_tb(e.__traceback__)
            where = f'{os.path.basename(tb[-1].filename)}:{tb[-1].name}' if tb else '?'
            out.append({'error': type(e).__name__, 'where': where, 'message': str(e)[:300]})
    Path(outp).write_text(json.dumps(out, separators=(',', ':')))


def run_worker(cases, seed, scratch: Path, tag, timeout=1200):
    inp = scratch / f'in_{tag}.json'
    outp = scratch / f'out_{tag}_{seed}.json'
    if not inp.exists():
        inp.write_text(json.dumps([{'text': c['text'], 'target': c['target']} for c in cases]))
    env = dict(os.environ)
    env['PYTHONHASHSEED'] = str(seed)
    env['PYTHONPATH'] = f'{VERIF}:{REPO}/generation/src'
    env['PYTHONDONTWRITEBYTECODE'] = '1'
    r = subprocess.run([sys.executable, '-m', 'pi2v.checks.c15', '--worker', str(inp), str(outp)], cwd=str(VERIF), env=env,
                       stdout=subprocess.PIPE, stderr=subprocess.STDOUT, timeout=timeout)
    if r.returncode != 0 or not outp.exists():
        raise RuntimeError(f'decode worker failed (seed {seed}): {r.stdout.decode("utf8", "replace")[-800:]}')
    res = json.loads(outp.read_text())
    outp.unlink()
    return res


# ------------------------------------------------------------------------------------------ oracle
def expected_of(case):
    mand, listed = case['mand'], case['listed']
    labels = {str(i + 1): l for i, l in enumerate(mand)}
    for j, l in enumerate(listed):
        labels[str(len(mand) + j + 1)] = l
    applied = [0 if s == 'Z' else s for s in case['steps']]
    return labels, applied


def first_diff(a, b):
    for i, (x, y) in enumerate(zip(a, b)):
        if x != y:
            return i
    return min(len(a), len(b)) if len(a) != len(b) else None


def classify(case, by_seed):
    """-> list of (mechanism, summary, detail) ; empty if every seed's result equals the oracle"""
    exp_labels, exp_applied = expected_of(case)
    m = len(case['mand'])
    found = {}
    mand_tables = set()
    for seed, r in sorted(by_seed.items()):
        if 'error' in r:
            found.setdefault(f'decoder_raises:{r["error"]}:{r.get("where", "?")}', (seed, f'{r["error"]}: {r["message"]}'))
            continue
        got_mand = tuple(r['labels'].get(str(i + 1)) for i in range(m))
        mand_tables.add(got_mand)
        if r['applied'] != exp_applied:
            i = first_diff(r['applied'], exp_applied)
            if i >= len(exp_applied) or i >= len(r['applied']):
                mech = 'step_list_length_wrong'
            elif exp_applied[i] == 0 or r['applied'][i] == 0:
                mech = 'z_mark_decoded_wrong'
            else:
                mech = 'step_number_decoded_wrong'
            found.setdefault(mech, (seed, f'step {i}: expected {exp_applied[i:i + 3]} got {r["applied"][i:i + 3]} '
                                          ''))
        if r['labels'] != exp_labels:
            listed_got = {k: v for k, v in r['labels'].items() if int(k) > m}
            listed_exp = {k: v for k, v in exp_labels.items() if int(k) > m}
            if listed_got != listed_exp:
                found.setdefault('label_list_decoded_wrong', (seed, f'expected listed labels {list(listed_exp.items())[:6]}... got {list(listed_got.items())[:6]}...'))
            if list(got_mand) != case['mand']:
                if sorted(x or '' for x in got_mand) == sorted(case['mand']):
                    found.setdefault('MAND_ORDER', (seed, f'expected mandatory hypotheses {case["mand"]} got {list(got_mand)}'))
                else:
                    found.setdefault('mandatory_hyp_labels_wrong', (seed, f'expected mandatory hypotheses {case["mand"]} got {list(got_mand)}'))
    out = []
    for mech, (seed, detail) in found.items():
        if mech == 'MAND_ORDER':
            if len(mand_tables) > 1:
                mech = 'mandatory_hyp_order_hash_seed_dependent'
                detail += f'; {len(mand_tables)} different tables over seeds {sorted(by_seed)[0]}..{sorted(by_seed)[-1]}'
            else:
                mech = 'mandatory_hyp_order_not_database_order'
        out.append((mech, seed, detail))
    return out


def witness_of(case, by_seed, seed):
    exp_labels, exp_applied = expected_of(case)
    def short(r):
        if 'error' in r:
            return r
        return {'labels': r['labels'], 'applied_head': r['applied'][:60], 'applied_len': len(r['applied'])}
    seeds = sorted(by_seed)
    keep = sorted(set([seed] + seeds[:4]))
    return {'database': case['text'] if len(case['text']) < 20000 else case['text'][:20000] + '...(truncated)',
            'target': case['target'], 'f_order': case.get('f_order'),
            'expected': {'labels': exp_labels, 'applied_head': exp_applied[:60], 'applied_len': len(exp_applied)},
            'got_by_seed': {str(s): short(by_seed[s]) for s in keep},
            'mandatory_tables_by_seed': {str(s): [by_seed[s]['labels'].get(str(i + 1)) for i in range(len(case['mand']))]
                                         for s in seeds if 'error' not in by_seed[s]},
            'mand': case['mand'], 'listed': case['listed'], 'steps_head': [str(x) for x in case['steps'][:60]],
            'hash_seeds': seeds}


# ------------------------------------------------------------------------------------------- shard
def selfcheck(ctx):
    from ..oracles import mm
    e = mm.codec_selfcheck()
    if e:
        ctx.inconclusive('O6(a) self-check failed: ' + e)
        return False
    n = 0
    for f in sorted((REPO / 'generation' / 'mm-benchmarks').glob('*.mm')):
        t = f.read_text()
        if not t.strip():
            continue
        db, err = mm.verify_text(t, strict=False)
        if err is not None or any(v is not None for v in db.results.values()):
            ctx.inconclusive(f'O6(b) self-check: does not verify shipped benchmark {f.name}: {err}')
            return False
        n += 1
    if n < 5:
        ctx.inconclusive('O6(b) self-check: fewer than 5 shipped benchmarks found')
        return False
    ctx.count('oracle_selfcheck_benchmarks', n)
    return True


def shard(ctx):
    from ..gen import mmdb
    from ..oracles import mm
    rng = ctx.rng
    if not selfcheck(ctx):
        return
    scratch = ctx.mkscratch()
    seeds = list(QUICK_SEEDS) if ctx.quick else list(range(32)) + [10 ** 6 + ctx.shard, 2 ** 31 + ctx.shard, 4294967295 - ctx.shard]

    # ---- (i) numbers, exhaustive
    top = 10 ** 6 if ctx.quick else 3 * 10 ** 6
    chunks = [(lo, min(lo + CHUNK, top + 1)) for lo in range(1, top + 1, CHUNK)]
    mine = [c for i, c in enumerate(chunks) if i % ctx.nshards == ctx.shard]
    ncases = [mmdb.numbers_case(lo, hi) for lo, hi in mine]
    extra = [mmdb.numbers_case(1 + 3000 * ctx.shard, 1 + 3000 * (ctx.shard + 1), rng, zs=True)]
    if not ctx.quick:
        nums = sorted(rng.randint(1, 5 ** 9 * 20) for _ in range(100000 // ctx.nshards))
        c = mmdb.numbers_case(1, 2)
        steps = nums
        body = '\n '.join(''.join(mm.encode(n) for n in steps[i:i + 12]) for i in range(0, len(steps), 12))
        c['text'] = c['text'].replace('( imp-is-pattern ) A $.', f'( imp-is-pattern ) {body} $.')
        c['steps'] = steps
        extra.append(c)
    allnum = ncases + extra
    if allnum:
        num_seeds = [0, 1 + ctx.shard]
        res = {s: run_worker(allnum, s, scratch, 'num') for s in num_seeds}
        for i, case in enumerate(allnum):
            by_seed = {s: res[s][i] for s in num_seeds}
            ctx.case(('numbers', case['steps'][0], len(case['steps'])), True)
            bad = classify(case, by_seed)
            if not bad:
                if i < len(ncases):
                    ctx.count('numbers_decoded', len(case['steps']))
                    ctx.count('number_chunks')
                else:
                    ctx.count('extra_numbers_decoded', sum(1 for s in case['steps'] if s != 'Z'))
            for mech, seed, detail in bad:
                # minimal reproducer: the first wrong number alone
                w = witness_of(case, by_seed, seed)
                r = by_seed[seed]
                if 'applied' in r:
                    _, exp_applied = expected_of(case)
                    j = first_diff(r['applied'], exp_applied)
                    if j is not None and j < len(exp_applied) and exp_applied[j] != 0:
                        n = exp_applied[j]
                        small = mmdb.numbers_case(n, n + 1)
                        sr = run_worker([small], seed, scratch, f'min{n}')[0]
                        w['minimal'] = {'database': small['text'], 'number': n, 'letters': mm.encode(n), 'expected_applied': [n], 'got': sr.get('applied', sr)}
                        detail = f'number {n} (letters {mm.encode(n)}) decoded as {sr.get("applied", sr)}; ' + detail
                ctx.violation(mech, detail, w)
        ctx.sample({'class': 'numbers', 'chunks': mine, 'first_letters': [mm.encode(lo) for lo, _ in mine]})

    # ---- (ii)-(iv) tables
    total = ctx.scale(2400, 24000)
    cases = []
    while len(cases) < total:
        r = rng.random()
        if r < 0.12:
            g = None
            for _ in range(5):
                g = mmdb.make_case(rng, max_rpn=600)
                if g is not None:
                    break
            if g is None:
                continue
            for lay, d in g['layouts'].items():
                cases.append({'text': d['text'], 'target': g['target'], 'mand': g['mand'], 'listed': d['listed'], 'steps': d['steps'],
                              'nvars': len(g['tvars']), 'f_order': [g['theory'].f_label[v] for v in g['theory'].f_order],
                              'kind': 'valid_proof', 'layout': lay, 'conventional': True,
                              'style': 'wild' if 'wild_whitespace' in g['features'] else 'canonical',
                              'f_sorted': g['mand'] == sorted(g['mand'])})
        elif r < 0.2:
            c = mmdb.decode_case(rng, conventional=False)
            c['kind'] = 'nonconventional'
            cases.append(c)
        else:
            c = mmdb.decode_case(rng, twin=rng.choice((False, False, False, False, True, True, 'same_vars')))
            c['kind'] = 'table'
            tw = c.pop('twin', None)
            cases.append(c)
            if tw is not None:
                # a second theorem of the same database with the same proof text over other variables
                tw.pop('twin', None)
                tw['kind'] = 'table'
                cases.append(tw)
    # every generated text must agree with the oracle's own reading of it (generator self-check)
    for c in cases:
        db = mm.Database(c['text'], verify=False)
        a = db.labels[c['target']]
        close = a.proof.index(')')
        if db.mandatory_labels(a) != c['mand'] or a.proof[1:close] != c['listed'] or mm.decode(''.join(a.proof[close + 1:])) != c['steps']:
            ctx.inconclusive('generator and O6 disagree about a generated database')
            return
    res = {}
    for s in seeds:
        res[s] = run_worker(cases, s, scratch, 'tab')
        ctx.count(f'seed_runs:{s}', len(cases))
    ctx.note('hash_seeds', seeds)
    nsample = 0
    for i in sorted(range(len(cases)), key=lambda j: (len(cases[j]['text']) // 500, j)):
        c = cases[i]
        by_seed = {s: res[s][i] for s in seeds}
        nontrivial = c['nvars'] >= 2 or any(s == 'Z' or s > 20 for s in c['steps'])
        ctx.case(c['text'], nontrivial)
        bad = classify(c, by_seed)
        if c['kind'] == 'nonconventional':
            ctx.count('nonconventional_label_cases')
            if bad:
                ctx.count('reported_only:nonconventional_f_labels_decoded_differently')
            continue
        ctx.count('table_cases')
        if c.get('twin_of'):
            ctx.count('twin_theorem_cases')
        if c.get('non_pattern_mandatory'):
            ctx.count('targets_with_element_or_set_variable')
        if len(seeds) >= 16:
            ctx.count('hash_seeds_per_case_min16')
        if c['kind'] == 'valid_proof':
            ctx.count('valid_proof_cases')
        if c['nvars'] >= 2:
            ctx.count('targets_with_2plus_vars')
            if not c['f_sorted']:
                ctx.count('targets_with_2plus_vars_f_not_name_order')
        ctx.count(f'mandatory_vars:{min(c["nvars"], 6)}')
        if 'Z' in c['steps']:
            ctx.count('cases_with_Z')
        L = len(c['listed'])
        if L == 0:
            ctx.count('label_list_len_0')
        if L >= 30:
            ctx.count('label_list_len_30plus')
        if c.get('style') == 'wild':
            ctx.count('wild_whitespace_cases')
        if any(s != 'Z' and s > 120 for s in c['steps']):
            ctx.count('cases_with_3letter_numbers')
        for mech, seed, detail in bad:
            ctx.violation(mech, f'{c["kind"]} target {c["target"]} with {c["nvars"]} mandatory variable(s), $f order {c["f_order"]}: {detail}',
                          witness_of(c, by_seed, seed))
        if not bad:
            ctx.count('table_cases_correct_under_all_seeds')
        if nsample < 3 and c['nvars'] >= 2 and len(c['text']) < 6000:
            nsample += 1
            ctx.sample({'class': c['kind'], 'target': c['target'], 'mandatory': c['mand'], 'listed': c['listed'][:8], 'steps': [str(x) for x in c['steps'][:20]],
                        'tables_seen': sorted({json.dumps([by_seed[s].get('labels', {}).get(str(k + 1)) for k in range(len(c['mand']))]) for s in seeds}),
                        'verdict': [b[0] for b in bad] or 'equal to oracle under all seeds'})


# ------------------------------------------------------------------------------------------ replay
def replay(w):
    wit = w['witness']
    scratch = VERIF / '.build' / 'scratch' / f'replay{os.getpid()}'
    scratch.mkdir(parents=True, exist_ok=True)
    try:
        if 'minimal' in wit:
            case = {'text': wit['minimal']['database'], 'target': 'numbers', 'mand': ['ph0-is-pattern'], 'listed': ['imp-is-pattern'],
                    'steps': [wit['minimal']['number']]}
        else:
            if wit['database'].endswith('(truncated)'):
                print('witness database was truncated; cannot replay')
                return True
            case = {'text': wit['database'], 'target': wit['target'], 'mand': wit['mand'], 'listed': wit['listed'], 'steps': None}
        seeds = [int(s) for s in wit['hash_seeds']]
        by_seed = {s: run_worker([case], s, scratch, f'r{s}')[0] for s in seeds}
        if case['steps'] is None:
            from ..oracles import mm
            db = mm.Database(case['text'], verify=False)
            a = db.labels[case['target']]
            close = a.proof.index(')')
            case['steps'] = mm.decode(''.join(a.proof[close + 1:]))
        bad = classify(case, by_seed)
        print('target', case['target'], 'expected mandatory hypotheses', case['mand'])
        for s in seeds:
            r = by_seed[s]
            print(f'  PYTHONHASHSEED={s}:', r.get('error') or [r['labels'].get(str(i + 1)) for i in range(len(case['mand']))], (r.get('applied') or [])[:12])
        print('mechanisms now:', [b[0] for b in bad])
        return any(b[0] == w['mechanism'] for b in bad)
    finally:
        import shutil
        shutil.rmtree(scratch, ignore_errors=True)


if __name__ == '__main__':
    if len(sys.argv) == 4 and sys.argv[1] == '--worker':
        worker(sys.argv[2], sys.argv[3])

"""C17 - Metamath databases survive printing, re-parsing and slicing.

The real parser, printer (Encoder) and slicer (metamath_extract_slice) run in fresh subprocesses under
several hash seeds on generated databases (G6, C17 variant) and on the shipped ones; every printed text
is re-parsed by the real parser and compared, every slice is checked by the strict verifier O6(b).
"""
from __future__ import annotations

import hashlib
import json
import os
import re
import subprocess
import sys
import tarfile
from pathlib import Path

READY = True
LEVEL = 'exploration'
TECHNIQUE = ('post-condition monitors on the real printer and slicer: round trip through the real parser, and an independent strict '
             'Metamath verifier run on every extracted slice; hash-seed sweep in fresh subprocesses')
LEVEL_TEXT = ('Generated databases (nested blocks, top-level and block $d, essential hypotheses on rules and lemmas, 2-7 dependent lemmas '
              'with compressed proofs in three Z layouts, dummy variables) and the shipped databases are parsed, printed and re-parsed by '
              'the real code; slice_database is run for every lemma; each slice text must re-parse with the real parser, be accepted by '
              'the strict verifier (every symbol declared, every variable with an active $f, proof verifies), contain the lemma with its '
              'original statement, hypotheses and proof text, and list its $f statements in the original relative order. Sampled, not exhaustive.')
LEVEL_NOTE = 'Trusted: the Metamath verifier in pi2v/oracles/mm.py (accepts every shipped benchmark and every generated database before slicing; rejects undeclared symbols).'
DESIGN_REF = 'DESIGN.md section 5 C17'
NSHARDS = 16
TIMEOUT = {'quick': 900, 'thorough': 3 * 3600}
RULE = ('A case is one database under one hash seed (round trip) or one (lemma, slice text). distinct_nontrivial = distinct slice texts '
        'verified plus distinct databases with at least one block.')
ASSUMPTIONS = ['lemma blocks have the shape the slicer documents: `${ $d/$e ... $p $}` (no block nested inside a lemma block)',
               'the 20-50 MB raw databases in raw-mm-proofs are not used (only proof-single-rewrite)']
SEEDS = list(range(8))
FLOORS = {'quick': {'databases': 300, 'databases_with_nested_blocks': 100, 'databases_with_dv': 100, 'databases_with_e': 100,
                    'roundtrips_checked': 2400, 'slices_verified': 1000, 'slices_with_hyps': 100, 'slices_with_dv': 30, 'slices_using_earlier_lemma': 60,
                    'shipped_databases': 10, 'roundtrip_only_databases_checked': 200, 'shipped_slices_verified': 500, 'databases_with:clash_token_is_variable': 20, 'databases_with:empty_label_list': 30, 'databases_with:very_long_lines': 10, 'databases_with:two_global_dv_around_an_axiom': 15, 'databases_with:flat_block_with_two_assertions': 15, 'databases_with:clash_token_is_constant': 20, **{f'seed_runs:{s}': 300 for s in SEEDS}}}
FLOORS['thorough'] = dict(FLOORS['quick'], databases=4000, slices_verified=12000, roundtrips_checked=32000)

REPO = Path(os.environ.get('PI2_REPO', '/repo'))
VERIF = Path(__file__).resolve().parents[2]


# ------------------------------------------------------------------------------------------ worker
def _diff(a, b, path='db'):
    """first structural difference between two repo AST objects (description only)"""
    if type(a) is not type(b):
        return f'{path}: {type(a).__name__} vs {type(b).__name__}', type(a).__name__
    st = getattr(a, 'statements', None)
    if st is not None:
        bs = b.statements
        for i, (x, y) in enumerate(zip(st, bs)):
            if x != y:
                return _diff(x, y, f'{path}.statements[{i}]')
        if len(st) != len(bs):
            extra = (st[len(bs)] if len(st) > len(bs) else bs[len(st)])
            return f'{path}: {len(st)} vs {len(bs)} statements', type(extra).__name__
        return None
    if a != b:
        return f'{path}: {a!r:.200} vs {b!r:.200}', type(a).__name__
    return None


def worker(inp, outp):
    import traceback
    sys.setrecursionlimit(100000)
    from proof_generation.metamath import metamath_extract_slice as sl
    from proof_generation.metamath.ast import Block, Encoder, ProvableStatement
    from proof_generation.metamath.parser import parse_database

    def exc(e):
        tb = traceback.extract_tb(e.__traceback__)
        where = f'{os.path.basename(tb[-1].filename)}:{tb[-1].name}' if tb else '?'
        return {'error': type(e).__name__, 'where': where, 'message': str(e)[:300]}

    cases = json.loads(Path(inp).read_text())
    out = []
    for c in cases:
        r = {}
        text = Path(c['file']).read_text() if 'file' in c else c['text']
        try:
            db1 = parse_database(text)
        except BaseException as e:  # noqa: BLE001
            r['parse_error'] = exc(e)
            out.append(r)
            continue
        try:
            s1 = Encoder.encode_string(db1)
            r['printed'] = s1 if len(s1) < 200000 else None
            r['printed_sha'] = hashlib.sha1(s1.encode()).hexdigest()
            try:
                db2 = parse_database(s1)
                d = None if db2 == db1 else (_diff(db1, db2) or ('== is False but no structural difference found', '?'))
                r['roundtrip'] = d
                if d is None:
                    r['idempotent'] = Encoder.encode_string(db2) == s1
            except BaseException as e:  # noqa: BLE001
                r['reparse_error'] = exc(e)
        except BaseException as e:  # noqa: BLE001
            r['print_error'] = exc(e)
        # lemmas: every $p, top level or last statement of a top-level block
        labels = []
        for st in db1.statements:
            if isinstance(st, ProvableStatement):
                labels.append(st.label)
            elif isinstance(st, Block) and st.statements and isinstance(st.statements[-1], ProvableStatement):
                labels.append(st.statements[-1].label)
        r['lemmas'] = labels
        slices = []
        try:
            syntax_deps = sl.syntax_dependencies(db1)
            for label, sdb in sl.slice_database(db1, syntax_deps, include=set(labels), exclude=set()):
                ent = {'label': label}
                try:
                    ent['text'] = Encoder.encode_string(sdb)
                    try:
                        parse_database(ent['text'])
                    except BaseException as e:  # noqa: BLE001
                        ent['reparse_error'] = exc(e)
                except BaseException as e:  # noqa: BLE001
                    ent['print_error'] = exc(e)
                slices.append(ent)
        except BaseException as e:  # noqa: BLE001
            r['slicer_error'] = exc(e)
        r['slices'] = slices
        out.append(r)
    Path(outp).write_text(json.dumps(out, separators=(',', ':')))


def run_worker(cases, seed, scratch: Path, tag, timeout=1800):
    inp = scratch / f'in_{tag}.json'
    outp = scratch / f'out_{tag}_{seed}.json'
    if not inp.exists():
        inp.write_text(json.dumps([{k: c[k] for k in ('text', 'file') if k in c} for c in cases]))
    env = dict(os.environ)
    env['PYTHONHASHSEED'] = str(seed)
    env['PYTHONPATH'] = f'{VERIF}:{REPO}/generation/src'
    env['PYTHONDONTWRITEBYTECODE'] = '1'
    r = subprocess.run([sys.executable, '-m', 'pi2v.checks.c17', '--worker', str(inp), str(outp)], cwd=str(VERIF), env=env,
                       stdout=subprocess.PIPE, stderr=subprocess.STDOUT, timeout=timeout)
    if r.returncode != 0 or not outp.exists():
        raise RuntimeError(f'slice worker failed (seed {seed}): {r.stdout.decode("utf8", "replace")[-800:]}')
    res = json.loads(outp.read_text())
    outp.unlink()
    return res


# ------------------------------------------------------------------------------------------ oracle
def classify_mm_error(err: str) -> str:
    if 'is not a declared constant' in err or 'typecode' in err and 'not a declared' in err:
        return 'slice_missing_constant'
    if 'is not declared' in err:
        return 'slice_missing_constant_or_variable'
    if 'has no active $f' in err or 'is not an active variable' in err:
        return 'slice_missing_f_statement'
    if 'unknown label' in err:
        return 'slice_missing_referenced_statement'
    if '$d' in err:
        return 'slice_missing_disjoint_condition'
    if 'declared twice' in err or 'redeclared' in err:
        return 'slice_declares_twice'
    if 'mismatch' in err or 'instead of' in err or 'underflow' in err or 'entries on the stack' in err or 'out of range' in err:
        return 'slice_proof_does_not_verify'
    return 'slice_rejected_by_verifier'


class Original:
    def __init__(self, text):
        from ..oracles import mm
        self.db = mm.Database(text, verify=False, strict=False)
        self.f_pos = {lab: i for i, (lab, tc, v, d) in enumerate(self.db.f_order)}
        self.f_stmt = {lab: (tc, v) for lab, tc, v, d in self.db.f_order}
        # is there a top-level block none of whose *direct* statements carries a label ($f/$e/$a/$p)?
        self.block_without_direct_statement = False
        depth = 0
        direct = False
        for t in mm.tokenize(text):
            if t == '${':
                if depth == 0:
                    direct = False
                depth += 1
            elif t == '$}':
                depth -= 1
                if depth == 0 and not direct:
                    self.block_without_direct_statement = True
            elif depth == 1 and t in ('$f', '$e', '$a', '$p'):
                direct = True


def check_slice(orig: Original, label, text):
    """-> (mechanism, detail) or None"""
    from ..oracles import mm
    try:
        sdb = mm.Database(text, verify=True, strict=True, only={label})
    except mm.MMError as e:
        return classify_mm_error(str(e)), str(e)[:400]
    a = sdb.labels.get(label)
    o = orig.db.labels.get(label)
    if not isinstance(a, mm.Assertion) or a.kind != '$p':
        return 'slice_lemma_missing', f'{label} is not a $p statement of its slice'
    if sdb.results.get(label, 'unverified') is not None:
        return 'slice_proof_does_not_verify', f'{label}: {sdb.results.get(label, "not verified")}'
    if a.stmt != o.stmt:
        return 'slice_statement_differs', f'{" ".join(a.stmt)} vs original {" ".join(o.stmt)}'
    if a.proof != o.proof:
        return 'slice_proof_text_differs', f'{" ".join(a.proof)[:200]} vs original {" ".join(o.proof)[:200]}'
    if a.hyps != o.hyps:
        return 'slice_mandatory_hypotheses_differ', f'{[h[1] for h in a.hyps]} vs original {[h[1] for h in o.hyps]}'
    if a.dvs != o.dvs:
        return 'slice_disjoint_conditions_differ', f'{sorted(map(sorted, a.dvs))} vs original {sorted(map(sorted, o.dvs))}'
    last = -1
    for lab, tc, v, d in sdb.f_order:
        if lab not in orig.f_pos or orig.f_stmt[lab] != (tc, v):
            return 'slice_f_statement_not_in_original', f'{lab} $f {tc} {v}'
        if orig.f_pos[lab] < last:
            return 'slice_f_order_changed', f'{[x[0] for x in sdb.f_order]} vs original order {[x[0] for x in orig.db.f_order]}'
        last = orig.f_pos[lab]
    return None


def slicer_error_mechanism(orig: Original, e) -> str:
    """root-cause class of an exception raised by the real slicer, computed from the database"""
    from ..oracles import mm
    if e['error'] == 'KeyError':
        lab = e['message'].strip('"\'')
        a = orig.db.labels.get(lab)
        if isinstance(a, mm.Assertion) and a.depth >= 2:
            return 'slicer_forgets_assertion_in_inner_block'
        if a is not None:
            return 'slicer_forgets_referenced_statement'
    if e['error'] == 'IndexError' and e['where'].endswith('syntax_dependencies') and orig.block_without_direct_statement:
        return 'syntax_dependencies_fails_on_block_without_direct_labelled_statement'
    return f'slicer_raises:{e["error"]}:{e["where"]}'


# ------------------------------------------------------------------------------------------- shard
def shard(ctx):
    from ..gen import mmdb
    from ..oracles import mm
    from . import c15
    rng = ctx.rng
    if not c15.selfcheck(ctx):
        return
    # the verifier must notice what the property is about
    bad = '$c |- ( ) $. $v p $. ax $a |- ( p ) $.'
    if mm.verify_text(bad)[1] is None:
        ctx.inconclusive('O6(b) self-check: accepted a variable without $f')
        return
    scratch = ctx.mkscratch()
    seeds = SEEDS if ctx.quick else list(range(8)) + [100 + ctx.shard, 2 ** 31 + ctx.shard]

    cases = []
    total = ctx.scale(480, 6400)
    tries = 0
    while len(cases) < total and tries < total * 3:
        tries += 1
        g = mmdb.make_c17_case(rng)
        if g is None:
            continue
        text, feats = g['text'], list(g['features'])
        if rng.random() < 0.3:
            # one token is a variable in some databases and a constant in others (all are parsed by one process, one after the other)
            th = g['theory']
            u = rng.choice(('u0', 'u1', 'u2'))
            if rng.random() < 0.5:
                old, mode = rng.choice(list(th.f_order)), 'clash_token_is_variable'
            else:
                cs = [c for c in th.all_constants() if c.startswith('\\')]
                old, mode = (rng.choice(cs), 'clash_token_is_constant') if cs else (None, None)
            if old is not None:
                t2 = re.sub(r'(?<!\S)' + re.escape(old) + r'(?!\S)', u, text)
                db_, err_ = mm.verify_text(t2, strict=True)
                if err_ is None and not any(v is not None for v in db_.results.values()):
                    text = t2
                    feats.append(mode)
        cases.append({'text': text, 'features': feats, 'kind': 'generated', 'name': f'g{ctx.shard}.{len(cases)}'})
    for t in range(ctx.scale(64, 640)):
        g = mmdb.late_dv_case(rng)
        cases.append({'text': g['text'], 'features': g['features'], 'kind': 'generated', 'name': f't{ctx.shard}.{t}'})
    # a lemma proved from its own hypothesis alone (EMPTY label list), cited by a second lemma; and, once per shard, a database whose
    # $c statement and one axiom are very long lines (hundreds of tokens)
    for t in range(ctx.scale(48, 480)):
        a, b_ = rng.sample(['ph0', 'ph1', 'ph2'], 2)
        text = ('$c #Pattern |- ( ) \\imp $.\n$v ph0 ph1 ph2 $.\n' + ''.join(f'{v}-is-pattern $f #Pattern {v} $.\n' for v in rng.sample(['ph0', 'ph1', 'ph2'], 3)) +
                'imp-is-pattern $a #Pattern ( \\imp ph0 ph1 ) $.\n' +
                f'${{ idi.1 $e |- {a} $. idi $p |- {a} $= ( ) B $. $}}\n' +
                f'${{ use.1 $e |- ( \\imp {b_} {b_} ) $. use $p |- ( \\imp {b_} {b_} ) $= ( imp-is-pattern idi ) AACBD $. $}}\n')
        db_, err_ = mm.verify_text(text, strict=True)
        if err_ is None and not any(v is not None for v in db_.results.values()):
            cases.append({'text': text, 'features': ['empty_label_list'], 'kind': 'generated', 'name': f'e{ctx.shard}.{t}'})
            ctx.count('databases_with:empty_label_list')
    if True:
        nconst = rng.randint(600, 900)
        consts = [f'\\k{i}' for i in range(nconst)]
        chain = consts[0]
        for cst in consts[1:rng.randint(30, 60)]:
            chain = f'( \\imp {cst} {chain} )'
        text = ('$c #Pattern |- ( ) \\imp ' + ' '.join(consts) + ' $.\n$v ph0 ph1 $.\nph0-is-pattern $f #Pattern ph0 $.\nph1-is-pattern $f #Pattern ph1 $.\n'
                'imp-is-pattern $a #Pattern ( \\imp ph0 ph1 ) $.\n' + f'big-axiom $a |- {chain} $.\n' +
                'ax-id $a |- ( \\imp ph0 ph0 ) $.\nlem $p |- ( \\imp ph1 ph1 ) $= ( ax-id ) AB $.\n' +
                f'lem2 $p |- {chain} $= ( big-axiom ) A $.\n')
        db_, err_ = mm.verify_text(text, strict=True)
        if err_ is None and not any(v is not None for v in db_.results.values()):
            cases.append({'text': text, 'features': ['very_long_lines'], 'kind': 'generated', 'name': f'long{ctx.shard}'})
            ctx.count('databases_with:very_long_lines')
        else:
            ctx.note('long_line_template_rejected', str(err_)[:200])
    # parseable but unusual texts (print / re-parse only; nothing here is a valid proof, so nothing is sliced or verified)
    for t in range(ctx.scale(96, 960)):
        nm = rng.sample(['ph0', 'ph1', 'x', 'th', 'A'], 3)
        proof = rng.choice(['', '', '?', 'ax-a', '( ax-a ) A', '( ) A', 'ax-a ax-a', '( ax-a ax-b ) ABZA'])
        dv = rng.choice(['', f'$d {nm[0]} {nm[1]} $.', f'$d {nm[0]} {nm[1]} {nm[2]} $.'])
        hyp = rng.choice(['', f'lem.1 $e |- ( \\imp {nm[0]} {nm[1]} ) $.'])
        body = f'lem $p |- ( \\imp {nm[0]} {nm[0]} ) $= {proof} $.'
        wrapped = ('${ ' + dv + ' ' + hyp + ' ' + body + ' $}') if (dv or hyp or rng.random() < 0.3) else body
        text = ('$c #Pattern |- ( ) \\imp $.\n$v ' + ' '.join(nm) + ' $.\n' + ''.join(f'{v}-is-pattern $f #Pattern {v} $.\n' for v in nm) +
                f'imp-is-pattern $a #Pattern ( \\imp {nm[0]} {nm[1]} ) $.\nax-a $a |- ( \\imp {nm[0]} {nm[0]} ) $.\nax-b $a |- ( \\imp {nm[1]} ( \\imp {nm[0]} {nm[1]} ) ) $.\n' +
                rng.choice(['', '', '', '', '', '', '', '', f'odd $a |- ( {nm[2]} ) $.\n', 'odd2 $a |- ( \\imp ( ' + nm[0] + ' ) ' + nm[1] + ' ) $.\n']) +
                wrapped + '\n' + rng.choice(['', 'stub $p |- ( \\imp ' + nm[2] + ' ' + nm[2] + ' ) $= $.\n', 'open $p |- ' + nm[1] + ' $= ? $.\n']))
        cases.append({'text': text, 'features': ['unusual_but_parseable', 'empty_proof' if ('$= $.' in text or '$=  $.' in text) else 'other'], 'kind': 'roundtrip_only', 'name': f'u{ctx.shard}.{t}'})
    # shipped databases: spread over the shards
    bench = [f for f in sorted((REPO / 'generation' / 'mm-benchmarks').glob('*.mm')) if f.read_text().strip()]
    for i, f in enumerate(bench):
        if i % ctx.nshards == ctx.shard:
            cases.append({'text': f.read_text(), 'features': [], 'kind': 'shipped', 'name': f.name})
    per_seed_extra = {}
    tgz = REPO / 'generation' / 'mm-benchmarks' / 'raw-mm-proofs' / 'proof-single-rewrite.tar.gz'
    big = None
    if ctx.shard < len(seeds) and tgz.exists() and tgz.stat().st_size > 0:
        try:
            with tarfile.open(tgz) as tf:
                m = [x for x in tf.getmembers() if x.name.endswith('.mm') and not os.path.basename(x.name).startswith('._')][0]
                data = tf.extractfile(m).read().decode('utf8', 'replace')
            p = scratch / 'proof-single-rewrite.mm'
            p.write_text(data)
            big = {'file': str(p), 'text_for_oracle': data, 'features': [], 'kind': 'shipped', 'name': 'raw-mm-proofs/proof-single-rewrite.mm'}
        except Exception as e:  # noqa: BLE001
            ctx.note('raw_database_skipped', repr(e)[:200])

    originals = [Original(c['text']) for c in cases]
    for c, o in zip(cases, originals):
        ctx.count('databases' if c['kind'] == 'generated' else 'shipped_databases')
        if c['kind'] == 'generated':
            f = c['features']
            if 'nested_blocks' in f or 'twin_blocks' in f:
                ctx.count('databases_with_nested_blocks')
            if 'dv' in f or 'global_dv' in f or 'lemma_with_dv' in f:
                ctx.count('databases_with_dv')
            if 'rule_with_hyps' in f or 'lemma_with_hyps' in f:
                ctx.count('databases_with_e')
            for x in ('twin_blocks', 'flat_block_with_two_assertions', 'two_global_dv_around_an_axiom', 'global_dv', 'late_f', 'uses_twin_first', 'uses_twin_second', 'uses_nested_rule', 'uses_dv_axiom',
                      'clash_token_is_variable', 'clash_token_is_constant'):
                if x in f:
                    ctx.count('databases_with:' + x)
    seen_slices = {}
    nsample = 0
    results = {s: run_worker(cases, s, scratch, 'db') for s in seeds}
    for s in seeds:
        ctx.count(f'seed_runs:{s}', sum(1 for c in cases if c['kind'] == 'generated'))
    all_runs = [(cases, originals, results)]
    if big is not None:
        s = seeds[ctx.shard]
        r = run_worker([big], s, scratch, 'big', timeout=3000)
        big['text'] = big.pop('text_for_oracle')
        all_runs.append(([big], [Original(big['text'])], {s: r}))
        ctx.count('shipped_databases')
    for cs, origs, res in all_runs:
        for i, (c, o) in enumerate(zip(cs, origs)):
            for s, rr in sorted(res.items()):
                r = rr[i]
                base_w = {'database': c['text'] if len(c['text']) < 30000 else c['text'][:30000] + '...(truncated)', 'name': c['name'],
                          'hash_seed': s, 'features': c['features']}
                ctx.case((c['name'], s, 'roundtrip'), '${' in c['text'])
                if 'parse_error' in r:
                    if c['kind'] == 'generated':
                        ctx.violation(f'parser_rejects_valid_database:{r["parse_error"]["error"]}', f'{c["name"]}: {r["parse_error"]}', base_w)
                    else:
                        ctx.count('shipped_not_parsed')
                    continue
                ctx.count('roundtrips_checked')
                if 'print_error' in r:
                    ctx.violation(f'printer_raises:{r["print_error"]["error"]}:{r["print_error"]["where"]}', str(r['print_error']), base_w)
                elif 'reparse_error' in r:
                    ctx.violation(f'printed_database_does_not_parse:{r["reparse_error"]["error"]}', str(r['reparse_error']), dict(base_w, printed=r.get('printed')))
                elif r.get('roundtrip') is not None:
                    d, typ = r['roundtrip']
                    ctx.violation(f'reparsed_database_differs:{typ}', f'{c["name"]}: parse(print(db)) != db at {d}', dict(base_w, printed=r.get('printed'), difference=d))
                else:
                    ctx.count('roundtrips_equal')
                    if r.get('idempotent'):
                        ctx.count('print_idempotent')
                    if r.get('printed') is not None:
                        try:
                            if mm.tokenize(r['printed']) == mm.tokenize(c['text']):
                                ctx.count('printed_token_identical')
                        except mm.MMError:
                            pass
                if c['kind'] == 'roundtrip_only':
                    ctx.count('roundtrip_only_databases_checked')
                    continue
                # slices
                if 'slicer_error' in r:
                    e = r['slicer_error']
                    done = [x['label'] for x in r['slices']]
                    ctx.violation(slicer_error_mechanism(o, e), f'{c["name"]}: slice_database raised {e} after slices {done} of lemmas {r["lemmas"]}',
                                  dict(base_w, lemmas=r['lemmas'], slices_produced=done, error=e))
                got = {x['label'] for x in r['slices']}
                if 'slicer_error' not in r and got != set(r['lemmas']):
                    ctx.violation('slice_missing_for_lemma', f'{c["name"]}: lemmas {r["lemmas"]} slices {sorted(got)}', dict(base_w, lemmas=r['lemmas']))
                for x in r['slices']:
                    if 'print_error' in x or 'reparse_error' in x:
                        e = x.get('print_error') or x.get('reparse_error')
                        ctx.violation(f'slice_does_not_reparse:{e["error"]}', f'{c["name"]} lemma {x["label"]}: {e}', dict(base_w, lemma=x['label'], slice=x.get('text')))
                        continue
                    key = (c['name'], x['label'], hashlib.sha1(x['text'].encode()).hexdigest())
                    if key in seen_slices:
                        ctx.count('slice_texts_repeated_under_other_seed')
                        continue
                    seen_slices[key] = True
                    ctx.case(key, True)
                    v = check_slice(o, x['label'], x['text'])
                    if v is None:
                        ctx.count('slices_verified' if c['kind'] == 'generated' else 'shipped_slices_verified')
                        a = o.db.labels[x['label']]
                        if c['kind'] == 'generated':
                            if any(h[0] == '$e' for h in a.hyps):
                                ctx.count('slices_with_hyps')
                            if a.dvs or '$d' in x['text']:
                                ctx.count('slices_with_dv')
                            close = a.proof.index(')') if a.proof and a.proof[0] == '(' else 0
                            if any(isinstance(o.db.labels.get(l), mm.Assertion) and o.db.labels[l].kind == '$p' for l in a.proof[1:close]):
                                ctx.count('slices_using_earlier_lemma')
                        if nsample < 2 and c['kind'] == 'generated' and len(x['text']) < 3000 and any(h[0] == '$e' for h in a.hyps):
                            nsample += 1
                            ctx.sample({'database': c['name'], 'lemma': x['label'], 'hash_seed': s, 'slice': x['text'], 'verdict': 'strictly verified, statement/proof/$f order as in the original'})
                    else:
                        mech, detail = v
                        ctx.violation(mech, f'{c["name"]} lemma {x["label"]} (seed {s}): {detail}', dict(base_w, lemma=x['label'], slice=x['text'], verifier=detail))


def replay(w):
    """Re-run the real printer/slicer on the recorded database under the recorded hash seed."""
    wit = w['witness']
    if wit['database'].endswith('(truncated)'):
        print('witness database was truncated (shipped file', wit['name'], '); cannot replay from the witness alone')
        return True
    scratch = VERIF / '.build' / 'scratch' / f'replay{os.getpid()}'
    scratch.mkdir(parents=True, exist_ok=True)
    try:
        r = run_worker([{'text': wit['database']}], wit['hash_seed'], scratch, 'r')[0]
        o = Original(wit['database'])
        mechs = []
        if 'reparse_error' in r:
            mechs.append(f'printed_database_does_not_parse:{r["reparse_error"]["error"]}')
        if r.get('roundtrip') is not None:
            mechs.append(f'reparsed_database_differs:{r["roundtrip"][1]}')
        if 'slicer_error' in r:
            mechs.append(slicer_error_mechanism(o, r['slicer_error']))
            print('slicer raised', r['slicer_error'])
        for x in r.get('slices', []):
            if 'text' in x and 'reparse_error' not in x:
                v = check_slice(o, x['label'], x['text'])
                if v:
                    mechs.append(v[0])
                    print(x['label'], v)
        print('mechanisms now:', mechs)
        return w['mechanism'] in mechs
    finally:
        import shutil
        shutil.rmtree(scratch, ignore_errors=True)


if __name__ == '__main__':
    if len(sys.argv) == 4 and sys.argv[1] == '--worker':
        worker(sys.argv[2], sys.argv[3])

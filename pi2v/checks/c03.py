"""C03 - the published theory and claims are exactly what the module declares."""
from __future__ import annotations

from .. import repo
from ..gen import repo_patterns as rp
from ..oracles import refmachine as rm
from ..oracles import tb
from . import modules_workload as mw

READY = True
LEVEL = 'exploration'
TECHNIQUE = 'offline checker over the publish journal: the emitted gamma/claim/proof files are executed by the reference machine and its publish journal is compared, in order and under one symbol bijection, with the declaration read off the ProofExp object'
LEVEL_TEXT = ('For shipped and generated modules (arbitrary axioms and claims with notation, import graphs incl. diamonds, symbol sets of 1..257 names, '
              'duplicate axioms) and both optimise settings, the axioms and claims the serialised files publish must be exactly the declared ones in declared '
              'order, the name/number relation must be a bijection across the three files, both optimise settings must publish the same journal, and a module '
              'needing an id above 255 must be refused rather than encoded.')
LEVEL_NOTE = 'Trusted: the reference machine decodes the public files (A1-A4); O1 expansion of the declared patterns; declared axiom order = imported modules depth-first in import order, then own axioms.'
DESIGN_REF = 'DESIGN.md section 5 C03'
NSHARDS = 16
TIMEOUT = {'quick': 1500, 'thorough': 3 * 3600}
RULE = ('A case is (module, optimize); the decoded journal is compared element-wise with the declaration. Size-edge modules use symbol sets of exactly 255, 256 and '
        '257 names, element/set/meta-variable ids 255 and 256, and more than 256 memory slots. distinct_nontrivial = distinct (gamma, claim) byte pairs with at least one '
        'axiom or two claims.')
ASSUMPTIONS = ['a shared submodule reached through two import edges is declared twice (its axioms are expected once per edge)']
FLOORS = {'quick': {'cases': 1500, 'journals_compared': 1400, 'modules_with_10_symbols': 30, 'oversize_refused': 4, 'oversize_refused_by_main': 4, 'main_entry_point_runs': 12, 'exactly_256_ids_ok': 2, 'optimize_pairs_compared': 700,
                    'modules_with_imports': 200, 'declaration_from_generator_record': 1000, 'modules_with_axiomless_middle_import': 50, 'modules_with_duplicate_axiom_attempt': 50, 'modules_with_bulk_declaration_repeat_first': 40}}
FLOORS['thorough'] = dict(FLOORS['quick'], cases=30000, journals_compared=29000)


def _declare(b, a):
    """one more axiom for the top module, also entered in the generator's own record of declarations"""
    b.mod.add_axiom(a)
    lst = getattr(b, 'own', {}).get(id(b.mod))
    if lst is not None and not any(a == x for x in lst):
        lst.append(a)


def declared_axioms(mod):
    out = []
    for s in mod._submodules:
        out.extend(declared_axioms(s))
    out.extend(mod.get_axioms())
    return out


def compare_journal(ctx, b, g, c, p, opt, tagline):
    """returns the journal key (for optimise-pair comparison) or None"""
    o2 = rm.run_triple(g, c, p)
    m = o2[1] if o2[0] == 'ACCEPT' else o2[4]
    w = {'module': b.desc[:12], 'optimize': opt, 'gamma': g.hex()[:4000], 'claim': c.hex()[:4000]}
    if o2[0] != 'ACCEPT' and m.phase < rm.PROOF:
        ctx.violation('public_files_do_not_execute', f'the reference machine rejects the public files ({o2[1]})', dict(w, reject=o2[1:3]))
        return None
    fwd, bwd = {}, {}
    own = b.declared_axioms() if hasattr(b, 'declared_axioms') else None
    if own is not None:
        ctx.count('declaration_from_generator_record')
    exp_ax = [tb.norm_py(tb.of_repo(a)) for a in (own if own is not None else declared_axioms(b.mod))]
    got_ax = [tb.norm_py(a) for a in m.journal['axioms']]
    exp_cl = [tb.norm_py(tb.of_repo(a)) for a in b.mod.get_claims()]
    got_cl = [tb.norm_py(a) for a in reversed(m.journal['claims'])]
    ctx.count('journals_compared')
    if len(exp_ax) != len(got_ax):
        ctx.violation('axiom_count_differs:' + ('extra' if len(got_ax) > len(exp_ax) else 'dropped'),
                      f'{len(got_ax)} axioms published, {len(exp_ax)} declared', dict(w, declared=[tb.pretty(a) for a in exp_ax], published=[tb.pretty(a) for a in got_ax]))
        return None
    for i, (a, x) in enumerate(zip(exp_ax, got_ax)):
        if not tb.match_symbols(a, x, fwd, bwd):
            ctx.violation('published_axiom_differs', f'published axiom {i} is not the declared one (or the symbol numbering is not a bijection)',
                          dict(w, index=i, declared=tb.pretty(a), published=tb.pretty(x), symbols=str(fwd)))
            return None
    if len(exp_cl) != len(got_cl):
        ctx.violation('claim_count_differs', f'{len(got_cl)} claims published, {len(exp_cl)} declared', w)
        return None
    for i, (a, x) in enumerate(zip(exp_cl, got_cl)):
        if not tb.match_symbols(a, x, fwd, bwd):
            ctx.violation('published_claim_differs', f'published claim {i} is not the declared one, in declared order (or symbol numbering not a bijection across files)',
                          dict(w, index=i, declared=tb.pretty(a), published=tb.pretty(x), symbols=str(fwd)))
            return None
    if o2[0] == 'ACCEPT':
        # third file: every discharged theorem equals a declared claim under the same bijection (O2 checked equality with the claim file)
        ctx.count('proof_file_consistent')
    # journal with numbers mapped back to names through this triple's bijection (numbering itself may depend on emission order)
    named = lambda t: tb.show(tb.rename_symbols(t, lambda i: bwd.get(i, f'#{i}')))
    return (tuple(named(a) for a in got_ax), tuple(named(a) for a in got_cl))


def edge_module(rng, kind):
    """modules at the encoding limits"""
    PR = repo.mod('proof')
    P = repo.P()
    Prop = repo.mod('proofs.propositional').Propositional
    mod = PR.ProofExp()
    prop = mod.import_module(Prop())
    if kind.startswith('symbols'):
        n = int(kind[7:])
        names = [f's{i}' for i in range(n)]
        rng.shuffle(names)
        # spread the symbols over axioms, a claim and its proof
        chunk = [names[i:i + 40] for i in range(0, n - 2, 40)]
        for ch in chunk:
            t = P.Symbol(ch[0])
            for s in ch[1:]:
                t = P.App(t, P.Symbol(s))
            mod.add_axiom(t)
        # the claim mentions the two newest symbols and, again, one of the very first ones (a symbol keeps its number however long ago it was seen)
        a, b_ = P.Symbol(names[-1]), P.App(P.Symbol(names[-2]), P.Symbol(chunk[0][rng.randrange(3)] if chunk and len(chunk[0]) >= 3 else names[-2]))
        th = prop.prop1_inst(a, b_)
        mod.add_claim(th.conc); mod.add_proof_expression(th)
        return mw.Built(mod, {'edge'}, [kind]), n > 256
    if kind.startswith('evar'):
        v = int(kind[4:])
        mod.add_axiom(P.Exists(v, P.EVar(v)))
        th = prop.imp_refl(P.EVar(v))
        mod.add_claim(th.conc); mod.add_proof_expression(th)
        return mw.Built(mod, {'edge'}, [kind]), v > 255
    if kind.startswith('svar'):
        v = int(kind[4:])
        mod.add_axiom(P.Mu(v, P.SVar(v)))
        return mw.Built(mod, {'edge'}, [kind]), v > 255
    if kind.startswith('metavar'):
        v = int(kind[7:])
        th = prop.imp_refl(P.MetaVar(v))
        mod.add_claim(th.conc); mod.add_proof_expression(th)
        return mw.Built(mod, {'edge'}, [kind]), v > 255
    if kind.startswith('axioms'):
        # more axioms than memory slots: each axiom occupies one slot; loading the last needs its index
        n = int(kind[6:])
        for i in range(n):
            mod.add_axiom(P.App(P.Symbol('f'), P.EVar(i % 200)) if i < 200 else P.App(P.App(P.Symbol('g'), P.EVar(i % 200)), P.EVar(i // 200)))
        last = mod.get_axioms()[-1]
        th = mod.load_axiom(last)
        mod.add_claim(last); mod.add_proof_expression(th)
        return mw.Built(mod, {'edge'}, [kind]), n > 256
    raise ValueError(kind)


def shard(ctx):
    rng = ctx.rng
    sc = ctx.mkscratch()
    P = repo.P()
    todo = []
    if ctx.shard == 0:
        for name, f in mw.shipped_modules():
            todo.append(('shipped', name, f))
    n = ctx.scale(1600, 48000) // 2
    for i in range(n):
        todo.append(('gen', f'gen{i}', None))
    for kind, name, f in todo:
        try:
            if f:
                b = mw.Built(f(), {'shipped'}, [name])
            else:
                big = rng.random() < 0.25
                syms = tuple(f'k{i}' for i in range(rng.randint(10, 30))) if big else mw.SYMS
                b = mw.random_module(rng, syms=syms)
                if big:
                    t = P.Symbol(syms[0])
                    for sname in rng.sample(syms, min(len(syms), rng.randint(10, 20))):
                        t = P.App(t, P.Symbol(sname))
                    _declare(b, t)
                if rng.random() < 0.3 and b.mod.get_axioms():
                    # declaring an axiom twice must not publish it twice, nor drop the first
                    _declare(b, b.mod.get_axioms()[0])
                    ctx.count('modules_with_duplicate_axiom_attempt')
        except Exception as ex:
            ctx.violation('module_construction_raises:' + type(ex).__name__, 'building a module raised', {'error': repr(ex)[:300]})
            continue
        keys = {}
        for opt in (False, True):
            ctx.count('cases')
            try:
                g, c, p = mw.serialize(b.mod, sc, 'm', opt)
            except AssertionError as ex:
                ctx.count('toolkit_refused')
                continue
            except Exception as ex:
                ctx.violation('serialize_raises:' + type(ex).__name__, 'ProofExp.serialize raised', {'module': b.desc[:10], 'error': repr(ex)[:300]})
                continue
            nsym = len({i[1] for f_ in (g, c) for i in _dec(f_) if i[0] == 'Symbol'})
            if nsym >= 10:
                ctx.count('modules_with_10_symbols')
            if 'imports' in b.tags:
                ctx.count('modules_with_imports')
            if 'bulk_declaration_with_repeat_first' in b.tags:
                ctx.count('modules_with_bulk_declaration_repeat_first')
            if 'import_chain_through_axiomless_module' in b.tags:
                ctx.count('modules_with_axiomless_middle_import')
            ctx.case(g + b'|' + c, nontrivial=(g != b'' or c.count(b'\x1e') >= 2))
            keys[opt] = compare_journal(ctx, b, g, c, p, opt, name)
            if rng.random() < 0.004:
                ctx.sample({'module': b.desc[:5], 'optimize': opt, 'gamma': g.hex()[:100], 'claim': c.hex()[:100]})
        if len(keys) == 2 and None not in keys.values():
            ctx.count('optimize_pairs_compared')
            if keys[False] != keys[True]:
                ctx.violation('optimize_changes_published_journal', 'the axioms/claims published with optimize=True differ from optimize=False', {'module': b.desc[:10]})
    # ---- encoding limits
    kinds = ['symbols255', 'symbols256', 'symbols257', 'symbols300', 'evar255', 'evar256', 'svar255', 'svar256', 'metavar255', 'metavar256', 'axioms250', 'axioms300']
    for i, kind in enumerate(kinds):
        if i % ctx.nshards != ctx.shard % len(kinds) and ctx.nshards >= len(kinds):
            continue
        b, must_refuse = edge_module(rng, kind)
        for opt in (False, True):
            ctx.count('cases')
            try:
                g, c, p = mw.serialize(b.mod, sc, 'e', opt)
            except (ValueError, OverflowError, AssertionError) as ex:
                if must_refuse:
                    ctx.count('oversize_refused')
                else:
                    ctx.violation('encodable_module_refused:' + kind.rstrip('0123456789'), f'a module within the encoding limits ({kind}) was refused', {'kind': kind, 'optimize': opt, 'error': repr(ex)[:200]})
                continue
            except Exception as ex:
                ctx.violation('serialize_raises:' + type(ex).__name__, 'ProofExp.serialize raised', {'kind': kind, 'error': repr(ex)[:300]})
                continue
            if must_refuse:
                # not refused: then it must at least decode to what was declared (it cannot) -> silent ambiguous encoding
                key = compare_journal(ctx, b, g, c, p, opt, kind)
                ctx.violation('oversize_module_not_refused:' + kind.rstrip('0123456789'), f'a module needing an id above 255 ({kind}) was serialised without an error',
                              {'kind': kind, 'optimize': opt, 'decodes_to_declaration': key is not None})
            else:
                ctx.count('exactly_256_ids_ok' if kind.endswith(('255', '256')) else 'edge_ok')
                compare_journal(ctx, b, g, c, p, opt, kind)
        # the same module through the command-line entry point every `python -m proof_generation.proofs.X` uses (ProofExp.main):
        # an un-encodable module must make it fail (exception or non-zero SystemExit), an encodable one must leave the same files
        import contextlib
        import io as _io
        for opt in (False, True):
            b2, _ = edge_module(rng, kind)
            out_dir = sc / f'main_{kind}_{int(opt)}'
            if out_dir.exists():
                import shutil
                shutil.rmtree(out_dir)
            argv = ['module', 'binary', str(out_dir), 'm'] + (['--optimize'] if opt else [])
            ctx.count('main_entry_point_runs')
            failed = None
            try:
                with contextlib.redirect_stdout(_io.StringIO()), contextlib.redirect_stderr(_io.StringIO()):
                    b2.mod.main(argv)
            except SystemExit as ex:
                failed = None if ex.code in (0, None) else f'SystemExit({ex.code})'
            except BaseException as ex:  # noqa: BLE001 - any failure is a refusal here
                failed = type(ex).__name__
            import gc
            gc.collect()
            if must_refuse and failed is None:
                left = sorted(f.name for f in out_dir.iterdir()) if out_dir.exists() else []
                ctx.violation('oversize_module_not_refused_by_main:' + kind.rstrip('0123456789'),
                              f'ProofExp.main returned normally for a module needing an id above 255 ({kind})', {'kind': kind, 'optimize': opt, 'files_left': left})
            elif not must_refuse and failed is not None:
                ctx.violation('encodable_module_refused_by_main:' + kind.rstrip('0123456789'), f'ProofExp.main failed ({failed}) for a module within the limits ({kind})',
                              {'kind': kind, 'optimize': opt})
            elif must_refuse:
                ctx.count('oversize_refused_by_main')


def _dec(b):
    try:
        return rm.decode(b)
    except rm.Reject:
        return []

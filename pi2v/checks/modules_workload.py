"""G3/G4 - proof expressions and proof modules (ProofExp) built from the DSL and the lemma libraries;
shared by C02, C03, C04, C08, C14, C18, C19."""
from __future__ import annotations

import random
from pathlib import Path

from .. import repo
from ..gen import repo_patterns as rp
from ..oracles import tb

SYMS = ('a', 'b', 'c', 'f', 'g')


def E(x):
    return tb.norm_py(tb.of_repo(x))


def shipped_modules():
    """[(name, factory)] - factories so that every use gets a fresh object"""
    out = [
        ('Propositional', lambda: repo.mod('proofs.propositional').Propositional()),
        ('SmallTheory', lambda: repo.mod('proofs.small_theory').SmallTheory()),
        ('Substitution', lambda: repo.mod('proofs.substitution').Substitution()),
        ('Definedness', lambda: repo.mod('proofs.definedness').Definedness()),
        ('KoreLemmas', lambda: repo.mod('proofs.kore').KoreLemmas()),
        ('Tautology', lambda: repo.mod('tautology').Tautology()),
    ]
    return out


class Built:
    def __init__(self, mod, tags, desc, pool=None, imports=None):
        self.mod = mod
        self.tags = tags
        self.desc = desc
        self.pool = pool or []   # every (thunk, description) built, not only the claimed ones
        # the generator's OWN record of who imported whom, in order (id(module) -> [imported modules]); None for modules it did not assemble
        self.imports = imports
        self.own = {}            # id(module) -> the patterns the generator declared as that module's axioms, in order, repeats dropped

    def declared_axioms(self):
        """axioms the module declares, imported modules first (in import order, recursively), by the generator's own record of the
        import calls - not by the toolkit's bookkeeping of them"""
        if self.imports is None:
            return None

        def walk(m):
            out = []
            for c in self.imports.get(id(m), []):
                out.extend(walk(c))
            out.extend(self.own[id(m)] if id(m) in self.own else m.get_axioms())
            return out
        return walk(self.mod)


def arg_pattern(rng, depth=1, meta=0.4, notation=0.3, syms=SYMS):
    # a few arguments are metavariables that declare variables fresh (plugging them into a schema with a pending substitution on that
    # variable is where generator and checker have to agree on dropping the substitution)
    e = rp.rand_term(rng, rng.randint(0, depth), meta=rng.random() < meta, notation=notation, substs=rng.random() < 0.25, syms=syms,
                     constrained=0.25 if rng.random() < 0.3 else 0.0, evs=(0, 1, 2), svs=(0, 1), mvs=(0, 1, 2))
    if rng.random() < 0.1:
        e = _with_holes(e, rng)
    # mu must be positive for the machine; the toolkit does not check -> keep generated arguments well-formed
    if not _wf(e):
        return rp.fold(tb.sy(rng.choice(syms)), rng, 0.0), tb.sy('a') if False else None
    p = rp.fold(e, rng, rng.choice((0.0, 0.5, 0.9)))
    if rng.random() < 0.05 and tb.size(e) <= 12:
        # a notation application that leaves one parameter open (a partial node: the open parameter is a metavariable of the pattern)
        from frozendict import frozendict
        P = repo.P()
        cands = [nt for nt, _fam in repo.notations().values() if nt.arity == 2 and nt.definition.metavars() == {0, 1}
                 and not any(m[2] or m[3] or m[4] or m[5] for ms in tb.metavars(tb.of_repo(nt.definition)).values() for m in ms)]
        nt = rng.choice(cands)
        node = P.Instantiate(nt.definition, frozendict({rng.choice((0, 1)): p}))
        e2 = tb.of_repo(node)
        if _wf(e2):
            return node, e2
    return p, e


def _with_holes(e, rng, table=None):
    """the same term with application-context holes on its metavariables (one choice per number; never a variable the metavariable
    declares fresh - the machine refuses to build those).  No implementation interprets the holes (A11); they are part of the node's identity."""
    table = {} if table is None else table
    k = e[0]
    if k == 'mv':
        if e[1] not in table:
            table[e[1]] = tuple(sorted(v for v in (0, 1, 3, 4) if v not in e[2] and rng.random() < 0.4))
        holes = tuple(v for v in table[e[1]] if v not in e[2])
        return e[:6] + (holes,)
    if k in ('ev', 'sv', 'sy'):
        return e
    if k in ('im', 'ap'):
        return (k, _with_holes(e[1], rng, table), _with_holes(e[2], rng, table))
    if k in ('ex', 'mu'):
        return (k, e[1], _with_holes(e[2], rng, table))
    return (k, _with_holes(e[1], rng, table), e[2], _with_holes(e[3], rng, table))


def _wf(e):
    k = e[0]
    if k in ('ev', 'sv', 'sy', 'mv'):
        return True
    if k in ('im', 'ap'):
        return _wf(e[1]) and _wf(e[2])
    if k == 'ex':
        return _wf(e[2])
    if k == 'mu':
        return _wf(e[2]) and tb.d_positive(e[2], e[1])
    # deferred substitution: on a meta base, not redundant (the machine refuses those), plug without binders (no capture business here)
    if e[1][0] not in ('mv', 'es', 'ss'):
        return False
    if k == 'es' and (e[3] == tb.ev(e[2]) or tb.d_e_fresh(e[1], e[2])):
        return False
    if k == 'ss' and (e[3] == tb.sv(e[2]) or tb.d_s_fresh(e[1], e[2])):
        return False
    if '(ex ' in tb.show(e[3]) or '(mu ' in tb.show(e[3]):
        return False
    return _wf(e[1]) and _wf(e[3])


def pat(rng, depth=1, meta=0.4, notation=0.3, syms=SYMS):
    for _ in range(20):
        p, e = arg_pattern(rng, depth, meta, notation, syms)
        if e is not None and tb.size(e) <= 40:
            return p
    return repo.P().Symbol(rng.choice(syms))


def admissible_inst(conc, delta) -> bool:
    """would the documented machine accept instantiating `conc` with `delta` (constraints respected, no capture)?  The toolkit cannot
    judge this itself (known findings under C04/C07), so generated modules stay on the admissible side."""
    try:
        r = tb.inst(tb.of_repo(conc), {k: tb.of_repo(v) for k, v in delta.items()}, 'strict', check='doc')
        # a pending substitution whose plug became the substituted variable itself (phi[x/x]) is one the machine refuses to build
        # and the toolkit has no judgement for either
        return not _redundant_subst(r)
    except tb.Capture as ex:
        # capture under an existential binder: the toolkit has to refuse it itself (then nothing is serialised); under a mu
        # binder it cannot (known finding), so those stay out
        return str(ex).startswith('evar')
    except tb.Undefined:
        return False


def _redundant_subst(e) -> bool:
    k = e[0]
    if k in ('ev', 'sv', 'sy', 'mv'):
        return False
    if k in ('im', 'ap'):
        return _redundant_subst(e[1]) or _redundant_subst(e[2])
    if k in ('ex', 'mu'):
        return _redundant_subst(e[2])
    if (k == 'es' and (e[3] == tb.ev(e[2]) or tb.d_e_fresh(e[1], e[2]))) or (k == 'ss' and (e[3] == tb.sv(e[2]) or tb.d_s_fresh(e[1], e[2]))):
        return True      # the document's notion: the plug is the variable itself, or the variable is fresh in what is substituted into
    return _redundant_subst(e[1]) or _redundant_subst(e[3])


def random_module(rng: random.Random, max_claims=6, with_imports=True, syms=SYMS, pool_rounds=None, static_instantiate=0.04) -> Built:
    PR = repo.mod('proof')
    P = repo.P()
    Prop = repo.mod('proofs.propositional').Propositional
    tags = set()
    mod = PR.ProofExp()
    prop = mod.import_module(Prop())
    imports = {id(mod): [prop]}      # own record of the import calls
    desc = []
    # import graph: optional extra submodules with axioms sharing symbols (incl. a diamond)
    subs = []
    if with_imports and rng.random() < 0.5:
        shared = PR.ProofExp(axioms=[pat(rng, 1, 0.0, 0.2, syms)])
        a = PR.ProofExp(axioms=[pat(rng, 1, 0.0, 0.2, syms)])
        a.import_module(shared)
        imports[id(a)] = [shared]
        subs.append(a)
        if rng.random() < 0.5:
            b = PR.ProofExp(axioms=[pat(rng, 1, 0.2, 0.2, syms)])
            b.import_module(shared)      # diamond: `shared` is reachable twice
            imports[id(b)] = [shared]
            subs.append(b)
            tags.add('import_diamond')
        if rng.random() < 0.4:
            # a chain of depth two through a module that has no axioms of its own
            leaf = PR.ProofExp(axioms=[pat(rng, 1, 0.0, 0.2, syms)])
            middle = PR.ProofExp()
            middle.import_module(leaf)
            imports[id(middle)] = [leaf]
            subs.append(middle)
            tags.add('import_chain_through_axiomless_module')
        for s in subs:
            mod.import_module(s)
            imports[id(mod)].append(s)
        if subs and rng.random() < 0.25:
            # the same module object asked for a second time by the same importer (two components each import their dependency)
            again = rng.choice(subs)
            mod.import_module(again)
            imports[id(mod)].append(again)
            tags.add('same_module_imported_twice_by_one_importer')
        if rng.random() < 0.3:
            # a module that is still empty when it is imported and receives its axioms afterwards
            late = PR.ProofExp()
            mod.import_module(late)
            imports[id(mod)].append(late)
            for _ in range(rng.randint(1, 2)):
                late.add_axiom(pat(rng, 1, 0.0, 0.2, syms))
            subs.append(late)
            tags.add('import_filled_after_import')
        tags.add('imports')
    # own axioms
    axioms = []
    for _ in range(rng.randint(0, 4)):
        axioms.append(pat(rng, 2, 0.25, 0.35, syms))
    if rng.random() < 0.5:
        A = pat(rng, 1, 0.0, 0.3, syms); B = pat(rng, 1, 0.0, 0.3, syms)
        axioms += [P.Implies(A, B), A]
        tags.add('mp_axioms')
    own = {}

    def declare(m, pats, bulk=False):
        lst = own.setdefault(id(m), [])
        for a_ in pats:
            if not any(a_ == b_ for b_ in lst):
                lst.append(a_)
        if bulk:
            m.add_axioms(list(pats))
        else:
            for a_ in pats:
                m.add_axiom(a_)
    declare(mod, axioms)
    if axioms and rng.random() < 0.3:
        # a bulk declaration that names an axiom the module already has BEFORE new ones (what adding the assumptions of a second
        # rewrite step does): the repeated one is not declared twice, the new ones are declared
        bulk = [rng.choice(axioms), pat(rng, 1, 0.2, 0.3, syms)]
        if rng.random() < 0.5:
            bulk += [rng.choice(axioms), pat(rng, 1, 0.2, 0.3, syms)]
        declare(mod, bulk, bulk=True)
        tags.add('bulk_declaration_with_repeat_first')
    own_axioms = mod.get_axioms()
    desc.append('axioms: ' + '; '.join(str(a) for a in own_axioms))

    pool = []   # (thunk, description)

    def add(th, d):
        if tb.size(tb.of_repo(th.conc)) <= 150:
            pool.append((th, d))

    def p_():
        return pat(rng, 1, 0.45, 0.3, syms)

    # base thunks
    for _ in range(rng.randint(2, 5)):
        r = rng.random()
        try:
            if r < 0.12:
                add(prop.prop1_inst(p_(), p_()), 'prop1_inst')
            elif r < 0.2:
                add(prop.prop2_inst(p_(), p_(), p_()), 'prop2_inst')
            elif r < 0.28:
                add(prop.dneg_elim(p_()), 'dneg_elim')
            elif r < 0.4:
                add(prop.imp_refl(p_()), 'imp_refl')
            elif r < 0.46:
                add(prop.bot_elim(p_()), 'bot_elim')
            elif r < 0.5:
                add(prop.top_intro(), 'top_intro')
            elif r < 0.56:
                add(prop.dneg_intro(p_()), 'dneg_intro')
            elif r < 0.62:
                add(prop.absurd(p_(), p_()), 'absurd')
            elif r < 0.66:
                add(prop.peirce_bot(p_()), 'peirce_bot')
            elif r < 0.7:
                add(prop.imp_trans(p_(), p_(), p_()), 'imp_trans')
            elif r < 0.85 and own_axioms:
                add(mod.load_axiom(rng.choice(own_axioms)), 'load_axiom')
                tags.add('load_axiom')
            elif r < 0.9:
                add(mod.exists_quantifier(), 'exists_quantifier')
                tags.add('quantifier')
            elif r < 0.95:
                add(mod.prop1(), 'prop1')
            else:
                add(mod.prop3(), 'prop3')
        except AssertionError:
            pass
    if subs and rng.random() < 0.6:
        # a proof that rests on an axiom of an IMPORTED module (loaded through that module's own thunk)
        try:
            sm = rng.choice(subs)
            cands_ = [(m_, a_) for m_ in [sm] + list(getattr(sm, '_submodules', [])) for a_ in m_.get_axioms()]
            if cands_:
                m_, a_ = rng.choice(cands_)
                add(m_.load_axiom(a_), 'load_axiom(imported)')
                tags.add('loads_imported_axiom')
        except AssertionError:
            pass
    if rng.random() < 0.15:
        # a pending substitution whose plug holds a metavariable that the base does not: instantiate only that one
        try:
            a_, b_ = rng.sample((0, 1, 2), 2)
            x_ = rng.choice((0, 1))
            pend = P.ESubst(P.MetaVar(a_), P.EVar(x_), P.MetaVar(b_)) if rng.random() < 0.5 else P.SSubst(P.MetaVar(a_), P.SVar(x_), P.MetaVar(b_))
            if rng.random() < 0.4:
                # ... stacked on another pending substitution of the other kind (element over set variable or the other way round)
                inner_plug = P.Symbol(rng.choice(syms))
                y_ = (x_ + 1) % 2
                if isinstance(pend, P.ESubst):
                    pend = P.ESubst(P.SSubst(P.MetaVar(a_), P.SVar(y_), inner_plug), P.EVar(x_), P.MetaVar(b_))
                else:
                    pend = P.SSubst(P.ESubst(P.MetaVar(a_), P.EVar(y_), inner_plug), P.SVar(x_), P.MetaVar(b_))
                tags.add('stacked_pending_substitutions')
            base_th = prop.prop1_inst(pend, p_()) if rng.random() < 0.5 else prop.imp_refl(pend)
            newplug = pat(rng, 1, 0.0, 0.2, syms)
            # (an identity plug would make the substitution redundant, which the machine refuses to build and the toolkit cannot judge)
            add(base_th, 'lemma over a pending substitution')
            if (tb.of_repo(newplug) not in (tb.ev(x_), tb.sv(x_)) and _wf(tb.of_repo(P.ESubst(P.MetaVar(a_), P.EVar(x_), newplug)))
                    and admissible_inst(base_th.conc, {b_: newplug})):     # (the other argument may hold a constrained metavariable of the same number)
                add(mod.dynamic_inst(base_th, {b_: newplug}), 'dynamic_inst(plug metavariable of a pending substitution)')
                tags.add('pending_subst_plug_instantiated')
        except AssertionError:
            pass
    if rng.random() < 0.08:
        # a pending substitution whose plug mentions the substituted variable itself, resolved on a pattern that re-binds that variable:
        # (exists x . b)[t/x] is (exists x . b) - the binder shadows x, nothing is captured, whatever t mentions
        try:
            a_ = rng.choice((0, 1, 2)); x_ = rng.choice((0, 1))
            s_ = P.Symbol(rng.choice(syms))
            pend = P.ESubst(P.MetaVar(a_), P.EVar(x_), rng.choice((P.App(s_, P.EVar(x_)), P.App(P.EVar(x_), P.EVar(x_)), P.Implies(P.EVar(x_), s_))))
            base_th = prop.imp_refl(pend) if rng.random() < 0.5 else prop.prop1_inst(pend, p_())
            body = rng.choice((P.App(s_, P.EVar(x_)), P.EVar(x_), P.App(P.EVar(x_), P.EVar(2)), s_))
            inst_ = {a_: P.Exists(x_, body)}
            if admissible_inst(base_th.conc, inst_):
                add(mod.dynamic_inst(base_th, inst_), f'dynamic_inst(pending substitution resolved on a shadowing binder: {pend} with {inst_[a_]})')
                tags.add('pending_subst_resolved_on_shadowing_binder')
        except AssertionError:
            pass
    if rng.random() < 0.12:
        # binders and variables of the *other* kind that share a number (mu X_n over x_n, exists x_n over X_n): the two name spaces
        # must not be confused by freshness tests and substitutions; the result is offered to generalisation below
        try:
            n_ = rng.choice((0, 1, 2))
            s_ = P.Symbol(rng.choice(syms))
            co = rng.choice((P.Mu(n_, P.App(P.EVar(n_), P.SVar(n_))), P.Mu(n_, P.EVar(n_)), P.Mu(n_, P.App(s_, P.EVar(n_))),
                             P.Exists(n_, P.App(P.SVar(n_), P.EVar(n_))), P.Exists(n_, P.SVar(n_)), P.Mu(n_, P.Exists(n_, P.App(P.SVar(n_), P.EVar(n_))))))
            base_th = rng.choice((lambda: prop.imp_refl(co), lambda: prop.prop1_inst(p_(), co), lambda: prop.bot_elim(co)))()
            add(base_th, f'coincident_numbers({co})')
            tags.add('coincident_binder_numbers')
            if rng.random() < 0.7:
                lr_ = P.Implies.unwrap(base_th.conc)
                add(mod.exists_generalization(base_th, P.EVar(rng.choice((n_, n_, (n_ + 1) % 3)))), f'gen(coincident_numbers({co}))')
                tags.add('exists_generalization')
        except AssertionError:
            pass
    if rng.random() < 0.2:
        try:
            r_ = rng.random()
            if r_ < 0.25:
                # an exists-pattern whose binder is the quantifier axiom's plug variable x1 (capture business: toolkit and checker must agree)
                body = rng.choice((P.App(P.Symbol(rng.choice(syms)), P.EVar(1)), P.App(P.EVar(0), P.EVar(1)), P.EVar(1), P.App(P.Symbol(rng.choice(syms)), P.EVar(2))))
                plug = P.Exists(rng.choice((1, 1, 2)), body)
            else:
                plug = P.MetaVar(rng.choice((0, 1, 2)), e_fresh=tuple(P.EVar(i) for i in (0, 1) if rng.random() < 0.6)) if r_ < 0.7 else p_()
            # (phi0[x1/x0] with phi0 := psi[t/x0] would be a redundant substitution: x0 is fresh in psi[t/x0] - the filter knows)
            if admissible_inst(mod.exists_quantifier().conc, {0: plug}):
                add(mod.dynamic_inst(mod.exists_quantifier(), {0: plug}), 'dynamic_inst(exists_quantifier)')
                tags.add('quantifier')
                if isinstance(plug, P.MetaVar) and plug.e_fresh:
                    tags.add('quantifier_with_fresh_declaring_plug')
        except AssertionError:
            pass
    if rng.random() < 0.12:
        # a proof step that talks to the interpreter directly, the way the Metamath translator and the deserialiser do: the notation node
        # is made by instantiate_pattern(definition, {..}) with an ordinary dict (plugs first, then the definition), then plugged into a schema
        try:
            N = rng.choice((P.neg, P._and, P._or, P.equiv))
            args = [p_() for _ in range(N.arity)]
            keys = list(range(N.arity))
            rng.shuffle(keys)
            base = rng.choice((prop.imp_refl(), mod.prop1(), mod.prop3()))

            def direct(interpreter, N=N, args=args, keys=keys, base=base):
                built = {k: interpreter.pattern(args[k]) for k in keys}
                node = interpreter.instantiate_pattern(interpreter.pattern(N.definition), built)
                return interpreter.instantiate(base(interpreter), {0: node})
            conc = base.conc.instantiate({0: N(*args)})
            if admissible_inst(base.conc, {0: N(*args)}):
                add(PR.ProofThunk(direct, conc), f'inst(schema, 0 := {N.label} built through instantiate_pattern with a plain dict, keys={keys})')
                tags.add('direct_instantiate_pattern_plain_dict')
        except AssertionError:
            pass
    if rng.random() < 0.1:
        # the same kind of direct step, with the optional parameters of the interpreter API passed BY KEYWORD (every interpreter has to
        # take them: a wrapper that forwards only positional arguments builds another pattern or raises)
        try:
            x_ = rng.choice((0, 1)); k_ = rng.choice((1, 2))
            s_ = P.Symbol(rng.choice(syms))
            base = rng.choice((prop.imp_refl(), mod.prop1()))
            plug = P.Implies(s_, P.MetaVar(k_, e_fresh=(P.EVar(x_),)))

            def by_keyword(interpreter, s_=s_, k_=k_, x_=x_, base=base):
                left = interpreter.symbol(name=s_.name)
                right = interpreter.metavar(k_, e_fresh=(P.EVar(x_),))
                node = interpreter.implies(left=left, right=right)
                return interpreter.instantiate(proved=base(interpreter), delta={0: node})
            if admissible_inst(base.conc, {0: plug}):
                add(PR.ProofThunk(by_keyword, base.conc.instantiate({0: plug})), f'inst(schema, 0 := {plug}) through keyword calls on the interpreter')
                tags.add('direct_keyword_calls')
        except AssertionError:
            pass
    if rng.random() < 0.15:
        # a plug that IS a notation node listing its parameters out of order (what filling the open parameter of a partial application
        # leaves behind): dynamic_inst hands such plugs to the interpreter and keeps what it gets back
        try:
            from frozendict import frozendict
            N = rng.choice((P._and, P._or, P.equiv))
            a0, a1 = p_(), p_()
            node = P.Instantiate(N.definition, frozendict({1: a1})).instantiate({0: a0})
            base = rng.choice((mod.prop1(), prop.imp_refl(), mod.prop2()))
            k_ = rng.choice(sorted(base.conc.metavars()))
            if admissible_inst(base.conc, {k_: node}):
                add(mod.dynamic_inst(base, {k_: node}), f'dynamic_inst(schema, {k_} := {N.label} node with keys {list(node.inst)})')
                tags.add('dynamic_inst_plug_is_unsorted_notation_node')
        except AssertionError:
            pass
    # a schema instantiated through a map whose keys are inserted in shuffled order
    if rng.random() < 0.5:
        try:
            base, bd = rng.choice(((mod.prop1(), 'prop1'), (mod.prop2(), 'prop2'), (prop.imp_trans(), 'imp_trans'), (prop.absurd(), 'absurd'), (prop.prop2_inst(), 'prop2_inst')))
            keys = sorted(base.conc.metavars())
            rng.shuffle(keys)
            if rng.random() < 0.3:
                keys = keys[:-1] or keys
            delta = {i: p_() for i in keys}
            if len(keys) >= 2 and keys != sorted(keys):
                tags.add('unsorted_instantiation_keys')
            if admissible_inst(base.conc, delta):
                add(mod.dynamic_inst(base, delta), f'dynamic_inst({bd}, keys={keys})')
                tags.add('dynamic_inst')
        except AssertionError:
            pass
    if 'mp_axioms' in tags:
        i = len(own_axioms) - 2
        try:
            add(mod.modus_ponens(mod.load_axiom(own_axioms[i]), mod.load_axiom(own_axioms[i + 1])), 'mp(axiom,axiom)')
        except AssertionError:
            pass
    # combinators
    for _ in range(pool_rounds if pool_rounds is not None else rng.randint(1, 6)):
        if not pool:
            break
        th, d = rng.choice(pool)
        r = rng.random()
        try:
            if r < 0.15:
                add(prop.imp_provable(p_(), th), f'imp_provable({d})')
            elif r < 0.3:
                # q -> A  from A
                q = p_()
                add(mod.modus_ponens(prop.prop1_inst(th.conc, q), th), f'mp(prop1_inst,{d})')
            elif r < 0.45:
                ids = sorted(th.conc.metavars())
                if ids:
                    keys = [i for i in ids if rng.random() < 0.7]
                    rng.shuffle(keys)          # insertion order of the map is arbitrary, not ascending
                    delta = {i: p_() for i in keys}
                    if len(keys) >= 2 and keys != sorted(keys):
                        tags.add('unsorted_instantiation_keys')
                    if rng.random() < 0.15:
                        delta = {}
                    if rng.random() < 0.15 and ids:
                        delta = {ids[0]: P.MetaVar(ids[0])}     # identity instantiation
                        tags.add('identity_instantiation')
                    if admissible_inst(th.conc, delta):
                        add(mod.dynamic_inst(th, delta), f'dynamic_inst({d})')
                        tags.add('dynamic_inst')
            elif r < 0.45 + static_instantiate:
                # ProofExp.instantiate (the non-dynamic spelling), incl. empty and identity maps
                ids = sorted(th.conc.metavars())
                rr = rng.random()
                if rr < 0.2 or not ids:
                    delta = {}
                    tags.add('empty_instantiation')
                elif rr < 0.35:
                    delta = {ids[0]: P.MetaVar(ids[0])}
                    tags.add('identity_instantiation')
                else:
                    keys = [i for i in ids if rng.random() < 0.8] or [ids[0]]
                    rng.shuffle(keys)
                    delta = {i: p_() for i in keys}
                if admissible_inst(th.conc, delta):
                    add(mod.instantiate(th, delta), f'instantiate({d}, keys={sorted(delta)})')
                    tags.add('static_instantiate')
            elif r < 0.6:
                lr = P.Implies.unwrap(th.conc)
                if lr:
                    # mostly a variable the document's judgement calls fresh in the consequent; sometimes any variable: the toolkit has to
                    # refuse those itself (AssertionError => nothing is serialised), the generator does not consult the toolkit's judgement
                    e_rhs = tb.of_repo(lr[1])
                    cands = [x for x in (0, 1, 2, 3) if tb.d_e_fresh(e_rhs, x)]
                    if rng.random() < 0.3 or not cands:
                        cands = [0, 1, 2, 3]
                        tags.add('generalization_over_any_variable')
                    add(mod.exists_generalization(th, P.EVar(rng.choice(cands))), f'gen({d})')
                    tags.add('exists_generalization')
            elif r < 0.7:
                lr = P.Implies.unwrap(th.conc)
                if lr:
                    q = p_()
                    add(prop.imp_transitivity(th, prop.prop1_inst(lr[1], q)), f'imp_transitivity({d},prop1_inst)')
            elif r < 0.76:
                add(prop.top_imp(th), f'top_imp({d})')
            elif r < 0.82:
                add(prop.mpcom(th, p_()), f'mpcom({d})')
            elif r < 0.9:
                lr = P.Implies.unwrap(th.conc)
                if lr:
                    add(prop.con3_i(th), f'con3_i({d})')
            else:
                th2, d2 = rng.choice(pool)
                add(prop.and_intro(th, th2), f'and_intro({d},{d2})')
        except AssertionError:
            pass
    # claims: distinct conclusions
    rng.shuffle(pool)
    chosen = []
    for th, d in pool:
        if len(chosen) >= rng.randint(1, max_claims):
            break
        if any(E(th.conc) == E(c.conc) for c, _ in chosen):
            continue
        chosen.append((th, d))
    if own_axioms and rng.random() < 0.05:
        # the same pattern claimed twice in a row (two proofs of it): allowed, and each claim is built and published on its own
        ax_ = rng.choice(own_axioms)
        if not any(E(ax_) == E(c.conc) for c, _ in chosen):
            chosen = chosen[:rng.randint(0, len(chosen))]
            pos_ = rng.randint(0, len(chosen))
            chosen[pos_:pos_] = [(mod.load_axiom(ax_), 'load_axiom'), (mod.load_axiom(ax_), 'load_axiom (same claim again)')]
            tags.add('same_claim_twice_in_a_row')
    order_ = list(range(len(chosen)))
    if len(chosen) >= 2 and rng.random() < 0.04:
        # the proofs are listed in another order than the claims: every Publish discharges the NEXT claim, so the toolkit has to refuse
        # this module (nothing is serialised then); if it does not, the checker will
        while order_ == sorted(order_):
            rng.shuffle(order_)
        tags.add('proofs_listed_out_of_claim_order')
    for th, d in chosen:
        mod.add_claim(th.conc)
        desc.append(f'claim {th.conc}  by {d}')
    for i_ in order_:
        mod.add_proof_expression(chosen[i_][0])
    if len(chosen) >= 2:
        tags.add('claims>=2')
    built = Built(mod, tags, desc, pool, imports)
    built.own = own
    return built


def nested_axioms_module(rng: random.Random, syms=SYMS) -> Built:
    """Axioms that are sub-patterns of one another and carry symbols, plus claims built from a repeatedly used super-pattern of them:
    the memoisation analysis (optimize=True) has to rank nested, already saved patterns; its choices must not depend on anything but the module."""
    PR = repo.mod('proof')
    P = repo.P()
    sy = [P.Symbol(x) for x in rng.sample(list(syms) + ['d', 'e'], 3)]

    def small():
        r = rng.random()
        if r < 0.6:
            return P.Implies(rng.choice(sy), rng.choice(sy))
        if r < 0.8:
            return P.App(rng.choice(sy), rng.choice(sy))
        return P.Implies(P.Implies(rng.choice(sy), rng.choice(sy)), rng.choice(sy))
    chain = [small()]
    for _ in range(rng.randint(1, 3)):
        top = chain[-1]
        chain.append(rng.choice((lambda: P.Implies(top, rng.choice(sy)), lambda: P.Implies(rng.choice(sy), top), lambda: P.App(top, rng.choice(sy)),
                                 lambda: P.Implies(top, small())))())
    X = chain[-1]
    axioms = list(chain)
    rng.shuffle(axioms)
    A = P.Implies(P.MetaVar(0), P.MetaVar(0))
    axioms.insert(rng.randint(0, len(axioms)), A)
    axioms = list(dict.fromkeys(axioms))
    mod = PR.ProofExp(axioms=axioms)
    desc = ['nested axioms: ' + '; '.join(str(a) for a in axioms)]
    for _ in range(rng.randint(1, 2)):
        XX = rng.choice((P.Implies(X, X), P.App(X, X), P.Implies(X, chain[0]), P.Implies(chain[-2], X)))
        Z = rng.choice((P.Implies(XX, XX), P.Implies(XX, X), XX, P.Implies(P.Implies(XX, XX), XX)))
        th = mod.instantiate(mod.load_axiom(A), {0: Z})
        if any(E(th.conc) == E(c) for c in mod.get_claims()):
            continue
        mod.add_claim(th.conc)
        mod.add_proof_expression(th)
        desc.append(f'claim {th.conc}')
    return Built(mod, {'nested_axioms'}, desc)


def shared_definition_notations_module(rng: random.Random) -> Built:
    """An imported module registers TWO notations with one and the same definition (the constructor and the cell spelling of one K
    symbol); the importing module shows patterns of that shape.  Which of the two prints them is decided by the registration order."""
    PR = repo.mod('proof')
    P = repo.P()
    K = repo.mod('proofs.kore')
    f = P.Symbol(rng.choice(('foo', 'bar', 'cfg')))
    n = rng.choice((1, 2, 3))
    pair = [K.nary_app(f, n, False), K.nary_app(f, n, True)]
    if rng.random() < 0.5:
        pair.reverse()
    extra = [P._and, P.neg, P._or]
    rng.shuffle(extra)
    lib = PR.ProofExp(notations=extra[:rng.randint(0, 3)] + pair)
    args = [P.Symbol(x) for x in rng.sample(('a', 'b', 'c', 'd'), n)]
    ax = pair[0](*args)
    mod = PR.ProofExp(axioms=[ax, P.Implies(ax, P.neg(ax))])
    mod.import_module(lib)
    th = mod.load_axiom(ax)
    mod.add_claim(th.conc)
    mod.add_proof_expression(th)
    return Built(mod, {'shared_definition_notations'}, [f'two notations over one definition: {pair[0].label}/{n}'], [(th, 'load_axiom')])


def many_axioms_module(rng: random.Random) -> Built:
    """100-200 small axioms (the memoisation analysis and the one-byte memory indices meet their limits around 128 / 256 entries);
    the claims load a few of them, the last one included"""
    PR = repo.mod('proof')
    P = repo.P()
    n = rng.choice((100, 126, 127, 128, 129, 130, 160, 200))
    f = P.Symbol('f')
    shape = rng.choice(('app', 'imp', 'mixed'))
    axioms = []
    for i in range(n):
        x = P.EVar(i)
        axioms.append(P.App(f, x) if shape == 'app' or (shape == 'mixed' and i % 2) else P.Implies(x, P.App(f, x)))
    mod = PR.ProofExp(axioms=axioms)
    pool = []
    picks = sorted({n - 1, rng.randrange(n), 0} if rng.random() < 0.7 else {n - 1})
    for i in picks:
        th = mod.load_axiom(axioms[i])
        mod.add_claim(th.conc)
        mod.add_proof_expression(th)
        pool.append((th, f'load_axiom(#{i} of {n})'))
    return Built(mod, {'many_axioms', 'claims>=2' if len(picks) >= 2 else 'single_claim'}, [f'{n} axioms of shape {shape}; claims: axioms {picks}'], pool)


def repeated_constraint_module(rng: random.Random) -> Built:
    """Metavariables whose constraint lists name one variable twice (legal: the lists are read as sets by the machine; every entry is
    written out): one axiom, claimed and proved by loading it, plus an instance of it."""
    PR = repo.mod('proof')
    P = repo.P()
    x = P.EVar(rng.choice((0, 1, 2))); X = P.SVar(rng.choice((0, 1)))
    kind = rng.choice(('e_fresh', 's_fresh', 'positive', 'negative'))
    lst = {'e_fresh': (x, x), 's_fresh': (X, X), 'positive': (X, X), 'negative': (X, X)}[kind]
    if rng.random() < 0.5:
        other = P.EVar((x.name + 1) % 3) if kind == 'e_fresh' else P.SVar((X.name + 1) % 2)
        lst = rng.choice(((lst[0], other, lst[0]), (other, lst[0], lst[0])))
    m = P.MetaVar(rng.choice((0, 1)), **{kind: lst})
    A = rng.choice((P.Implies(m, P.MetaVar(2)), P.Implies(P.App(P.Symbol('f'), m), m), P.App(m, P.Symbol('a'))))
    mod = PR.ProofExp(axioms=[A])
    th = mod.load_axiom(A)
    mod.add_claim(A)
    mod.add_proof_expression(th)
    return Built(mod, {'repeated_constraint_entry'}, [f'axiom {A} with {kind}={lst}'], [(th, 'load_axiom')])


def tautology_module(rng: random.Random) -> Built:
    """a module whose claims are proved by the tautology prover (derived-rule library end to end)"""
    T = repo.mod('tautology').Tautology
    P = repo.P()
    mod = T()
    mod._claims = []
    mod._proof_expressions = []
    desc = ['Tautology library module']
    n = 0
    for _ in range(12):
        if n >= rng.randint(1, 2):
            break
        vs = [P.MetaVar(i) for i in range(rng.randint(1, 2))]

        def f(d):
            if d == 0 or rng.random() < 0.3:
                return rng.choice(vs + [P.bot()])
            r = rng.random()
            if r < 0.4:
                return P.Implies(f(d - 1), f(d - 1))
            if r < 0.6:
                return P.neg(f(d - 1))
            if r < 0.8:
                return P._or(f(d - 1), f(d - 1))
            return P._and(f(d - 1), f(d - 1))
        p = f(2)
        try:
            res = mod.prove_tautology(p)
        except AssertionError:
            continue
        if res is None:
            continue
        ok, th = res
        if any(E(th.conc) == E(c) for c in mod.get_claims()):
            continue
        mod.add_claim(th.conc)
        mod.add_proof_expression(th)
        desc.append(f'claim {th.conc} by prove_tautology({p}) -> {ok}')
        n += 1
    if not n:
        th = mod.imp_refl(P.MetaVar(0))
        mod.add_claim(th.conc); mod.add_proof_expression(th)
    return Built(mod, {'tautology_library', 'claims>=2' if n >= 2 else 'single_claim'}, desc)


def serialize(mod, directory: Path, name: str, optimize: bool, fmt='binary'):
    """Runs the real ProofExp.serialize; returns (gamma, claim, proof) bytes (or text for pretty)."""
    PR = repo.mod('proof')
    directory.mkdir(parents=True, exist_ok=True)
    base = directory / name
    of = PR.OutputFormat.Binary if fmt == 'binary' else PR.OutputFormat.Pretty
    mod.serialize(base, of, optimize)
    import gc
    gc.collect()   # the serializer closes its last sink in __del__
    if fmt == 'binary':
        return tuple(base.with_suffix(s).read_bytes() for s in ('.ml-gamma', '.ml-claim', '.ml-proof'))
    return tuple(base.with_suffix(s).read_text() for s in ('.pretty-gamma', '.pretty-claim', '.pretty-proof'))


def serialize_modules(ctx, rng, n, shipped=True):
    """C04 workload: serialise shipped and generated modules (both optimise settings) with M-track installed."""
    sc = ctx.mkscratch()
    todo = []
    if shipped:
        for name, f in shipped_modules():
            todo.append((name, f))
    for i in range(n):
        todo.append((f'gen{i}', None))
    for name, f in todo:
        try:
            b = Built(f(), {'shipped'}, [name]) if f else random_module(rng)
        except Exception as ex:
            ctx.violation('module_construction_raises', f'building module {name} raised {type(ex).__name__}', {'module': name, 'error': repr(ex)[:300]})
            continue
        for opt in (False, True):
            try:
                serialize(b.mod, sc, f'{name}_{int(opt)}', opt)
                ctx.count('modules_serialized')
            except AssertionError as ex:
                ctx.count('module_serialization_refused')
                ctx.note('module_serialization_refused_example', {'module': b.desc[:6], 'error': repr(ex)[:200]})
            except Exception as ex:
                ctx.count('module_serialization_error')
                ctx.note('module_serialization_error_example', {'module': b.desc[:6], 'error': repr(ex)[:300]})

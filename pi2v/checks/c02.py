"""C02 - every proof the toolkit generates is accepted by the checker."""
from __future__ import annotations

import subprocess

from .. import repo
from ..monitors import track
from ..oracles import refmachine as rm
from ..oracles import tb
from ..rust import build
from ..rust.hx import Hx
from . import modules_workload as mw

READY = True
LEVEL = 'exploration'
TECHNIQUE = 'end-to-end runtime monitoring: real ProofExp.serialize output executed by the checker built from the current tree (binary on files + harness) and by the reference machine; M-track hook stays on during serialisation'
LEVEL_TEXT = ('Shipped modules and randomly composed modules (DSL rules and library lemmas applied to concrete, schematic and notation arguments; '
              'import graphs; 1-6 claims) are serialised with and without optimisation; whenever the toolkit itself completes the serialisation the emitted '
              'triple must be accepted by the checker with every claim discharged.')
LEVEL_NOTE = 'Trusted: the checker binary and harness built from the current lib.rs are the judge; the reference machine is recorded alongside (a disagreement between them is C05\'s business).'
DESIGN_REF = 'DESIGN.md section 5 C02'
NSHARDS = 16
TIMEOUT = {'quick': 1500, 'thorough': 3 * 3600}
RULE = ('A case is (module, optimize). Modules: the six shipped ones and random ones (see pi2v/checks/modules_workload.py). distinct_nontrivial = distinct '
        'emitted triples with at least 2 claims or an Instantiate in the proof file.')
ASSUMPTIONS = ['generated library arguments are well-formed patterns (positive mu, no constraint-violating plugs) and generated instantiations do not turn a pending substitution into a redundant one (plug = the variable, or the variable fresh in the base by the document\'s judgement): the toolkit has no judgement for those and the resulting rejections are recorded under C04/C07']
FLOORS = {'quick': {'cases': 1500, 'accepted': 1400, 'modules_with_2_claims': 300, 'modules_with_imports': 200, 'modules_with_generalization': 50,
                    'optimised_with_save_load': 100, 'modules_with_unsorted_instantiation_keys': 30, 'modules_quantifier_with_fresh_declaring_plug': 20, 'modules_pending_subst_on_shadowing_binder': 20, 'modules_with_stacked_pending_substitutions': 20, 'modules_same_claim_twice_in_a_row': 10, 'modules_import_filled_after_import': 50, 'modules_with_coincident_binder_numbers': 30, 'modules_generalization_over_any_variable': 20, 'emitted:ESubst': 10, 'emitted:SSubst': 10, 'shipped_cases': 12, 'tautology_library_cases': 20, 'binary_runs': 100,
                    **{f'emitted:{n}': 20 for n in ('EVar', 'SVar', 'Symbol', 'Implies', 'App', 'Exists', 'Mu', 'CleanMetaVar', 'Prop1', 'Prop2', 'Prop3',
                                                    'Quantifier', 'ModusPonens', 'Generalization', 'Instantiate', 'Save', 'Load', 'Publish')},
                    'emitted:MetaVar': 2}}
FLOORS['thorough'] = dict(FLOORS['quick'], cases=30000, accepted=29000)


def prepare(tier):
    b = build.ensure(('hx', 'checker'))
    return {'binaries': {k: str(v) for k, v in b.items()}}


def shard(ctx):
    rng = ctx.rng
    track.install()
    # M-track observations made here are reported under C04's mechanisms but do not decide C02
    trk = {}
    track.SINK.count = lambda k, n=1: ctx.count('mtrack:' + k.split(':')[1] if k.startswith('track:call') else 'mtrack', 0) if False else None
    track.SINK.violation = lambda mech, summary, w: trk.__setitem__(mech, trk.get(mech, 0) + 1)
    hx = Hx('hx')
    bins = build.ensure(('checker',))
    sc = ctx.mkscratch()
    todo = []
    if ctx.shard == 0:
        for name, f in mw.shipped_modules():
            todo.append((name, f))
    n = ctx.scale(1600, 48000) // 2
    for i in range(n):
        todo.append((f'gen{ctx.shard}_{i}', None))
    for i in range(2 if ctx.quick else 20):
        todo.append((f'taut{ctx.shard}_{i}', lambda: mw.tautology_module(rng).mod))
    for name, f in todo:
        try:
            b = mw.Built(f(), {'shipped'}, [name]) if f else mw.random_module(rng)
        except Exception as ex:
            ctx.violation('module_construction_raises:' + type(ex).__name__, f'building module {name} raised', {'module': name, 'error': repr(ex)[:400]})
            continue
        plain_ok = None
        for opt in (False, True):
            ctx.count('cases')
            if f and name.startswith('taut'):
                ctx.count('tautology_library_cases')
            elif f:
                ctx.count('shipped_cases')
            try:
                g, c, p = mw.serialize(b.mod, sc, 'm', opt)
            except AssertionError as ex:
                ctx.count('toolkit_refused')
                ctx.note('toolkit_refused_example', {'module': b.desc[:8], 'optimize': opt, 'error': repr(ex)[:300]})
                if opt and plain_ok:
                    # the module serialises without optimisation but the optimising pipeline refuses it
                    ctx.violation('only_the_optimised_serialisation_is_refused', 'ProofExp.serialize succeeds with optimize=False and raises with optimize=True for the same module',
                                  {'module': b.desc, 'tags': sorted(b.tags), 'error': repr(ex)[:400]})
                if not opt:
                    plain_ok = False
                continue
            except Exception as ex:
                ctx.violation('serialize_raises:' + type(ex).__name__, f'ProofExp.serialize raised {type(ex).__name__}', {'module': b.desc, 'optimize': opt, 'error': repr(ex)[:400]})
                continue
            if not opt:
                plain_ok = True
            ctx.case(g + b'|' + c + b'|' + p, nontrivial=('claims>=2' in b.tags or b'\x1a' in p))
            if 'claims>=2' in b.tags:
                ctx.count('modules_with_2_claims')
            if 'imports' in b.tags:
                ctx.count('modules_with_imports')
            if 'exists_generalization' in b.tags:
                ctx.count('modules_with_generalization')
            if 'quantifier_with_fresh_declaring_plug' in b.tags:
                ctx.count('modules_quantifier_with_fresh_declaring_plug')
            if 'same_claim_twice_in_a_row' in b.tags:
                ctx.count('modules_same_claim_twice_in_a_row')
            if 'import_filled_after_import' in b.tags:
                ctx.count('modules_import_filled_after_import')
            if 'stacked_pending_substitutions' in b.tags:
                ctx.count('modules_with_stacked_pending_substitutions')
            if 'pending_subst_resolved_on_shadowing_binder' in b.tags:
                ctx.count('modules_pending_subst_on_shadowing_binder')
            if 'coincident_binder_numbers' in b.tags:
                ctx.count('modules_with_coincident_binder_numbers')
            if 'generalization_over_any_variable' in b.tags:
                ctx.count('modules_generalization_over_any_variable')
            if 'unsorted_instantiation_keys' in b.tags:
                ctx.count('modules_with_unsorted_instantiation_keys')
            try:
                ops = {i[0] for f_ in (g, c, p) for i in rm.decode(f_)}
            except rm.Reject:
                ops = set()
            for o in ops:
                ctx.count('emitted:' + o)
            if opt and ('Save' in ops and 'Load' in ops):
                ctx.count('optimised_with_save_load')
            a = hx.run_triples([(g, c, p)])[0]
            o2 = rm.run_triple(g, c, p)
            ctx.count('o2:' + o2[0])
            w = {'module': b.desc, 'tags': sorted(b.tags), 'optimize': opt, 'gamma': g.hex(), 'claim': c.hex(), 'proof': p.hex()[:6000],
                 'checker': a[:300], 'o2': [o2[0]] + ([o2[1], o2[2]] if o2[0] == 'REJECT' else [])}
            if not a.startswith('ACCEPT'):
                cls = a.split(' ', 1)[1][:40] if ' ' in a else a
                ctx.violation('checker_rejects_generated_proof:' + cls, f'the checker rejects the serialisation of a module the toolkit accepted (optimize={opt}): {cls}', w)
                continue
            ctx.count('accepted')
            # every declared claim discharged: O2's journal (only if O2 accepted too)
            if o2[0] == 'ACCEPT':
                m = o2[1]
                if len(m.journal['discharged']) != len(m.journal['claims']) or len(m.journal['claims']) != len(b.mod.get_claims()):
                    ctx.violation('claims_not_all_discharged', 'accepted, but the number of discharged claims differs from the declared claims', w)
            if ctx.rng.random() < 0.15 or f:
                (sc / 'g').write_bytes(g); (sc / 'c').write_bytes(c); (sc / 'p').write_bytes(p)
                r = subprocess.run([str(bins['checker']), str(sc / 'g'), str(sc / 'c'), str(sc / 'p')], capture_output=True, timeout=300)
                ctx.count('binary_runs')
                if r.returncode != 0:
                    ctx.violation('checker_binary_rejects_generated_proof', 'the checker binary exits non-zero on a generated proof', dict(w, stderr=r.stderr[-300:].decode('utf8', 'replace')))
            if ctx.rng.random() < 0.004:
                ctx.sample({'module': b.desc[:6], 'optimize': opt, 'sizes': [len(g), len(c), len(p)]})
    hx.close()
    for k, v in trk.items():
        ctx.count('mtrack_observed:' + k, v)

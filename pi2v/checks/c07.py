"""C07 - Python proof rules apply exactly when the documented rule applies (post-condition monitor on the real interpreters)."""
from __future__ import annotations

from .. import repo
from ..gen import patterns as gp
from ..gen import repo_patterns as rp
from ..oracles import tb

READY = True
LEVEL = 'exploration'
TECHNIQUE = 'runtime post-condition monitoring of modus_ponens / exists_generalization / instantiate on BasicInterpreter, StatefulInterpreter, the optimising transformers over BasicInterpreter and through ProofExp thunks, against the documented rule evaluated on notation-free expansions'
LEVEL_TEXT = ('Adversarial premises (antecedents differing in one leaf, implications visible only after notation expansion, consequents hiding the '
              'generalised variable under 1-3 notation layers, instantiation maps that hit or miss metavariable constraints or capture) are fed to the '
              'real rule methods; the call must raise when the documented rule is inapplicable and otherwise return exactly the documented conclusion.')
LEVEL_NOTE = 'Trusted: the rule table of the reference machine (Appendix B) on O1 expansions, the document\'s freshness judgement, equality modulo the A10 normalisation.'
DESIGN_REF = 'DESIGN.md section 5 C07'
NSHARDS = 16
TIMEOUT = {'quick': 1500, 'thorough': 3 * 3600}
RULE = ('A case is one rule call with generated premises on one of five drivers (BasicInterpreter; StatefulInterpreter with the premises published as '
        'axioms and loaded; ProofExp thunks over load_axiom; InstantiationOptimizer and MemoizingInterpreter over BasicInterpreter). Applicable and inapplicable premises are generated in equal measure, each inapplicable '
        'one tagged with its reason. distinct_nontrivial = distinct (rule, premises, argument) with notation or a metavariable in a premise.')
ASSUMPTIONS = ['instantiation maps whose textbook result is undefined only through a metavariable-dependent potential capture are not judged']
FLOORS = {'quick': {'mp:applicable': 1000, 'mp:inapplicable:antecedent_mismatch': 1000, 'mp:inapplicable:not_implication': 300, 'mp:implication_only_after_expansion': 300,
                    'gen:applicable': 1000, 'gen:inapplicable:variable_free': 1000, 'gen:inapplicable:not_implication': 200, 'gen:hidden_under_notation': 300,
                    'inst:applicable': 1000, 'inst:inapplicable:constraint': 300, 'inst:inapplicable:capture': 100, 'inst:partial_node_premise': 100, 'driver:basic': 3000, 'driver:stateful': 1500, 'driver:proofexp': 1500, 'driver:instopt(basic)': 1000, 'driver:memo(basic)': 1000,
                    'inst:plug_is_same_number_metavariable': 300, 'mp:same_definition_other_keys:different': 1000, 'mp:same_definition_other_keys:equal': 200, 'session:instantiations': 3000, 'session:step_flips_previous_arguments': 500}}
FLOORS['thorough'] = dict(FLOORS['quick'])


def E(x):
    return tb.norm_py(tb.of_repo(x))


class Drivers:
    """the three ways a rule is reached"""

    def __init__(self):
        self.I = repo.mod('interpreter')
        self.B = repo.mod('basic_interpreter')
        self.S = repo.mod('stateful_interpreter')
        self.PR = repo.mod('proof')
        self.Proved = repo.mod('proved').Proved
        self.Claim = repo.mod('claim').Claim
        self.P = repo.P()

    def call(self, driver, rule, premises, arg):
        """premises: list of repo patterns (conclusions).  Returns ('ok', conclusion pattern) | ('refused', msg) | ('error', repr)"""
        try:
            if driver == 'basic':
                it = self.B.BasicInterpreter(self.I.ExecutionPhase.Proof)
                prs = [self.Proved(p) for p in premises]
                return ('ok', self._apply(it, rule, prs, arg, push=None).conclusion)
            if driver in ('instopt(basic)', 'memo(basic)'):
                O = repo.mod('optimizing_interpreters')
                inner = self.B.BasicInterpreter(self.I.ExecutionPhase.Proof)
                it = O.InstantiationOptimizer(inner) if driver.startswith('instopt') else O.MemoizingInterpreter(inner)
                prs = [self.Proved(p) for p in premises]
                return ('ok', self._apply(it, rule, prs, arg, push=None).conclusion)
            if driver == 'stateful':
                it = self.S.StatefulInterpreter(self.I.ExecutionPhase.Gamma)
                for p in premises:
                    it.publish_axiom(it.pattern(p))
                it.into_claim_phase()
                it.into_proof_phase()
                prs = []

                def push(pr):
                    it.load('ax', pr)
                return ('ok', self._apply(it, rule, [self.Proved(p) for p in premises], arg, push=push).conclusion)
            if driver == 'proofexp':
                mod = self.PR.ProofExp(axioms=list(dict.fromkeys(premises)))
                ths = [mod.load_axiom(p) for p in premises]
                if rule == 'mp':
                    th = mod.modus_ponens(ths[0], ths[1])
                elif rule == 'gen':
                    th = mod.exists_generalization(ths[0], arg)
                else:
                    th = mod.dynamic_inst(ths[0], dict(arg)) if arg.get('__dynamic__') is None and False else mod.instantiate(ths[0], dict(arg))
                it = self.S.StatefulInterpreter(self.I.ExecutionPhase.Gamma)
                mod.execute_gamma_phase(it)
                it.into_proof_phase()
                if rule == 'inst':
                    # ProofExp.instantiate expects the plugs on the stack (dynamic_inst pushes them itself)
                    th = mod.dynamic_inst(ths[0], dict(arg))
                return ('ok', th(it).conclusion)
        except AssertionError as ex:
            return ('refused', str(ex)[:120])
        except Exception as ex:
            return ('error', repr(ex)[:300])
        raise ValueError(driver)

    def _apply(self, it, rule, prs, arg, push):
        if rule == 'mp':
            if push:
                push(prs[0]); push(prs[1])
            return it.modus_ponens(prs[0], prs[1])
        if rule == 'gen':
            if push:
                push(prs[0])
            return it.exists_generalization(prs[0], arg)
        if rule == 'inst':
            delta = dict(arg)
            if push:
                for k in delta:
                    delta[k] = it.pattern(delta[k])
                push(prs[0])
            return it.instantiate(prs[0], delta)
        raise ValueError(rule)


def hide(e, rng, layers):
    """wrap e in `layers` notation layers (expansion changes, e stays a sub-term)"""
    for _ in range(layers):
        r = rng.random()
        if r < 0.3:
            e = tb.neg(e)
        elif r < 0.55:
            e = tb.and_(e, tb.sy('a'))
        elif r < 0.8:
            e = tb.or_(tb.sy('b'), e)
        else:
            e = tb.equiv(e, tb.sy('a'))
    return e


def shard(ctx):
    rng = ctx.rng
    rp.IDENTITY_WRAP = 0.03     # leaves and compound nodes spelled through an identity-like notation (definition = bare metavariable)
    D = Drivers()
    P = D.P
    global BINARY_NOTATIONS
    BINARY_NOTATIONS = [nt for nt, _fam in repo.all_notations().values() if nt.arity == 2 and nt.definition.metavars() == {0, 1}
                        and not any(m[2] or m[3] or m[4] or m[5] or m[6] for ms in tb.metavars(tb.of_repo(nt.definition)).values() for m in ms)]
    n = ctx.scale(120000, 1500000)
    drivers = ('basic', 'basic', 'stateful', 'stateful', 'proofexp', 'proofexp', 'instopt(basic)', 'memo(basic)')

    def W(**w):
        return {k: (str(v) if not isinstance(v, (str, int, list, dict, type(None), bool)) else v) for k, v in w.items()}

    def term(d=2, meta=0.6, notation=0.35):
        return rp.rand_term(rng, rng.randint(0, d), meta=rng.random() < meta, notation=notation, constrained=0.3, mvs=(0, 1, 2))

    for k in range(n):
        rule = ('mp', 'gen', 'inst')[k % 3]
        driver = rng.choice(drivers)
        ctx.count('driver:' + driver)
        if rule == 'mp':
            A = term(); B = term()
            r = rng.random()
            reason = None
            if r < 0.4:
                left_e = tb.im(A, B); right_e = A
            elif r < 0.5:
                # implication only after notation expansion: neg(A) = A -> bot ; or_(A', B) = neg(A') -> B
                if rng.random() < 0.5:
                    left_e = tb.neg(A); right_e = A; B = tb.BOT
                else:
                    left_e = tb.or_(A, B); right_e = tb.neg(A)
                    A = tb.neg(A)
                ctx.count('mp:implication_only_after_expansion')
            elif r < 0.85:
                left_e = tb.im(A, B); right_e = rp.perturb(A, rng)
                if tb.norm_py(right_e) != tb.norm_py(A):
                    reason = 'antecedent_mismatch'
            else:
                left_e = rng.choice((tb.ap(A, B), tb.ex(0, tb.im(A, B)), tb.mv(0), tb.sy('a'), tb.mu(0, tb.im(tb.sy('a'), tb.sv(0)))))
                right_e = A
                reason = 'not_implication'
            left = rp.fold(left_e, rng, rng.choice((0.0, 0.6, 0.95)))
            right = rp.fold(right_e, rng, rng.choice((0.0, 0.6, 0.95)))
            if rng.random() < 0.12:
                # antecedent and right premise are two nodes over the SAME notation definition that differ in how the arguments are
                # keyed: permuted insertion order (same pattern), values attached to other keys, or a partial node (other patterns)
                from frozendict import frozendict
                nt = rng.choice(BINARY_NOTATIONS)
                a = rp.fold(term(1, meta=0.5, notation=0.2), rng, 0.3); b = rp.fold(term(1, meta=0.5, notation=0.2), rng, 0.3)
                full = P.Instantiate(nt.definition, frozendict({0: a, 1: b}))
                other = rng.choice((P.Instantiate(nt.definition, frozendict({1: b, 0: a})),      # same pattern, other insertion order
                                    P.Instantiate(nt.definition, frozendict({1: a, 0: b})),      # same values in the same positions, other keys
                                    P.Instantiate(nt.definition, frozendict({0: a})),            # partial: parameter 1 left open
                                    P.Instantiate(nt.definition, frozendict({1: b})),
                                    P.Instantiate(nt.definition, frozendict({1: a}))))
                ante, right = (full, other) if rng.random() < 0.5 else (other, full)
                Bp = rp.fold(B, rng, 0.3)
                left = P.Implies(ante, Bp)
                left_e = tb.of_repo(left, 'strict'); right_e = tb.of_repo(right, 'strict')
                reason = None if tb.norm_py(left_e[1]) == tb.norm_py(right_e) else 'antecedent_mismatch'
                ctx.count('mp:same_definition_other_keys:' + ('equal' if reason is None else 'different'))
            ctx.case(('mp', tb.show(left_e), tb.show(right_e)), nontrivial='(mv ' in tb.show(left_e) or rp.notation_depth(left) > 0)
            out = D.call(driver, 'mp', [left, right], None)
            ctx.count('mp:applicable' if reason is None else 'mp:inapplicable:' + reason)
            w = W(rule='modus_ponens', driver=driver, left=left, right=right, outcome=out[0], detail=out[1])
            if out[0] == 'error':
                ctx.violation('mp_unexpected_exception', 'modus_ponens raised an unexpected exception', w)
            elif reason is None:
                if out[0] == 'refused':
                    ctx.violation('mp_refuses_when_applicable', 'modus_ponens refused matching premises', w)
                elif E(out[1]) != tb.norm_py(B if left_e[0] == 'im' or True else B):
                    if E(out[1]) != tb.norm_py(left_e[2]):
                        ctx.violation('mp_wrong_conclusion', 'modus_ponens returned something else than the consequent', dict(w, expected=tb.pretty(left_e[2])))
            else:
                if out[0] == 'ok':
                    ctx.violation('mp_returns_when_inapplicable:' + reason, f'modus_ponens returned a conclusion although the rule is inapplicable ({reason})', w)
        elif rule == 'gen':
            L = term(); R0 = term(d=2)
            x = rng.choice((0, 1, 2))
            r = rng.random()
            reason = None
            layers = 0
            if r < 0.12:
                prem_e = rng.choice((tb.ap(L, R0), tb.ex(x, tb.im(L, R0)), tb.mv(1), tb.sy('a')))
                reason = 'not_implication'
            else:
                if r < 0.55:
                    # make x occur free in the consequent, possibly hidden under notation layers
                    layers = rng.choice((0, 1, 2, 3))
                    inner = rng.choice((tb.ev(x), tb.ap(tb.sy('a'), tb.ev(x)), tb.im(tb.ev(x), R0), tb.ex((x + 1) % 3, tb.ev(x)), tb.mv(3)))
                    R = hide(inner, rng, layers)
                    if rng.random() < 0.5:
                        R = tb.im(R0, R)
                else:
                    R = R0
                prem_e = tb.im(L, R)
                if not tb.d_e_fresh(R, x):
                    reason = 'variable_free'
                    if layers:
                        ctx.count('gen:hidden_under_notation')
            prem = rp.fold(prem_e, rng, rng.choice((0.0, 0.7, 0.95)))
            ctx.case(('gen', tb.show(prem_e), x), nontrivial=True)
            out = D.call(driver, 'gen', [prem], P.EVar(x))
            ctx.count('gen:applicable' if reason is None else 'gen:inapplicable:' + reason)
            w = W(rule='exists_generalization', driver=driver, premise=prem, premise_expansion=tb.pretty(prem_e), var=x, outcome=out[0], detail=out[1])
            if out[0] == 'error':
                ctx.violation('gen_unexpected_exception', 'exists_generalization raised an unexpected exception', w)
            elif reason is None:
                if out[0] == 'refused':
                    ctx.violation('gen_refuses_when_applicable', 'exists_generalization refused although the variable is fresh in the consequent by the documented judgement', w)
                elif E(out[1]) != tb.norm_py(tb.im(tb.ex(x, prem_e[1]), prem_e[2])):
                    ctx.violation('gen_wrong_conclusion', 'exists_generalization returned a wrong conclusion', w)
            elif out[0] == 'ok':
                ctx.violation('gen_returns_when_inapplicable:' + reason + (':under_notation' if layers and rp.notation_depth(prem) else ''),
                              f'exists_generalization returned a conclusion although the rule is inapplicable ({reason})', w)
        else:
            forced = None
            if rng.random() < 0.2:
                # a pending substitution whose resolution captures (or just does not): phi_i[plug/x] with phi_i := (binder y . x)
                i = rng.choice((0, 1, 2)); x = rng.choice((0, 1)); y = rng.choice((0, 1, 2))
                kind = rng.choice('es')
                if kind == 'e':
                    pend = tb.es(tb.mv(i), x, rng.choice((tb.ev(y), tb.ap(tb.sy('a'), tb.ev(y)), tb.sy('b'))))
                    body = rng.choice((tb.ex(y, tb.ap(tb.ev(x), tb.ev(y))), tb.ex(y, tb.ev(x)), tb.ex(x, tb.ev(x)), tb.ap(tb.ev(x), tb.ev(y))))
                else:
                    pend = tb.ss(tb.mv(i), x, rng.choice((tb.ev(y), tb.ap(tb.sy('a'), tb.ev(y)), tb.sy('b'))))
                    body = rng.choice((tb.ex(y, tb.ap(tb.sv(x), tb.ev(y))), tb.ex(y, tb.sv(x)), tb.ap(tb.sv(x), tb.ev(y))))
                conc_e = rng.choice((pend, tb.im(pend, tb.mv(i)), tb.im(tb.sy('a'), tb.ex(2, pend))))
                forced = {i: body}
            else:
                conc_e = rp.rand_term(rng, rng.randint(1, 3), meta=True, notation=0.3, constrained=0.6, mvs=(0, 1, 2))
            ids = sorted(tb.metavar_ids(conc_e))
            if not ids or tb.size(conc_e) > 100:
                continue
            keys = [i for i in ids if rng.random() < 0.7] or ids[:1]
            if rng.random() < 0.1:
                keys.append(3)   # id that does not occur
            delta_e = {}
            if forced:
                keys = list(forced)
            for i in keys:
                if forced:
                    delta_e[i] = forced[i]
                    continue
                if rng.random() < 0.08:
                    # the plug is the metavariable with the SAME number, carrying more (or just other) constraints: not an identity
                    nodes = sorted(tb.metavars(conc_e).get(i, set()))
                    m0 = rng.choice(nodes) if nodes else tb.mv(i)
                    extra = rng.choice(((0,), (1,), (0, 1), ()))
                    delta_e[i] = tb.mv(i, ef=tuple(sorted(set(m0[2]) | set(extra))), sf=tuple(sorted(set(m0[3]) | set(rng.choice(((), (0,), (1,)))))), pos=m0[4], neg=m0[5], holes=m0[6])
                    ctx.count('inst:plug_is_same_number_metavariable')
                    continue
                if rng.random() < 0.5:
                    nodes = tb.metavars(conc_e).get(i, set())
                    vs_e = sorted(set().union(*[set(m[2]) for m in nodes]) or {0})
                    vs_s = sorted(set().union(*[set(m[3]) | set(m[4]) | set(m[5]) for m in nodes]) or {0})
                    delta_e[i] = rng.choice((tb.ev(rng.choice(vs_e)), tb.sv(rng.choice(vs_s)), tb.neg(tb.sv(rng.choice(vs_s))),
                                             tb.ap(tb.sy('a'), tb.ev(rng.choice(vs_e))), tb.ex(rng.choice(vs_e), tb.ev(rng.choice(vs_e)))))
                else:
                    delta_e[i] = term(d=2, meta=0.4)
            try:
                exp = tb.inst(conc_e, delta_e, 'strict', check='doc')
                reason = None
            except tb.ConstraintViolation as ex:
                reason = 'constraint'; fam = str(ex)
            except tb.Capture as ex:
                reason = 'capture'; fam = 'ex' if str(ex).startswith('evar') else 'mu'
                # under an existential binder the toolkit refuses binder by binder, exactly like the checker (A6), so the documented
                # rule is simply inapplicable; under a mu binder it has no judgement at all (known finding) and only a definite
                # capture is reported there
                if fam == 'mu' and not _definite(conc_e, delta_e):
                    ctx.count('inst:potential_capture_not_judged')
                    continue
            conc = rp.fold(conc_e, rng, rng.choice((0.0, 0.6)))
            if forced is None and rng.random() < 0.35 and len(tb.metavar_ids(conc_e)) >= 1:
                # the premise is spelled as a partial notation node: only some metavariables are bound by the node itself
                from frozendict import frozendict
                base_e = rp.rand_term(rng, rng.randint(1, 2), meta=True, notation=0.2, mvs=(0, 1, 2), substs=False, constrained=rng.choice((0.0, 0.0, 0.5)))
                bids = sorted(tb.metavar_ids(base_e))
                if len(bids) >= 2:
                    keys_n = [bids[0]] if rng.random() < 0.7 else bids[:-1]
                    inner_e = {i: rp.rand_term(rng, 1, meta=True, notation=0.1, mvs=(0, 1, 2), substs=False, constrained=0.0) for i in keys_n}
                    conc_e = tb.inst(base_e, inner_e, 'naive')
                    conc = P.Instantiate(rp.fold(base_e, rng, 0.3), frozendict({i: rp.fold(v, rng, 0.3) for i, v in inner_e.items()}))
                    ids2 = sorted(tb.metavar_ids(conc_e) | set(bids))
                    delta_e = {i: rp.rand_term(rng, rng.randint(0, 1), meta=True, notation=0.1, mvs=(0, 1, 2), substs=False, constrained=0.0) for i in ids2 if rng.random() < 0.8}
                    if not delta_e:
                        continue
                    try:
                        exp = tb.inst(conc_e, delta_e, 'strict', check='doc')
                        reason = None
                    except tb.Undefined:
                        continue
                    ctx.count('inst:partial_node_premise')
            delta = {i: rp.fold(v, rng, 0.4) for i, v in delta_e.items()}
            ctx.case(('inst', tb.show(conc_e), tuple(sorted((i, tb.show(v)) for i, v in delta_e.items()))), nontrivial=True)
            out = D.call(driver, 'inst', [conc], delta)
            if out[0] == 'ok':
                # the result may be a lazy notation wrapper: force it with the repo's own code
                try:
                    got = tb.norm_py(tb.of_repo(out[1], 'strict'))
                except tb.Capture:
                    # the rule RETURNED (a lazily evaluated node) although carrying the instantiation out captures: a conclusion nobody can
                    # expand.  The rule has to refuse when it is called, not when somebody looks at the result.
                    ctx.count('inst:returned_unexpandable_conclusion')
                    ctx.violation('inst_returns_unexpandable_conclusion', 'instantiate returned a lazily evaluated conclusion whose expansion captures (the refusal is deferred to whoever expands it)',
                                  W(rule='instantiate', driver=driver, conclusion=conc, delta={str(i): tb.pretty(v) for i, v in delta_e.items()}))
                    continue
            ctx.count('inst:applicable' if reason is None else 'inst:inapplicable:' + reason)
            w = W(rule='instantiate', driver=driver, conclusion=conc, conclusion_expansion=tb.pretty(conc_e),
                  delta={str(i): tb.pretty(v) for i, v in delta_e.items()}, outcome=out[0], detail=out[1])
            if out[0] == 'error':
                ctx.violation('inst_unexpected_exception', 'instantiate raised an unexpected exception', w)
            elif reason is None:
                if out[0] == 'refused':
                    ctx.violation('inst_refuses_when_applicable', 'instantiate refused an admissible instantiation', w)
                elif got != tb.norm_py(exp) and tb.norm_eq(got) != tb.norm_eq(exp):
                    ctx.violation('inst_wrong_conclusion', 'instantiate returned a conclusion different from the documented simultaneous instantiation', dict(w, expected=tb.pretty(exp), got=tb.pretty(got)))
            elif out[0] == 'ok':
                if reason == 'constraint':
                    ctx.violation('py_instantiate_returns_on_constraint_violation:' + fam, f'instantiate returned a conclusion although the plug violates the metavariable\'s {fam} constraint', w)
                else:
                    ctx.violation(f'inst_returns_on_capture:{fam}_binder', 'instantiate returned a conclusion although resolving a pending substitution captures', w)
        if k % 3000 == 0:
            ctx.sample({'rule': rule, 'driver': driver})
    sessions(ctx, rng, D)


FLIP = {'ev': 'sv', 'sv': 'ev', 'im': 'ap', 'ap': 'im', 'ex': 'mu', 'mu': 'ex'}


def flip(e, rng, p=1.0):
    """the same tree with constructors exchanged pairwise (element/set variable, implication/application, exists/mu): a different pattern
    whose fields are identical"""
    k = e[0]
    k2 = FLIP.get(k, k) if rng.random() < p else k
    if k in ('ev', 'sv'):
        return (k2, e[1])
    if k in ('im', 'ap'):
        return (k2, flip(e[1], rng, p), flip(e[2], rng, p))
    if k in ('ex', 'mu'):
        return (k2, e[1], flip(e[2], rng, p))
    return e


def sessions(ctx, rng, D):
    """many rule applications on ONE interpreter object (the other workload uses a fresh interpreter per call): every call must still yield the
    documented conclusion, whatever was instantiated / concluded on that object before - in particular right after a call whose arguments
    differ only in the constructors at some positions"""
    P = D.P
    schemas = {'prop1': tb.im(tb.mv(0), tb.im(tb.mv(1), tb.mv(0))),
               'prop2': tb.im(tb.im(tb.mv(0), tb.im(tb.mv(1), tb.mv(2))), tb.im(tb.im(tb.mv(0), tb.mv(1)), tb.im(tb.mv(0), tb.mv(2)))),
               'prop3': tb.im(tb.im(tb.im(tb.mv(0), tb.BOT), tb.BOT), tb.mv(0))}
    for _s in range(ctx.scale(1600, 40000)):
        kind = rng.choice(('stateful', 'basic', 'memo(stateful)'))
        if kind == 'basic':
            it = D.B.BasicInterpreter(D.I.ExecutionPhase.Proof)
        else:
            it = D.S.StatefulInterpreter(D.I.ExecutionPhase.Proof)
            if kind.startswith('memo'):
                it = repo.mod('optimizing_interpreters').MemoizingInterpreter(it)
        ctx.count('session:' + kind)
        prev = None
        for _step in range(rng.randint(2, 6)):
            which = rng.choice(('prop1', 'prop1', 'prop2', 'prop3'))
            ids = sorted(tb.metavar_ids(schemas[which]))
            if prev is not None and prev[0] == which and rng.random() < 0.7:
                delta_e = {i: (flip(v, rng, rng.choice((1.0, 0.5))) if rng.random() < 0.7 else v) for i, v in prev[1].items()}
                ctx.count('session:step_flips_previous_arguments')
            else:
                delta_e = {i: gp.rand_concrete(rng, rng.randint(0, 2), wf=False) for i in ids if rng.random() < 0.85}
            if not delta_e:
                continue
            try:
                exp = tb.inst(schemas[which], delta_e, 'strict', check='doc')
            except tb.Undefined:
                continue
            prev = (which, delta_e)
            ctx.case(('session', which, tuple(sorted((i, tb.show(v)) for i, v in delta_e.items()))), nontrivial=True)
            ctx.count('session:instantiations')
            try:
                delta = {i: it.pattern(tb.to_repo(v, P)) for i, v in delta_e.items()}
                pr = getattr(it, which)()
                got = tb.norm_py(tb.of_repo(it.instantiate(pr, delta).conclusion, 'strict'))
                if hasattr(it, 'pop'):
                    try:
                        it.pop(it.stack[-1]) if getattr(it, 'stack', None) else None
                    except Exception:
                        pass
            except AssertionError as ex:
                ctx.violation('inst_refuses_when_applicable:session', 'instantiate refused an admissible instantiation on a reused interpreter',
                              {'interpreter': kind, 'schema': which, 'delta': {str(i): tb.pretty(v) for i, v in delta_e.items()}, 'error': str(ex)[:200]})
                break
            except Exception as ex:
                ctx.violation('inst_unexpected_exception:session', f'instantiate raised {type(ex).__name__} on a reused interpreter',
                              {'interpreter': kind, 'schema': which, 'delta': {str(i): tb.pretty(v) for i, v in delta_e.items()}, 'error': repr(ex)[:200]})
                break
            if got != tb.norm_py(exp):
                ctx.violation('inst_wrong_conclusion:session', 'instantiate on a reused interpreter returned a conclusion different from the documented instantiation',
                              {'interpreter': kind, 'schema': which, 'delta': {str(i): tb.pretty(v) for i, v in delta_e.items()}, 'expected': tb.pretty(exp), 'got': tb.pretty(got),
                               'previous_call': None if prev is None else {str(i): tb.pretty(v) for i, v in prev[1].items()}})
                break


def _definite(conc_e, delta_e):
    from .c11 import _inst_definite_capture
    return _inst_definite_capture(conc_e, delta_e)

"""C14 - binary round trip: deserialising a serialised proof replays it."""
from __future__ import annotations

from .. import repo
from ..gen import calls as gc
from ..oracles import refmachine as rm
from ..oracles import tb
from . import c04
from . import modules_workload as mw

READY = True
LEVEL = 'exploration'
TECHNIQUE = 'runtime round-trip monitor: bytes emitted by the real serializer are fed through the real deserialize_instructions into a fresh serializer; re-emitted bytes, final stack/memory/claims and error behaviour on truncated/unknown input are compared'
LEVEL_TEXT = ('For random raw call sequences and for shipped/generated modules (all three phases; ESubst/SSubst, constrained metavariables, Quantifier, '
              'Generalization, Instantiate on patterns and proofs, Save/Load, Publish in every phase) the deserialiser must drive a fresh interpreter through '
              'the same steps: the bytes it re-emits must be identical phase by phase and the final tracker states must agree; every operand-cutting prefix and '
              'every inserted undefined opcode must raise.')
LEVEL_NOTE = 'Trusted: byte-for-byte equality of re-emitted streams (calls and emitted bytes are one-to-one in SerializingInterpreter); O1 expansion for state comparison.'
DESIGN_REF = 'DESIGN.md section 5 C14'
NSHARDS = 16
TIMEOUT = {'quick': 1500, 'thorough': 3 * 3600}
RULE = ('A case is one serialised triple (from a random call sequence or a module) replayed phase by phase, or one malformed variant of a phase file. '
        'distinct_nontrivial = distinct triples whose files contain an ESubst/SSubst, MetaVar with constraints, Quantifier, Generalization or Publish.')
ASSUMPTIONS = ['the tracker does not record published claims itself: before the proof phase the fresh interpreter is given the claims it was shown in the claim phase, in declared order']
FLOORS = {'quick': {'roundtrips': 1500, 'modules_with_repeated_constraint_entries': 60, 'call_sequence_states_compared': 5000, 'phase_streams:gamma': 500, 'phase_streams:claim': 500, 'phase_streams:proof': 500, 'truncations': 2000, 'unknown_opcode_insertions': 2000,
                    **{f'roundtrip_op:{n}': 100 for n in ('EVar', 'SVar', 'Symbol', 'Implies', 'App', 'Exists', 'Mu', 'MetaVar', 'CleanMetaVar', 'ESubst', 'SSubst', 'Prop1', 'Prop2', 'Prop3',
                                                          'Quantifier', 'ModusPonens', 'Generalization', 'Instantiate', 'Pop', 'Save', 'Load', 'Publish')}}}
FLOORS['thorough'] = dict(FLOORS['quick'], roundtrips=30000)


def E(x):
    Proved = repo.mod('proved').Proved
    if isinstance(x, Proved):
        return ('prf', tb.norm_py(tb.of_repo(x.conclusion)))
    return ('pat', tb.norm_py(tb.of_repo(x)))


def classify_exception(ex, op):
    return f'deserializer_raises_on_valid_input:{op}:{type(ex).__name__}'


def roundtrip(ctx, triple, claims, src):
    D = repo.mod('deserialize')
    I = repo.mod('interpreter')
    g, c, p = triple
    ctx.count('roundtrips')
    try:
        dec = {0: rm.decode(g), 1: rm.decode(c), 2: rm.decode(p)}
    except rm.Reject:
        ctx.count('serializer_output_undecodable')
        return
    for ph in (0, 1, 2):
        for ins in dec[ph]:
            ctx.count('roundtrip_op:' + ins[0])
    nontriv = any(i[0] in ('ESubst', 'SSubst', 'MetaVar', 'Quantifier', 'Generalization', 'Publish') for ph in dec for i in dec[ph])
    ctx.case(g + b'|' + c + b'|' + p, nontrivial=nontriv)
    fresh, sinks = _fresh()
    w = {'gamma': g.hex(), 'claim': c.hex(), 'proof': p.hex()[:4000], 'source': src}
    names = {0: 'gamma', 1: 'claim', 2: 'proof'}
    for ph, data in ((0, g), (1, c), (2, p)):
        ctx.count('phase_streams:' + names[ph])
        if ph == 1:
            fresh.into_claim_phase()
        elif ph == 2:
            _adopt_claims(fresh)
            fresh.into_proof_phase()
        try:
            D.deserialize_instructions(data, fresh)
        except Exception as ex:
            # which instruction was being replayed: the first one whose bytes were not re-emitted
            out = sinks[ph].value()
            op = _first_missing(dec[ph], out)
            ctx.violation(classify_exception(ex, op), f'deserialize_instructions raised {type(ex).__name__} while replaying {op} in the {names[ph]} phase',
                          dict(w, phase=names[ph], error=repr(ex)[:300], decoded=[' '.join(map(str, i)) for i in dec[ph]][:60]))
            return
        out = sinks[ph].value()
        if out != data:
            op = _first_missing(dec[ph], out)
            ctx.violation(f'replay_differs:{names[ph]}:{op}', f'replaying the {names[ph]} file through the deserialiser does not reproduce it (first difference at {op})',
                          dict(w, phase=names[ph], re_emitted=out.hex()[:4000], decoded=[' '.join(map(str, i)) for i in dec[ph]][:60]))
            return
    return fresh


def _fresh():
    """a fresh serializer that remembers the claims published to it (the tracker itself does not), so that the proof phase
    can be replayed against the claims as this interpreter saw them (symbols are renumbered by the deserialiser)"""
    fresh, sinks = gc.new_serializer([])
    fresh._pi2v_published_claims = []
    orig = fresh.publish_claim

    def publish_claim(pattern):
        fresh._pi2v_published_claims.append(pattern)
        return orig(pattern)
    fresh.publish_claim = publish_claim
    return fresh, sinks


def _adopt_claims(fresh):
    Claim = repo.mod('claim').Claim
    fresh.claims = [Claim(p) for p in reversed(fresh._pi2v_published_claims)]


def _first_missing(instrs, out):
    """name of the first instruction of the original stream that the re-emitted bytes do not reproduce"""
    try:
        got = rm.decode(out)
    except rm.Reject:
        got = []
    for i, ins in enumerate(instrs):
        if i >= len(got) or got[i] != ins:
            return ins[0]
    return 'end'


def compare_states(ctx, ser, fresh, triple, src):
    fwd, bwd = {}, {}
    w = {'gamma': triple[0].hex(), 'claim': triple[1].hex(), 'proof': triple[2].hex()[:4000], 'source': src}
    for name in ('stack', 'memory'):
        a = [E(x) for x in getattr(ser, name)]
        b = [E(x) for x in getattr(fresh, name)]
        ok = len(a) == len(b) and all(x[0] == y[0] and tb.match_symbols(x[1], y[1], fwd, bwd) for x, y in zip(a, b))
        if not ok:
            ctx.violation(f'final_{name}_differs', f'after the replay the fresh interpreter\'s {name} differs from the serializer\'s', dict(w, serializer=[tb.pretty(x[1]) for x in a][:20], replayed=[tb.pretty(x[1]) for x in b][:20]))
            return
    a = [tb.norm_py(tb.of_repo(cl.pattern)) for cl in ser.claims]
    b = [tb.norm_py(tb.of_repo(cl.pattern)) for cl in fresh.claims]
    if len(a) != len(b) or not all(tb.match_symbols(x, y, fwd, bwd) for x, y in zip(a, b)):
        ctx.violation('final_claims_differ', 'after the replay the outstanding claims differ', dict(w, serializer=[tb.pretty(x) for x in a], replayed=[tb.pretty(x) for x in b]))


def malformed(ctx, rng, triple, claims, budget):
    """truncated / unknown input must be reported as an error"""
    D = repo.mod('deserialize')
    I = repo.mod('interpreter')
    for _ in range(budget):
        ph = rng.choice((0, 1, 2, 2))
        data = triple[ph]
        if not data:
            continue
        # instruction boundaries
        bounds = [0]
        pos = 0
        while pos < len(data):
            pos = _skip(data, pos)
            bounds.append(pos)
        kind = rng.choice(('cut', 'unknown'))
        if kind == 'cut':
            # a prefix that ends inside an operand
            inner = [i for i in range(1, len(data)) if i not in bounds]
            if not inner:
                continue
            cut = rng.choice(inner)
            bad = data[:cut]
            ctx.count('truncations')
            label = 'truncated_input_accepted:' + rm.NAME.get(data[max(b for b in bounds if b < cut)], '?')
        else:
            b = rng.choice(bounds)
            opc = rng.choice([0, 1, 31, 32, 64, 100, 136, 138, 200, 255])
            bad = data[:b] + bytes([opc]) + data[b:]
            ctx.count('unknown_opcode_insertions')
            label = 'unknown_opcode_accepted:' + ('zero_byte' if opc == 0 else 'nonzero')
        fresh, sinks = _fresh()
        try:
            if ph >= 1:
                D.deserialize_instructions(triple[0], fresh)
                fresh.into_claim_phase()
            if ph == 2:
                D.deserialize_instructions(triple[1], fresh)
                _adopt_claims(fresh)
                fresh.into_proof_phase()
        except Exception:
            continue   # the well-formed part already fails: reported by roundtrip()
        try:
            D.deserialize_instructions(bad, fresh)
        except Exception:
            ctx.count('malformed_reported')
            continue
        ctx.violation(label, 'the deserialiser returned normally on malformed input', {'phase': ph, 'input': bad.hex()[:2000], 'original': data.hex()[:2000]})


def _skip(buf, pos):
    op = buf[pos]; pos += 1
    if op in (2, 3, 4, 7, 8, 10, 11, 22, 24, 29, 137):
        return pos + 1
    if op == 9:
        pos += 1
        for _ in range(5):
            pos += 1 + buf[pos]
        return pos
    if op == 26:
        return pos + 1 + buf[pos]
    return pos


class NullCtx:
    """swallows the C04 bookkeeping of one_sequence"""
    def __init__(self, ctx):
        self.rng = ctx.rng
    def count(self, *a, **k): pass
    def case(self, *a, **k): pass
    def sample(self, *a, **k): pass
    def note(self, *a, **k): pass
    def violation(self, *a, **k): pass


def shard(ctx):
    rng = ctx.rng
    null = NullCtx(ctx)
    n = ctx.scale(12800, 100000)
    for k in range(n):
        ser, triple, claims = c04.one_sequence(null, rng, memo=(k % 4 == 3))
        fresh = roundtrip(ctx, triple, claims, 'call_sequence')
        if fresh is not None:
            if getattr(ser, '_pi2v_sequence_refused', False):
                # the toolkit refused the last call by raising; what the raising call left behind in the serializer is not a state the
                # emitted bytes describe (the bytes still have to replay: roundtrip above)
                ctx.count('call_sequences_ended_by_refusal')
            else:
                ctx.count('call_sequence_states_compared')
                compare_states(ctx, ser, fresh, triple, 'call_sequence')
            malformed(ctx, rng, triple, claims, 6)
        if k % 800 == 0:
            ctx.sample({'gamma': triple[0].hex()[:100], 'claim': triple[1].hex()[:100], 'proof': triple[2].hex()[:200]})
    # modules
    sc = ctx.mkscratch()
    todo = [(name, f) for name, f in mw.shipped_modules()] if ctx.shard == 0 else []
    todo += [(f'gen{i}', None) for i in range(ctx.scale(960, 8000))]
    for name, f in todo:
        try:
            if f is None and name.endswith('7'):
                b = mw.repeated_constraint_module(rng)      # every tenth: constraint lists that name a variable twice
                ctx.count('modules_with_repeated_constraint_entries')
            else:
                b = mw.Built(f(), {'shipped'}, [name]) if f else mw.random_module(rng)
            for opt in (False, True):
                triple = mw.serialize(b.mod, sc, 'm', opt)
                fresh = roundtrip(ctx, triple, b.mod.get_claims(), f'module:{name}:opt={opt}')
                if fresh is not None:
                    malformed(ctx, rng, triple, b.mod.get_claims(), 2)
        except AssertionError:
            ctx.count('toolkit_refused')

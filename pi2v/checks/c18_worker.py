"""Worker of C18, run in a fresh process with a given PYTHONHASHSEED.

  python -m pi2v.checks.c18_worker modules <seed> <first> <count> <scratch>
  python -m pi2v.checks.c18_worker histories <seed> <first> <count> <scratch>
  python -m pi2v.checks.c18_worker translate <scratch> <file.mm>...
Prints one JSON object: {case: {file: sha256}} (and features)."""
from __future__ import annotations

import hashlib
import io
import json
import random
import sys
from contextlib import redirect_stdout
from pathlib import Path


def digest_dir(d: Path, stem=None):
    out = {}
    for f in sorted(d.iterdir()):
        if f.is_file() and (stem is None or f.name.startswith(stem)):
            out[f.suffix] = hashlib.sha256(f.read_bytes()).hexdigest()[:20]
    return out


def ser_all(mod, d: Path, name):
    from pi2v import repo
    PR = repo.mod('proof')
    d.mkdir(parents=True, exist_ok=True)
    for f in d.iterdir():
        f.unlink()
    res = {}
    big = False
    for fmt in (PR.OutputFormat.Binary, PR.OutputFormat.Pretty):
        for opt in (False, True):
            if fmt == PR.OutputFormat.Pretty and big:
                # the pretty printer dumps the whole stack after every step (quadratic); long proofs are swept in binary only
                res[f'{fmt.value}:{int(opt)}:skipped'] = 'long proof'
                continue
            sub = d / f'{fmt.value}_{int(opt)}'
            sub.mkdir(exist_ok=True)
            try:
                mod.serialize(sub / name, fmt, opt)
                import gc
                gc.collect()
                for k, v in digest_dir(sub).items():
                    res[f'{fmt.value}:{int(opt)}:{k}'] = v
                if fmt == PR.OutputFormat.Binary and (sub / (name + '.ml-proof')).stat().st_size > 2500:
                    big = True
            except AssertionError as ex:
                res[f'{fmt.value}:{int(opt)}:refused'] = 'AssertionError'
            for f in sub.iterdir():
                f.unlink()
            sub.rmdir()
    return res


def module_for(seed, i, alt_syms=False):
    from pi2v.checks import modules_workload as mw
    shipped = mw.shipped_modules()
    if i < len(shipped):
        return shipped[i][0], shipped[i][1]()
    rng = random.Random(seed * 7919 + i)
    if i % 9 == 4 and not alt_syms:
        return f'sharednot{i}', mw.shared_definition_notations_module(rng).mod
    if i % 3 == 2 and not alt_syms:
        # nested, symbol-bearing axioms under a repeatedly used super-pattern: the memoisation analysis has to rank them
        return f'nested{i}', mw.nested_axioms_module(rng).mod
    # 'other' modules of a history use partly different symbol names, in another order
    b = mw.random_module(rng, syms=('g', 'q', 'b', 'zz', 'a')) if alt_syms else mw.random_module(rng)
    return f'gen{i}', b.mod


def main():
    mode = sys.argv[1]
    out = {}
    if mode == 'modules':
        seed, first, count, scratch = int(sys.argv[2]), int(sys.argv[3]), int(sys.argv[4]), Path(sys.argv[5])
        for i in range(first, first + count):
            name, mod = module_for(seed, i)
            out[f'{i}:{name}'] = ser_all(mod, scratch, 'm')
    elif mode in ('hist_alone', 'hist_after'):
        # the same modules A_i in two fresh processes: alone (A_1, A_2, ...) and interleaved with other modules
        # (B_1, A_1, A_1, B_1, A_1, B_2, ...).  Anything that leaks from one serialisation into the next
        # (class-level tables, caches, mutated maps) makes A_i's files differ between the two processes.
        seed, first, count, scratch = int(sys.argv[2]), int(sys.argv[3]), int(sys.argv[4]), Path(sys.argv[5])
        for i in range(first, first + count):
            rng = random.Random(seed * 104729 + i)
            ia, ib = rng.randrange(6, 400), rng.randrange(0, 400)
            def grow(m):
                # one more claim with its proof (through the module's own imported lemma library)
                from pi2v import repo as _r
                Pm = _r.P()
                subs_ = [x for x in getattr(m, '_submodules', []) if hasattr(x, 'imp_refl')]
                if not subs_:
                    return False
                th = subs_[0].imp_refl(Pm.App(Pm.Symbol('zzgrown'), Pm.Symbol('a')))
                m.add_claim(th.conc)
                m.add_proof_expression(th)
                return True
            if mode == 'hist_alone':
                _, A = module_for(seed, ia)
                out[f'{i}:A={ia},B={ib}'] = {'A': ser_all(A, scratch, 'm')}
                _, Ag = module_for(seed, ia)
                if grow(Ag):
                    out[f'{i}:A={ia},B={ib}']['A+'] = ser_all(Ag, scratch, 'm')
            else:
                _, B = module_for(seed, ib, alt_syms=True)
                ser_all(B, scratch, 'm')
                # ... and a module that shows the very same patterns as A but registers no notation at all (whatever is remembered
                # about a pattern from that run must not be reused when A prints it with its own notations)
                from pi2v import repo
                _, A0 = module_for(seed, ia)
                plain = repo.mod('proof').ProofExp(axioms=list(dict.fromkeys(list(A0.get_claims()) + list(A0.get_axioms()))))
                ser_all(plain, scratch, 'm')
                # ... and one that registers only SOME of A's notations (an outer notation without the nested one and the like): a rendering
                # remembered from that run is wrong for A, whose table knows more
                nots_ = list(A0.get_notations())
                if len(nots_) >= 2:
                    half = [n_ for n_ in nots_ if rng.random() < 0.5] or nots_[:1]
                    some = repo.mod('proof').ProofExp(axioms=list(dict.fromkeys(list(A0.get_claims()) + list(A0.get_axioms()))), notations=half)
                    ser_all(some, scratch, 'm')
                _, A = module_for(seed, ia)
                res = {'B,A': ser_all(A, scratch, 'm'), 'A,A': ser_all(A, scratch, 'm')}
                ser_all(B, scratch, 'm')
                res['A,B,A'] = ser_all(A, scratch, 'm')
                # the same module object serialised, then extended by one claim, then serialised again: the second output must be
                # that of a fresh module in the extended state
                _, Ag = module_for(seed, ia)
                ser_all(Ag, scratch, 'm')
                if grow(Ag):
                    res['A,A+'] = ser_all(Ag, scratch, 'm')
                out[f'{i}:A={ia},B={ib}'] = res
    elif mode == 'histories':
        seed, first, count, scratch = int(sys.argv[2]), int(sys.argv[3]), int(sys.argv[4]), Path(sys.argv[5])
        for i in range(first, first + count):
            rng = random.Random(seed * 104729 + i)
            ia, ib = rng.randrange(6, 400), rng.randrange(0, 400)
            res = {}
            # [A]
            _, A = module_for(seed, ia)
            res['A'] = ser_all(A, scratch, 'm')
            # [B, A]  (fresh objects)
            _, B = module_for(seed, ib)
            ser_all(B, scratch, 'm')
            _, A2 = module_for(seed, ia)
            res['B,A'] = ser_all(A2, scratch, 'm')
            # [A, A] same object twice
            res['A,A'] = ser_all(A2, scratch, 'm')
            # [A, B, A] same A object again after B
            ser_all(B, scratch, 'm')
            res['A,B,A'] = ser_all(A2, scratch, 'm')
            out[f'{i}:A={ia},B={ib}'] = res
    elif mode == 'translate':
        scratch = Path(sys.argv[2])
        from proof_generation.metamath import translate
        for spec in sys.argv[3:]:
            mm, target = spec.rsplit('::', 1)
            d = scratch / 'tr'
            d.mkdir(parents=True, exist_ok=True)
            for f in d.iterdir():
                f.unlink()
            old = sys.argv
            sys.argv = ['translate', mm, str(d), target]
            try:
                with redirect_stdout(io.StringIO()):
                    translate.main()
                import gc
                gc.collect()
                out[Path(mm).name] = digest_dir(d)
            except BaseException as ex:
                out[Path(mm).name] = {'error': type(ex).__name__ + ':' + str(ex)[:100]}
            finally:
                sys.argv = old
    print(json.dumps(out))


if __name__ == '__main__':
    main()

"""C04 - the generator-side tracker is a faithful simulation of the documented machine (invariant hook M-track)."""
from __future__ import annotations

from .. import repo
from ..gen import calls as gc
from ..gen import repo_patterns as rp
from ..monitors import track
from ..oracles import tb
from . import modules_workload as mw

READY = True
LEVEL = 'exploration'
TECHNIQUE = 'invariant-at-a-hook runtime monitor on SerializingInterpreter: after every interpreter call the newly emitted bytes are executed by an independent reference machine and stack depth/top, memory, claims and Load targets are compared under a running symbol bijection'
LEVEL_TEXT = ('Random sequences of raw Interpreter calls that the stateful tracker accepts (pattern construction incl. constrained metavariables, '
              'deferred substitutions and notation, axiom schemas, instantiate with keys in every order, modus ponens, generalization, save/load/pop '
              'interleaved with publishes in all three phases), plus the shipped and generated proof modules, run on the real serializer with the hook on; '
              'every call is one observation of the simulation invariant.')
LEVEL_NOTE = 'Trusted: the reference machine O2 (A1-A11) and O1 expansion; the symbol relation is checked to be a bijection as it is built.'
DESIGN_REF = 'DESIGN.md section 5 C04, section 1 (M-track)'
NSHARDS = 16
TIMEOUT = {'quick': 1500, 'thorough': 3 * 3600}
RULE = ('A case is one call sequence (30-200 calls) over one serializer instance, or one module serialisation; the invariant is evaluated after every call. '
        'distinct_nontrivial = distinct emitted (gamma, claim, proof) byte triples that contain at least one Instantiate, Save or Load.')
ASSUMPTIONS = ['calls the documented machine cannot apply but the tracker accepts (non-positive mu, redundant substitution, constraint-violating instantiation) are generated at a low rate and classified separately']
FLOORS = {'quick': {'sequences': 1000, 'track:calls': 100000, 'track:top_comparisons': 50000, 'track:memory_comparisons': 3000, 'track:loads': 1000,
                    'track:claim_comparisons': 1000, 'instantiate_unsorted_keys': 100, 'instantiate_key_absent_from_premise': 100, 'instantiate_pattern_unsorted_keys': 50, 'twin_notation_nodes': 100, 'pending_then_binder': 100, 'pending_then_binder:binder_free_in_plug': 40, 'equal_entries_sandwich': 50, 'loaded_axiom_instantiated': 100, 'track:publishes:gamma': 500, 'track:publishes:claim': 500,
                    'track:publishes:proof': 500, 'modules_serialized': 20, 'own_tests:track_calls': 300,
                    **{f'track:call:{m}': 50 for m in track.METHODS}}}
FLOORS['thorough'] = dict(FLOORS['quick'], sequences=20000)


def route(ctx):
    track.SINK.count = lambda k, n=1: ctx.count(k, n)
    track.SINK.violation = lambda mech, summary, w: ctx.violation(mech, summary, w)


def one_sequence(ctx, rng, memo):
    P = repo.P()
    I = repo.mod('interpreter')
    # ---- plan
    axioms_e = gc.random_module_plan(rng)
    axioms = [rp.fold(a, rng, rng.choice((0.0, 0.6))) for a in axioms_e]
    claims = []   # (repo pattern, recipe)
    for i, (a, ae) in enumerate(zip(axioms, axioms_e)):
        if rng.random() < 0.5:
            claims.append((a, ('axiom', i)))
    for i, ae in enumerate(axioms_e):
        if ae[0] == 'im' and i + 1 < len(axioms_e) and tb.norm_py(axioms_e[i + 1]) == tb.norm_py(ae[1]) and rng.random() < 0.8:
            claims.append((tb.to_repo(ae[2], P), ('mp', i, i + 1)))
    for _ in range(rng.randint(0, 2)):
        p = rp.rand_term(rng, 1, meta=rng.random() < 0.4, notation=0.2, substs=False, syms=('a', 'b', 'c'), constrained=0.0)
        q = rp.rand_term(rng, 1, meta=rng.random() < 0.4, notation=0.2, substs=False, syms=('a', 'b', 'c'), constrained=0.0)
        claims.append((tb.to_repo(tb.im(p, tb.im(q, p)), P), ('prop1', p, q)))
    if rng.random() < 0.5:
        p = rp.rand_term(rng, 1, meta=False, notation=0.0, syms=('a', 'b'))
        claims.append((tb.to_repo(tb.im(p, p), P), ('imp_refl', p)))
    if rng.random() < 0.25:
        # an axiom with open metavariables - a schematic pattern, or a notation node that leaves parameters open (over a definition that is
        # itself an application of another notation with permuted parameters) - loaded in the proof and instantiated there
        from frozendict import frozendict
        notes = repo.all_notations()
        if rng.random() < 0.6:
            nt = notes[rng.choice(('syn_rand', 'syn_shift', '_and', 'equiv'))][0]
            used = sorted(nt.definition.metavars())
            bound = [i for i in range(nt.arity) if rng.random() < 0.5]
            if len([i for i in used if i not in bound]) == 0:
                bound = [i for i in bound if i != used[-1]]
            ax = P.Instantiate(nt.definition, frozendict({i: rp.fold(rp.rand_term(rng, 1, meta=False, notation=0.2, syms=('a', 'b', 'c')), rng, 0.3) for i in bound}))
        else:
            ax = rp.fold(rp.rand_term(rng, 2, meta=True, notation=0.4, substs=False, syms=('a', 'b', 'c'), constrained=0.0, mvs=(0, 1, 2)), rng, 0.6)
        ax_e = tb.of_repo(ax)
        open_ids = sorted(tb.metavar_ids(ax_e))
        if open_ids and tb.norm_py(ax_e) not in [tb.norm_py(x) for x in axioms_e]:
            keys = [i for i in open_ids if rng.random() < 0.7] or open_ids[:1]
            rng.shuffle(keys)
            delta_e = {i: rp.rand_term(rng, 1, meta=rng.random() < 0.3, notation=0.2, substs=False, syms=('a', 'b', 'c'), constrained=0.0, mvs=(0, 1, 2)) for i in keys}
            try:
                goal_e = tb.inst(ax_e, delta_e, 'strict', check='doc')
                axioms.append(ax); axioms_e.append(ax_e)
                claims.append((tb.to_repo(goal_e, P), ('inst_axiom_open', len(axioms) - 1, delta_e)))
            except tb.Undefined:
                pass
    # claims must be pairwise different (ProofExp asserts that; the tracker pops by position)
    uniq = []
    for c, r in claims:
        if tb.norm_py(tb.of_repo(c)) not in [tb.norm_py(tb.of_repo(u)) for u, _ in uniq]:
            uniq.append((c, r))
    claims = uniq
    ser, sinks = gc.new_serializer([c for c, _ in claims])
    it = ser
    if memo:
        O = repo.mod('optimizing_interpreters')
        cand = set()
        for a in axioms:
            cand.add(a)
        it = O.MemoizingInterpreter(ser, cand)
        ctx.count('sequences_memoizing')
    d = gc.Driver(rng, it, ser, hostile=0.03)
    d.is_residue = lambda i: (track.state_of(ser) is not None and i in track.state_of(ser).residue)
    try:
        # ---- gamma
        for a in axioms:
            if rng.random() < 0.4:
                d.junk()
            pa = it.pattern(a)
            d.call('publish_axiom', pa)
        if rng.random() < 0.5:
            d.junk()
        it.into_claim_phase()
        # ---- claims, reversed
        for c, _ in reversed(claims):
            if rng.random() < 0.3:
                d.junk()
            pc = it.pattern(c)
            d.call('publish_claim', pc)
        it.into_proof_phase()
        # ---- proofs
        Proved = repo.mod('proved').Proved
        for c, recipe in claims:
            for _ in range(rng.randint(0, 3)):
                r = rng.random()
                if r < 0.08:
                    pr = d.pending_then_binder()
                    d.call('pop', pr)
                elif r < 0.4:
                    d.junk()
                elif r < 0.7:
                    pr = d.inst_axiom()
                    if rng.random() < 0.4:
                        pr = d.generalize(pr)
                    if rng.random() < 0.5:
                        d.call('save', 's', pr)
                    d.call('pop', pr)
                else:
                    pr = d.imp_refl()
                    d.call('pop', pr)
            if recipe[0] == 'axiom':
                pr = Proved(axioms[recipe[1]])
                d.call('load', 'ax', pr)
            elif recipe[0] == 'mp':
                l = Proved(axioms[recipe[1]]); r_ = Proved(axioms[recipe[2]])
                d.call('load', 'ax', l)
                d.call('load', 'ax', r_)
                pr = d.call('modus_ponens', l, r_)
            elif recipe[0] == 'inst_axiom_open':
                delta = {i: it.pattern(rp.fold(v, rng, 0.3)) for i, v in recipe[2].items()}     # plugs first, in the map's order
                pr = Proved(axioms[recipe[1]])
                d.call('load', 'ax', pr)
                pr = d.call('instantiate', pr, delta)
                ctx.count('loaded_axiom_instantiated')
            elif recipe[0] == 'prop1':
                q = it.pattern(tb.to_repo(recipe[2], P))
                p = it.pattern(tb.to_repo(recipe[1], P))
                ax = d.call('prop1')
                pr = d.call('instantiate', ax, {1: q, 0: p} if rng.random() < 0.5 else {1: q, 0: p})
            else:
                pe = recipe[1]
                q = tb.sy('b'); qp = tb.im(q, pe)
                a = it.pattern(tb.to_repo(pe, P)); b = it.pattern(tb.to_repo(qp, P)); c_ = it.pattern(tb.to_repo(pe, P))
                s2 = d.call('instantiate', d.call('prop2'), {2: a, 1: b, 0: c_})
                b2 = it.pattern(tb.to_repo(qp, P)); a2 = it.pattern(tb.to_repo(pe, P))
                s1 = d.call('instantiate', d.call('prop1'), {1: b2, 0: a2})
                m1 = d.call('modus_ponens', s2, s1)
                b3 = it.pattern(tb.to_repo(q, P)); a3 = it.pattern(tb.to_repo(pe, P))
                s1b = d.call('instantiate', d.call('prop1'), {1: b3, 0: a3})
                pr = d.call('modus_ponens', m1, s1b)
            d.call('publish_proof', pr)
    except AssertionError as ex:
        # the stateful interpreter refused a call: the sequence ends here (only accepted sequences are in scope)
        ctx.count('sequence_refused_by_tracker')
        ser._pi2v_sequence_refused = True      # (a refused call may leave the tracker half-updated: users of the final state must know)
        ctx.note('sequence_refused_example', repr(ex)[:200])
    for k, v in d.counts.items():
        ctx.count(k, v)
    g, c, p = (s.value() for s in sinks)
    ctx.count('sequences')
    ctx.case(g + b'|' + c + b'|' + p, nontrivial=(b'\x1a' in p or b'\x1c' in p or b'\x1d' in p))
    if rng.random() < 0.003:
        ctx.sample({'gamma': g.hex()[:120], 'claim': c.hex()[:120], 'proof': p.hex()[:300], 'calls': len(d.journal)})
    return ser, (g, c, p), [c_ for c_, _ in claims]


def shard(ctx):
    rng = ctx.rng
    rp.IDENTITY_WRAP = 0.03     # leaves and compound nodes spelled through an identity-like notation (definition = bare metavariable)
    track.install()
    route(ctx)
    n = ctx.scale(12000, 160000)
    for k in range(n):
        one_sequence(ctx, rng, memo=(k % 4 == 3))
    # shipped + generated modules through ProofExp.serialize with the hook on
    mw.serialize_modules(ctx, rng, ctx.scale(128, 2000), shipped=(ctx.shard == 0))
    # the repository's own tests as a workload (their assertions are irrelevant; the calls flow past M-track)
    if ctx.shard == 1:
        own_tests(ctx)


OWN_TESTS = ['test_proof.py', 'test_propositional.py', 'test_memoizing_interpreter.py', 'test_instantiation_optimizer.py', 'test_pretty_printing_interpreter.py',
             'test_translate.py']


def own_tests(ctx):
    import json
    import os
    import subprocess
    import sys
    from pathlib import Path
    sc = ctx.mkscratch()
    out = sc / 'plugin.json'
    tests = [str(repo.REPO / 'generation' / 'src' / 'tests' / 'unit' / t) for t in OWN_TESTS]
    env = dict(os.environ, PI2V_PLUGIN_OUT=str(out))
    try:
        r = subprocess.run([sys.executable, '-m', 'pytest', '-q', '-p', 'no:cacheprovider', '-p', 'pi2v.monitors.plugin', '--timeout=900', *tests],
                           env=env, capture_output=True, text=True, timeout=1500, cwd=str(repo.REPO))
    except subprocess.TimeoutExpired:
        ctx.note('own_tests', 'timed out')
        return
    if not out.exists():
        ctx.note('own_tests', 'plugin wrote nothing: ' + (r.stdout + r.stderr)[-300:])
        return
    d = json.loads(out.read_text())
    ctx.count('own_tests:track_calls', d['counts'].get('track:calls', 0))
    ctx.count('own_tests:instances', d['counts'].get('track:instances', 0))
    ctx.note('own_tests_pytest_tail', (r.stdout.strip().splitlines() or ['?'])[-1][:200])
    for mech, v in d['violations'].items():
        for _ in range(min(v['count'], 3)):
            ctx.violation(mech, '[repository test-suite workload] ' + v['summary'], v['witness'])

"""C05 - the checker implements the documented machine (differential monitor: real checker vs O2)."""
from __future__ import annotations

import itertools
import subprocess

from .. import corpus
from ..gen import patterns as gp
from ..gen import streams as gs
from ..oracles import refmachine as rm
from ..oracles import tb
from ..rust import build
from ..rust.hx import Hx, hexs

READY = True
LEVEL = 'exploration'
TECHNIQUE = 'differential runtime monitoring: real checker (harness including lib.rs + checker binary) vs executable reference machine, exhaustive short programs + mutation + state-directed streams'
LEVEL_TEXT = ('Every explored byte triple is executed by the checker compiled from the current tree and by an independent '
              'reference machine written from docs/proof-language.md; verdict and final stack/memory/claims must agree. Exhaustive '
              'for short programs over the opcode alphabet, sampled beyond. Says nothing about streams not explored.')
LEVEL_NOTE = 'Trusted: the reference machine O2 with the recorded ambiguity decisions A1-A11 (DESIGN.md section 2), rustc stable instead of the pinned nightly.'
DESIGN_REF = 'DESIGN.md section 5 C05, section 4, Appendix B'
NSHARDS = {'quick': 16, 'thorough': 16}
TIMEOUT = {'quick': 1500, 'thorough': 4 * 3600}
RULE = ('Every case is a triple (gamma, claim, proof) of byte strings executed by the real checker (harness that textually '
        'includes rust/src/lib.rs: verify() for the verdict, execute_instructions() for the final state) and by the reference '
        'machine O2; a case is a violation when the verdicts differ or, on acceptance, stack/memory/claims differ. Sources: '
        'shipped snapshot triples, byte mutations of them, every prefix cut, streams directed by the checker\'s own state, '
        'and ALL byte strings up to length L over the alphabet {0..31,137,255} after fixed state-populating prefixes, in each '
        'phase. distinct_nontrivial = distinct triples (hash) that execute at least one instruction on both sides.')
ASSUMPTIONS = ['O2 (pi2v/oracles/refmachine.py) is the trusted reading of docs/proof-language.md with decisions A1-A11 of DESIGN.md',
               'rustc stable builds lib.rs as the pinned nightly would (no unsafe, no cfg on toolchain)']
EXHAUSTIVE = {'quick': 'all byte strings of length <=3 over a 35-symbol alphabet after 5 prefixes, proof phase; length <=2 in gamma/claim phases',
              'thorough': 'all byte strings of length <=4 over a 35-symbol alphabet after 5 prefixes in the proof phase; length <=3 in gamma/claim phases'}
FLOORS = {
    'quick': {'cases': 100000, 'accepted_both': 1000, 'accepted_nonempty_state': 1000, 'snapshot_accepted': 10,
              'binary_sampled': 50, 'binary_large_files': 20, 'src:large_file': 20, 'src:claim_residue_consumed_by_proof': 200, 'src:gamma_residue_consumed_by_claim': 200, 'src:operand_cut_at_end_of_phase': 2000, 'o2_reject:underflow': 10, 'o2_reject:type_confusion': 10, 'o2_reject:bad_index': 10,
              'o2_reject:truncated': 10, 'o2_reject:unknown_opcode': 10, 'o2_reject:rule': 10, 'o2_reject:side_condition': 10,
              'o2_reject:ill_formed': 10, 'o2_reject:constraint': 10, 'o2_reject:capture': 5, 'o2_reject:claim_mismatch': 10,
              'o2_reject:unproved_claims': 10, 'o2_reject:unsupported': 10},
}
FLOORS['thorough'] = dict(FLOORS['quick'], cases=2000000)

ALPHABET = list(range(0, 32)) + [137, 255]
PREFIXES = [b'', bytes([12, 28, 137, 0, 137, 1]), bytes([2, 0, 3, 0, 4, 0]), bytes([13, 12]), bytes([12, 28, 27, 14, 28])]


def prepare(tier):
    b = build.ensure(('hx', 'checker') if tier == 'quick' else ('hx', 'checker', 'hx_dbg', 'hx_asan'))
    return {'binaries': {k: str(v) for k, v in b.items()}}


def o2_run(g, c, p, constraint_mode='seq'):
    r = rm.run_triple(g, c, p, constraint_mode)
    if r[0] == 'ACCEPT':
        return 'ACCEPT', ' '.join(r[1].state_strings()), r[1]
    m = r[4]
    return 'REJECT', r[1], m


def classify(hx_ans: str, o2):
    """None if conformant, else (mechanism, summary)."""
    hv = hx_ans.split(' ', 1)[0]
    if hv == 'ABORT':
        hv = 'REJECT'
    if hv == 'ACCEPT' and o2[0] == 'REJECT':
        m = o2[2]
        opn = rm.NAME.get(m.last_op, str(m.last_op))
        if o2[1] in ('unproved_claims',):
            opn = 'end'
        return (f'checker_accepts_o2_rejects:{o2[1]}:{opn}', f'checker accepts, documented machine rejects ({o2[1]} at {opn}, phase {m.phase})')
    if hv == 'REJECT' and o2[0] == 'ACCEPT':
        cls = hx_ans.split(' ', 1)[1][:40] if ' ' in hx_ans else '?'
        return (f'checker_rejects_o2_accepts:{cls}', f'checker rejects ({cls}), documented machine accepts')
    if hv == 'ACCEPT':
        hs = hx_ans[7:]
        if hs.startswith('?dump-panic'):
            return ('verify_and_phase_runner_disagree', 'verify() accepted but phase-by-phase execution panicked')
        if hs != o2[1]:
            parts_h = gs.split_state(hs)
            parts_o = gs.split_state(o2[1])
            which = [n for n, a, b in zip(('stack', 'memory', 'claims'), parts_h, parts_o) if a != b]
            return ('state_differs:' + '+'.join(which), f'both accept, final {"+".join(which)} differ')
    return None


class Runner:
    def __init__(self, ctx):
        self.ctx = ctx
        self.hx = Hx('hx')
        self.buf = []
        self.for_binary = []

    def add(self, g, c, p, src):
        self.buf.append((g, c, p, src))
        if len(self.buf) >= 4000:
            self.flush()

    def flush(self):
        ctx = self.ctx
        buf, self.buf = self.buf, []
        if not buf:
            return
        answers = self.hx.run_triples([(g, c, p) for g, c, p, _ in buf])
        for (g, c, p, src), a in zip(buf, answers):
            o2 = o2_run(g, c, p)
            m = o2[2]
            ctx.count('cases')
            ctx.count('src:' + src)
            if a.startswith('ABORT'):
                ctx.count('checker_process_abort')
            for n in set(m.executed):
                ctx.count('o2_exec:' + n)
            nontrivial = bool(m.executed)
            ctx.case(g + b'|' + c + b'|' + p, nontrivial)
            if o2[0] == 'REJECT':
                ctx.count('o2_reject:' + o2[1])
            else:
                ctx.count('accepted_o2')
            if src == 'snapshot' and a.startswith('ACCEPT') and o2[0] == 'ACCEPT':
                ctx.count('snapshot_accepted')
            if a.startswith('ACCEPT'):
                ctx.count('accepted_checker')
                if o2[0] == 'ACCEPT':
                    ctx.count('accepted_both')
                    if m.stack or m.memory:
                        ctx.count('accepted_nonempty_state')
            v = classify(a, o2)
            if v:
                # A5: would the set reading of constraint lists change the O2 verdict?  report only
                ctx.violation(v[0], v[1], {'gamma': g.hex(), 'claim': c.hex(), 'proof': p.hex(), 'checker': a[:400],
                                          'o2': [o2[0], o2[1][:400]], 'source': src,
                                          'decoded_proof': _safe_decode(p)})
            elif self.ctx.rng.random() < 0.0005:
                ctx.sample({'source': src, 'gamma': g.hex()[:80], 'claim': c.hex()[:80], 'proof': p.hex()[:160],
                            'checker': a[:120], 'o2': o2[0] + ' ' + o2[1][:100]})
            if src == 'large_file' or (len(self.for_binary) < 400 and self.ctx.rng.random() < (0.5 if src.startswith('snapshot') else 0.002)):
                self.for_binary.append((g, c, p, a.split(' ', 1)[0]))

    def close(self):
        self.flush()
        self.hx.close()


def _safe_decode(p):
    try:
        return [' '.join(map(str, i)) for i in rm.decode(p)][:80]
    except rm.Reject as e:
        return f'undecodable: {e.cls}'


def directed_streams(ctx, runner, n):
    """streams directed by the checker's own state, in all three phases"""
    hx = Hx('hx')
    d = gs.Director(ctx.rng, hostile=0.5)
    for k in range(n):
        phase_mode = ctx.rng.choice(('proof', 'proof', 'full'))
        sess = gs.CheckerSession(hx, 2)
        steps = ctx.rng.randint(8, 40)
        fail_code = b''
        kinds = []
        for _ in range(steps):
            kind, code = d.next(sess)
            kinds.append(kind)
            if not sess.step(code):
                fail_code = code
                ctx.count('directed_rejected_step:' + kind)
                break
            ctx.count('directed_ok_step:' + kind)
        trace = bytes(sess.trace)
        if phase_mode == 'proof':
            runner.add(b'', b'', trace + fail_code, 'directed')
            if fail_code:
                runner.add(b'', b'', trace, 'directed_prefix')
        else:
            # make it a full triple: the proved entries that were saved become claims (reverse order), and get published
            prfs = [t for tag, t in sess.memory if tag == 'prf'][:ctx.rng.randint(1, 3)]
            if not prfs:
                runner.add(b'', b'', trace, 'directed')
                continue
            axiom = gp.rand_concrete(ctx.rng, 2)
            gamma = gs.emit(axiom) + b'\x1e'
            claim = b''.join(gs.emit(t) + b'\x1e' for t in reversed(prfs))
            # memory slot 0 is now the axiom: the saved slots shift by one -> rebuild loads by searching memory
            proof = bytearray(_shift_loads(trace, 1))
            mem_terms = [t for _, t in sess.memory]
            for t in prfs:
                idx = [i for i, (tag, u) in enumerate(sess.memory) if tag == 'prf' and u == t][0] + 1
                if idx < 256:
                    proof += bytes([29, idx, 30])
            runner.add(gamma, claim, bytes(proof), 'directed_full')
            # claim order wrong / one claim left
            if len(prfs) > 1:
                claim2 = b''.join(gs.emit(t) + b'\x1e' for t in prfs)
                runner.add(gamma, claim2, bytes(proof), 'directed_full_claimorder')
            runner.add(gamma, claim + gs.emit(tb.ev(0)) + b'\x1e', bytes(proof), 'directed_full_extra_claim')
    hx.close()


def _shift_loads(trace: bytes, by: int) -> bytes:
    """re-encode a trace with every Load index shifted (the trace must decode)"""
    out = bytearray()
    for ins in rm.decode(trace):
        op = rm.OP[ins[0]]
        if ins[0] == 'Load':
            out += bytes([op, min(255, ins[1] + by)])
        elif ins[0] == 'MetaVar':
            out += bytes([op, ins[1]])
            for l in ins[2:]:
                out += bytes([len(l), *l])
        elif ins[0] == 'Instantiate':
            out += bytes([op, len(ins[1]), *ins[1]])
        else:
            out += bytes([op, *ins[1:]])
    return bytes(out)


def shard(ctx):
    runner = Runner(ctx)
    snaps = corpus.snapshot_triples()
    rng = ctx.rng

    # (i) shipped triples, each also through the real checker binary
    if ctx.shard == 0:
        for name, g, c, p in snaps:
            runner.add(g, c, p, 'snapshot')
            a = None
        runner.flush()
    # count accepted snapshots
    # (ii) mutations + prefix cuts of shipped triples
    small = [s for s in snaps if len(s[3]) < 6000]
    nmut = ctx.scale(200000, 3000000)
    for k in range(nmut):
        name, g, c, p = small[(k + ctx.shard) % len(small)]
        which = rng.random()
        if which < 0.6:
            runner.add(g, c, gs.mutate(rng, p), 'mutant_proof')
        elif which < 0.8:
            runner.add(g, gs.mutate(rng, c), p, 'mutant_claim')
        else:
            runner.add(gs.mutate(rng, g), c, p, 'mutant_gamma')
    ncut = ctx.scale(20000, 200000)
    for k in range(ncut):
        name, g, c, p = small[(k + ctx.shard) % len(small)]
        f = rng.choice((0, 1, 2, 2))
        parts = [g, c, p]
        if parts[f]:
            parts[f] = parts[f][:rng.randrange(len(parts[f]))]
        runner.add(*parts, 'prefix_cut')

    # (iii) directed streams
    directed_streams(ctx, runner, ctx.scale(8000, 120000))

    # (iv) exhaustive short programs
    Lp = 3 if ctx.quick else 4
    Lo = 2 if ctx.quick else 3
    idx = 0
    for phase, L in ((2, Lp), (0, Lo), (1, Lo)):
        for pre in PREFIXES:
            for n in range(0, L + 1):
                for prog in itertools.product(ALPHABET, repeat=n):
                    idx += 1
                    if idx % ctx.nshards != ctx.shard:
                        continue
                    code = pre + bytes(prog)
                    if phase == 2:
                        runner.add(b'', b'', code, 'exhaustive_proof')
                    elif phase == 0:
                        runner.add(code, b'', b'', 'exhaustive_gamma')
                    else:
                        runner.add(b'', code, b'', 'exhaustive_claim')

    # (v) structured malformations around each instruction of decoded snapshot proofs
    for name, g, c, p in small:
        try:
            ins = rm.decode(p)
        except rm.Reject:
            continue
        # instruction boundaries
        bounds = [0]
        pos = 0
        m = rm.Machine()
        try:
            while pos < len(p):
                # decode-only stepping to find boundaries
                pos = _skip(p, pos)
                bounds.append(pos)
        except rm.Reject:
            pass
        take = ctx.scale(400, 6000) // max(1, len(small))
        for _ in range(take):
            b = rng.choice(bounds)
            r = rng.random()
            if r < 0.3:
                runner.add(g, c, p[:b] + bytes([rng.choice((0, 1, 31, 32, 100, 136, 138, 200, 255))]) + p[b:], 'unknown_opcode_inserted')
            elif r < 0.5:
                runner.add(g, c, p[:b] + bytes([rng.choice((16, 17, 18, 20, 23, 25))]) + p[b:], 'unsupported_inserted')
            elif r < 0.7:
                runner.add(g, c, p[:b] + b'\x1b' + p[b:], 'pop_inserted')
            elif r < 0.85:
                runner.add(g, c, p[:b] + bytes([29, rng.choice((200, 255, 50))]) + p[b:], 'bad_load_inserted')
            else:
                runner.add(g, c, p[:b] + bytes([rng.choice((12, 13, 2)), 0][:rng.choice((1, 2))]) + p[b:], 'push_inserted')
    # (vi) every operand-carrying instruction as the LAST instruction of a phase file, cut at every byte inside its operands
    #      (a truncated operand must be rejected wherever it is, also at the very end of the input)
    for _ in range(ctx.scale(1600, 40000)):
        kind = rng.choice(('one', 'one', 'metavar', 'metavar', 'instantiate'))
        if kind == 'one':
            op = rng.choice((2, 3, 4, 7, 8, 10, 11, 22, 24, 29, 137))
            pre = {7: bytes([4, 0]), 8: bytes([4, 0]), 10: bytes([4, 0, 137, 0]), 11: bytes([4, 0, 137, 0]), 22: bytes([12]), 24: bytes([4, 0, 12]),
                   29: bytes([12, 28, 27])}.get(op, b'')
            ins = bytes([op, rng.choice((0, 1, 2))])
        elif kind == 'metavar':
            lists = [[rng.choice((0, 1, 2, 3)) for _ in range(rng.choice((0, 0, 1, 2, 3)))] for _ in range(5)]
            if rng.random() < 0.5:
                lists[4] = [rng.choice((4, 5, 6)) for _ in range(rng.randint(1, 3))]   # non-empty last list, disjoint from e_fresh
                lists[0] = [v for v in lists[0] if v not in lists[4]]
            ins = bytes([9, rng.choice((0, 1, 2))])
            for l in lists:
                ins += bytes([len(l), *l])
            pre = b''
        else:
            n = rng.randint(1, 3)
            pre = b''.join(bytes([4, i]) for i in range(n)) + bytes([rng.choice((12, 13))])
            ins = bytes([26, n, *[rng.choice((0, 1, 2)) for _ in range(n)]])
        phase = rng.choice((0, 1, 2))
        for cut in range(1, len(ins) + 1):
            code = pre + ins[:cut]
            trip = [b'', b'', b'']
            trip[phase] = code
            runner.add(*trip, 'operand_cut_at_end_of_phase' if cut < len(ins) else 'operand_complete_at_end_of_phase')
    # (vii) what one phase leaves on its stack must be gone when the next phase starts ("between phases the stack is cleared"):
    #       a phase ends with k unconsumed patterns, the next one begins by popping / consuming operands it never pushed
    PROP1_CLAIM = gs.emit(tb.im(tb.mv(0), tb.im(tb.mv(1), tb.mv(0)))) + b'\x1e'
    for _ in range(ctx.scale(800, 20000)):
        k = rng.randint(1, 3)
        residue = b''.join(gs.emit(gp.rand_concrete(rng, rng.randint(0, 1), syms=(0, 1))) for _ in range(k))
        consume = rng.choice((b'\x1b', b'\x1b' * k, b'\x05', b'\x06', bytes([8, 0]), bytes([28]), bytes([12, 26, 1, 0]), bytes([137, 0, 10, 0])))
        if rng.random() < 0.5:
            # residue of the claim phase, consumed by the proof phase (after a legitimate proof of the one claim, or before it)
            claim = (residue + PROP1_CLAIM) if rng.random() < 0.5 else (PROP1_CLAIM + residue)
            proof = rng.choice((b'\x0c\x1e' + consume, consume + b'\x0c\x1e', b'\x0c' + consume + b'\x1b\x0c\x1e'))
            runner.add(b'', claim, proof, 'claim_residue_consumed_by_proof')
        else:
            # residue of the gamma phase, consumed by the claim phase
            gamma = residue if rng.random() < 0.5 else (gs.emit(tb.sy(0)) + b'\x1e' + residue)
            runner.add(gamma, consume + PROP1_CLAIM, b'\x0c\x1e', 'gamma_residue_consumed_by_claim')
        if rng.random() < 0.3:
            runner.add(b'', residue + PROP1_CLAIM, b'\x0c\x1e', 'claim_residue_unused')     # control: accepted by both
    # (viii) inputs longer than any I/O buffer (> 64 KiB per file): everything up to the last byte is executed
    if ctx.shard < 4:
        pad = bytes([2, 0, 27]) * rng.randint(21900, 30000)        # (EVar 0; Pop)* : leaves the stack as it was
        for g_, c_, p_ in ((b'', PROP1_CLAIM, b'\x0c\x1e' + pad + b'\xff'),            # unknown opcode after 64 KiB
                           (b'', PROP1_CLAIM, b'\x0c\x1e' + pad + b'\x1b'),            # underflow after 64 KiB
                           (b'', PROP1_CLAIM, pad + b'\x0c\x1e'),                      # the only Publish comes late
                           (b'', PROP1_CLAIM, b'\x0c\x1e' + pad),                      # control
                           (b'', PROP1_CLAIM + pad + bytes([2, 0, 30]), b'\x0c\x1e'),    # a second, unprovable claim declared late
                           (pad + b'\xff', PROP1_CLAIM, b'\x0c\x1e'),
                           (pad + gs.emit(tb.im(tb.sy(0), tb.sy(0))) + b'\x1e', gs.emit(tb.im(tb.sy(0), tb.sy(0))) + b'\x1e', bytes([29, 0, 30]))):  # axiom published late, then used
            runner.add(g_, c_, p_, 'large_file')
    runner.close()

    # real checker binary on files: exit status must agree with the harness verdict
    bins = build.ensure(('checker',))
    sc = ctx.mkscratch()
    for i, (g, c, p, hv) in enumerate([t for t in runner.for_binary if len(t[0]) + len(t[1]) + len(t[2]) > 60000] + runner.for_binary[:ctx.scale(1200, 4000) + 20]):
        (sc / 'g').write_bytes(g); (sc / 'c').write_bytes(c); (sc / 'p').write_bytes(p)
        try:
            r = subprocess.run([str(bins['checker']), str(sc / 'g'), str(sc / 'c'), str(sc / 'p')], capture_output=True, timeout=120)
        except subprocess.TimeoutExpired:
            ctx.count('binary_timeout')
            continue
        ctx.count('binary_sampled')
        if len(g) + len(c) + len(p) > 60000:
            ctx.count('binary_large_files')
        bv = 'ACCEPT' if r.returncode == 0 else 'REJECT'
        if hv == 'ABORT':
            hv = 'REJECT'
        if bv != hv:
            ctx.violation('binary_disagrees_with_harness', f'checker binary says {bv}, harness verify() says {hv}',
                          {'gamma': g.hex(), 'claim': c.hex(), 'proof': p.hex(), 'rc': r.returncode, 'stderr': r.stderr[-300:].decode('utf8', 'replace')})
        if i % 7 == 0 and not c:
            # two-argument form: gamma proof
            r2 = subprocess.run([str(bins['checker']), str(sc / 'g'), str(sc / 'p')], capture_output=True, timeout=120)
            ctx.count('binary_two_arg_sampled')
            if (r2.returncode == 0) != (r.returncode == 0):
                ctx.violation('binary_two_arg_form_differs', 'two-argument invocation differs from three-argument with empty claims',
                              {'gamma': g.hex(), 'proof': p.hex()})

    # thorough: replay a sample on the overflow-checking and AddressSanitizer builds (watchdogs, not deciders)
    if not ctx.quick:
        sample = [(g, c, p) for g, c, p, hv in runner.for_binary[:300]]
        for variant in ('hx_dbg', 'hx_asan'):
            try:
                h2 = Hx(variant)
            except Exception as e:
                ctx.note(f'{variant}_unavailable', repr(e)[:200])
                continue
            base = Hx('hx')
            a1 = base.run_triples(sample)
            a2 = h2.run_triples(sample)
            base.close(); h2.close()
            for (g, c, p), x, y in zip(sample, a1, a2):
                ctx.count(f'{variant}_replayed')
                if x.split(' ')[0] != y.split(' ')[0] and not (x.startswith('ABORT') or y.startswith('ABORT')):
                    ctx.violation(f'{variant}_verdict_differs', f'{variant} build disagrees with release build',
                                  {'gamma': g.hex(), 'claim': c.hex(), 'proof': p.hex(), 'release': x[:200], variant: y[:200]})
                if y.startswith('ABORT') and not x.startswith('ABORT'):
                    ctx.count(f'{variant}_abort_events')
                    ctx.note(f'{variant}_abort_example', y[:300])


def _skip(buf, pos):
    op = buf[pos]; pos += 1
    if op in (2, 3, 4, 7, 8, 10, 11, 22, 24, 29, 137):
        return pos + 1
    if op == 9:
        pos += 1
        for _ in range(5):
            pos += 1 + buf[pos]
        return pos
    if op == 26:
        return pos + 1 + buf[pos]
    return pos


def replay(w):
    wit = w['witness']
    g, c, p = bytes.fromhex(wit['gamma']), bytes.fromhex(wit['claim']), bytes.fromhex(wit['proof'])
    h = Hx('hx')
    a = h.run_triples([(g, c, p)])[0]
    h.close()
    o2 = o2_run(g, c, p)
    print('checker:', a[:500])
    print('O2     :', o2[0], o2[1][:500])
    v = classify(a, o2)
    print('verdict:', v)
    return v is not None

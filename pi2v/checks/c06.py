"""C06 - freshness / positivity judgements are sound for every constraint-respecting instantiation."""
from __future__ import annotations

from frozendict import frozendict

from .. import repo
from ..gen import patterns as gp
from ..gen import repo_patterns as rp
from ..oracles import tb
from ..rust import build
from ..rust.hx import Hx, spaced

READY = True
LEVEL = 'exploration'
TECHNIQUE = 'runtime monitoring of the real judgement functions (Rust e_fresh/s_fresh/positive/negative via the include-based harness; Python evar_is_free on every Pattern class) against free-variable/polarity computation on sampled constraint-respecting concrete instances'
LEVEL_TEXT = ('One-sided soundness oracle: whenever a real judgement answers True for (meta-pattern, variable), a batch of admissible concrete '
              'instantiations (pending substitutions resolved capture-avoidingly) is computed by the independent term algebra and the variable '
              'must indeed be fresh / occur only with the judged polarity in each; Python answers must also coincide on a notation spelling and '
              'its expansion. Bounded-exhaustive over small meta-patterns, random beyond. A conservative False is never an alarm.')
LEVEL_NOTE = 'Trusted: O1 free variables / polarity on concrete patterns, capture-avoiding substitution (self-checked against the substitution lemma), admissibility of sampled instances.'
DESIGN_REF = 'DESIGN.md section 5 C06'
NSHARDS = 16
TIMEOUT = {'quick': 1500, 'thorough': 3 * 3600}
RULE = ('Cases are (meta-pattern P, variable v, judgement J). P ranges over all meta-patterns with <=4 (thorough 5) nodes over 2 element variables, '
        '2 set variables, 1 symbol and 4 metavariables with different constraint lists (well-formed and redundant deferred substitutions both), '
        'and random patterns up to depth 5 with stacked substitutions; on the Python side additionally notation spellings. Each True answer is '
        'tested on up to 24 admissible instances. distinct_nontrivial = distinct (P, v, J) with J answering True and P containing a metavariable or binder.')
ASSUMPTIONS = ['instances are drawn from a finite pool of small concrete patterns biased to the variables in play; app_ctx_holes are empty (A11)']
EXHAUSTIVE = {'quick': 'all meta-patterns with <=4 nodes (see rule) x variables {0,1} x 4 Rust judgements', 'thorough': 'same with <=5 nodes'}
FLOORS = {'quick': {'py:stacked_same_variable_substitutions': 5000, 'rust:e_fresh:true': 500, 'rust:s_fresh:true': 500, 'rust:positive:true': 500, 'rust:negative:true': 500, 'rust:instances_checked': 20000,
                    'rust:stacked_substitutions': 200, 'py:evar_is_free:true': 2000, 'py:instances_checked': 20000, 'py:notation_cases': 200,
                    'py:class:EVar': 100, 'py:class:SVar': 100, 'py:class:Symbol': 100, 'py:class:Implies': 500, 'py:class:App': 500, 'py:class:Exists': 500, 'py:class:Mu': 300,
                    'py:class:MetaVar': 300, 'py:class:ESubst': 200, 'py:class:SSubst': 200, 'py:class:Instantiate': 200, 'py:notation_vs_expansion': 1000, 'py:partial_instantiate_nodes': 200}}
FLOORS['thorough'] = dict(FLOORS['quick'])

MVARS = [tb.mv(0), tb.mv(1, (0,), (), (), (), ()), tb.mv(2, (), (), (0,), (), ()), tb.mv(3, (), (1,), (), (0,), ())]


def prepare(tier):
    b = build.ensure(('hx',))
    return {'binaries': {k: str(v) for k, v in b.items()}}


def instances(rng, P, pool, n):
    out = []
    seen = set()
    for _ in range(n * 2):
        th = gp.admissible_instance(rng, P, pool)
        if th is None:
            return out
        key = tuple(sorted(th.items()))
        if key in seen:
            continue
        seen.add(key)
        try:
            t = tb.inst(P, th, 'alpha') if th else P
            if not tb.is_concrete(t):
                t = tb.resolve(t, 'alpha')
        except tb.Undefined:
            continue
        if tb.is_concrete(t):
            out.append((th, t))
        if len(out) >= n or not th:
            break
    return out


def refute(judgement, t, v):
    """is the True answer of `judgement` false on the concrete instance t?"""
    if judgement in ('e_fresh', 'evar_is_free'):
        return v in tb.fv_e(t)
    if judgement == 's_fresh':
        return v in tb.fv_s(t)
    if judgement == 'positive':
        return not tb.positive_conc(t, v)
    if judgement == 'negative':
        return not tb.negative_conc(t, v)
    raise AssertionError(judgement)


def classify(P, judgement, side):
    """mechanism key: which constructor the unsound answer comes from (outermost node that still answers True wrongly is not
    computable cheaply; use the set of meta constructors present)"""
    s = tb.show(P)
    feats = [k for k, tok in (('ssubst', '(ss '), ('esubst', '(es '), ('mu', '(mu '), ('exists', '(ex ')) if tok in s]
    return f'{side}_{judgement}_unsound:' + ('+'.join(feats[:2]) if feats else 'plain')


def stacked_same_variable(rng, sym):
    """two (or three) pending substitutions for the SAME variable stacked on one metavariable, the inner plug mentioning that variable
    again (so the outer one is not vacuous), the outer plug bringing in yet another variable; constraint lists chosen so that the
    interesting variables are fresh in the metavariable itself"""
    kind = rng.choice('es')
    i = rng.choice((0, 1))
    x, y = rng.sample((0, 1, 2), 2)
    V, S = (tb.ev, 'es') if kind == 'e' else (tb.sv, 'ss')
    mk = tb.es if kind == 'e' else tb.ss
    fresh = tuple(sorted({y} | ({x} if rng.random() < 0.2 else set())))
    base = tb.mv(i, ef=fresh if kind == 'e' else (), sf=fresh if kind == 's' else (),
                 pos=tuple(v for v in (0, 1, 2) if rng.random() < 0.2), neg=tuple(v for v in (0, 1, 2) if rng.random() < 0.2))
    s_ = tb.sy(sym)
    p1 = rng.choice((tb.ap(V(x), V(x)), tb.ap(s_, V(x)), tb.im(V(x), s_), tb.ap(V(x), s_)))
    p2 = rng.choice((V(y), tb.ap(s_, V(y)), tb.im(V(y), V(y)), tb.neg(V(y))))
    e = mk(mk(base, x, p1), x, p2)
    if rng.random() < 0.3:
        e = mk(e, rng.choice((x, y, 3 - x - y)), rng.choice((s_, V(x), V(y))))
        if e[3] == V(e[2]):
            e = e[1]
    r = rng.random()
    if r < 0.3:
        e = tb.im(e, s_)
    elif r < 0.5:
        e = tb.ap(s_, e)
    elif r < 0.6:
        e = tb.ex(rng.choice((x, y)), e) if kind == 'e' else tb.im(tb.im(e, s_), s_)
    return e


def shard(ctx):
    rng = ctx.rng
    rp.IDENTITY_WRAP = 0.03     # leaves and compound nodes spelled through an identity-like notation (definition = bare metavariable)
    pool = gp.concrete_pool(rng, 200, 3, evs=(0, 1, 2), svs=(0, 1, 2), syms=(0,))
    pool_py = gp.concrete_pool(rng, 200, 3, evs=(0, 1, 2), svs=(0, 1, 2), syms=('a', 'b'))
    NINST = 12 if ctx.quick else 24

    # ------------------------------------------------------------------ Rust
    hx = Hx('hx')
    pats = []
    small = gp.enum_meta(4 if ctx.quick else 5, evs=(0, 1), svs=(0, 1), syms=(0,), mvars=MVARS, wf=False)
    for i, e in enumerate(small):
        if i % ctx.nshards == ctx.shard:
            pats.append((e, 'exhaustive'))
    for _ in range(ctx.scale(96000, 1000000)):
        e = gp.rand_meta(rng, rng.randint(2, 5), syms=(0,), wf=rng.random() < 0.7, constrained=0.6)
        if tb.size(e) <= 80:
            pats.append((e, 'random'))
    for _ in range(ctx.scale(8000, 60000)):
        pats.append((stacked_same_variable(rng, 0), 'random'))
    reqs = []
    meta = []
    for e, src in pats:
        se = spaced(tb.show(e))
        vs = (0, 1) if src == 'exhaustive' else (rng.choice((0, 1, 2)),)
        for v in vs:
            for j in ('e_fresh', 's_fresh', 'positive', 'negative'):
                reqs.append(f'FN {j} {se} {v}')
                meta.append((e, v, j, src))
    answers = hx.batch(reqs)
    hx.close()
    for (e, v, j, src), ans in zip(meta, answers):
        ctx.count('rust:calls')
        if ans == 'BOOL 0':
            ctx.count(f'rust:{j}:false')
            ctx.case((j, tb.show(e), v), nontrivial=False)
            continue
        if ans != 'BOOL 1':
            ctx.count('rust:other_answer')
            ctx.note('rust_other_answer_example', ans[:200])
            continue
        ctx.count(f'rust:{j}:true')
        s = tb.show(e)
        if s.count('(es ') + s.count('(ss ') >= 2:
            ctx.count('rust:stacked_substitutions')
        ctx.case((j, s, v), nontrivial=('(mv ' in s or '(ex ' in s or '(mu ' in s))
        for th, t in instances(rng, e, pool, NINST):
            ctx.count('rust:instances_checked')
            if refute(j, t, v):
                ctx.violation(classify(e, j, 'rust'), f'{j}({tb.pretty(e)}, {v}) is True but the admissible instance {tb.pretty(t)} refutes it',
                              {'judgement': j, 'pattern': s, 'var': v, 'theta': {str(k): tb.show(x) for k, x in th.items()}, 'instance': tb.show(t), 'source': src})
                break
    # ------------------------------------------------------------------ Python
    P = repo.P()
    n = ctx.scale(160000, 1500000)
    small_py = gp.enum_meta(4 if ctx.quick else 5, evs=(0, 1), svs=(0,), syms=('a',), mvars=MVARS[:2], wf=False)
    cases = [(e, 'exhaustive') for i, e in enumerate(small_py) if i % ctx.nshards == ctx.shard]
    for _ in range(n):
        if rng.random() < 0.5:
            e = rp.rand_term(rng, rng.randint(1, 4), meta=True, notation=0.35, constrained=0.5)
        else:
            e = gp.rand_meta(rng, rng.randint(1, 5), syms=('a', 'b'), wf=rng.random() < 0.7, constrained=0.6)
        if tb.size(e) <= 120:
            cases.append((e, 'random'))
    for _ in range(ctx.scale(12000, 90000)):
        cases.append((stacked_same_variable(rng, 'a'), 'random'))
        ctx.count('py:stacked_same_variable_substitutions')
    for e, src in cases:
        spell = []
        if src == 'random' and rng.random() < 0.2 and tb.metavar_ids(e):
            # a partial Instantiate node: a (folded) base with only some of its metavariables bound by the node
            ids = sorted(tb.metavar_ids(e))
            keys = [i for i in ids if rng.random() < 0.5] or ids[:1]
            inner = {i: rp.rand_term(rng, 1, meta=True, notation=0.2, substs=False, mvs=(0, 1, 2, 3)) for i in keys}
            node = P.Instantiate(rp.fold(e, rng, 0.5), frozendict({i: rp.fold(v, rng, 0.3) for i, v in inner.items()}))
            try:
                e = tb.norm_py(tb.inst(e, inner, 'strict'))   # A10: the toolkit drops a substitution on a metavariable declaring the variable fresh
            except tb.Capture:
                ctx.count('py:partial_node_expansion_undefined')
                continue
            if tb.size(e) > 150:
                continue
            ctx.count('py:partial_instantiate_nodes')
            er = tb.to_repo(e, P)
            spell.append((er, 'plain'))
            spell.append((node, 'notation'))
            ctx.count('py:notation_cases')
        else:
            er = tb.to_repo(e, P)
            spell.append((er, 'plain'))
            if src == 'random':
                f = rp.fold(e, rng, 0.8)
                if rp.notation_depth(f) > 0:
                    spell.append((f, 'notation'))
                    ctx.count('py:notation_cases')
        vs = (0, 1) if src == 'exhaustive' else (rng.choice((0, 1, 2)),)
        for v in vs:
            answers = []
            for p, how in spell:
                ctx.count('py:class:' + type(p).__name__)
                try:
                    a = p.evar_is_free(v)
                except Exception as ex:
                    ctx.violation('py_evar_is_free_raises:' + type(p).__name__, f'evar_is_free raised {type(ex).__name__}', {'pattern': str(p), 'var': v, 'error': repr(ex)})
                    a = None
                answers.append(a)
                # sub-patterns of every class get judged as well (the monitor sees the recursive calls through their results)
            if len(answers) == 2:
                ctx.count('py:notation_vs_expansion')
                if answers[0] != answers[1] and None not in answers:
                    ctx.violation('py_evar_is_free_differs_on_notation', f'evar_is_free({v}) is {answers[1]} on the notation spelling and {answers[0]} on the expansion',
                                  {'pattern': str(spell[1][0]), 'expansion': tb.show(e), 'var': v})
            for (p, how), a in zip(spell, answers):
                if a is not True:
                    if a is False:
                        ctx.count('py:evar_is_free:false')
                    ctx.case(('py', tb.show(e), v, how), nontrivial=False)
                    continue
                ctx.count('py:evar_is_free:true')
                s = tb.show(e)
                ctx.case(('py', s, v, how), nontrivial=('(mv ' in s or '(ex ' in s))
                for th, t in instances(rng, e, pool_py, NINST):
                    ctx.count('py:instances_checked')
                    if refute('evar_is_free', t, v):
                        ctx.violation(classify(e, 'evar_is_free', 'py') + (':notation' if how == 'notation' else ''),
                                      f'evar_is_free({v}) is True on {p} but the admissible instance {tb.pretty(t)} has x{v} free',
                                      {'pattern': str(p), 'expansion': s, 'var': v, 'theta': {str(k): tb.show(x) for k, x in th.items()}, 'instance': tb.show(t), 'spelling': how})
                        break
        if rng.random() < 0.0005:
            ctx.sample({'pattern': tb.pretty(e)[:200], 'source': src})

"""C19 - pretty-printed notation shows the arguments it depends on; pretty steps mirror binary steps."""
from __future__ import annotations

import functools
import re

from .. import repo
from ..gen import repo_patterns as rp
from ..oracles import refmachine as rm
from ..oracles import tb
from . import modules_workload as mw

READY = True
LEVEL = 'exploration'
TECHNIQUE = 'runtime monitor on Notation.print_instantiation (injectivity log checked offline) plus an offline checker that aligns the step lines of the pretty files with the reference machine\'s decoding of the binary files of the same module'
LEVEL_TEXT = ('R1: every shipped notation and the generated families are printed at argument tuples with pairwise distinct renderings (positions varied one at a '
              'time and together); two applications of one notation with different expansions and different argument renderings must print differently. The same '
              'predicate is evaluated over every print_instantiation call observed while modules are pretty-printed. R2: for shipped and generated modules and both '
              'optimise settings the instruction keywords and operands listed in .pretty-gamma/-claim/-proof must match, one to one and in order, the instructions '
              'decoded from .ml-gamma/-claim/-proof.')
LEVEL_NOTE = 'Trusted: O1 expansion to decide whether two applications denote different patterns; the decoder of the reference machine; the line grammar of the pretty printer (step line = no leading tab, first token an instruction keyword).'
DESIGN_REF = 'DESIGN.md section 5 C19'
NSHARDS = 16
TIMEOUT = {'quick': 1500, 'thorough': 3 * 3600}
RULE = ('R1 cases: (notation, pair of argument tuples). R2 cases: (module, optimize, phase file). distinct_nontrivial = distinct (notation, tuple pair) whose expansions '
        'differ plus distinct module files with at least 5 steps.')
ASSUMPTIONS = ['arguments in positions the definition does not depend on may legitimately be hidden', 'Instantiate keys are compared up to the documented reversal between the two formats']
FLOORS = {'quick': {'r1_pairs': 3000, 'modules_with_repeated_constraint_entries': 16, 'r1_pairs_different_expansion': 2000, 'r2_files_compared': 400, 'r2_steps_compared': 10000, 'mprint_calls': 2000, 'r1_instantiated_applications': 100, 'r1_unsorted_key_applications': 50, 'r1_self_nested_pairs': 30, 'r1_partial_then_instantiated_applications': 20,
                    'family:propositional': 500, 'family:definedness': 400, 'family:kore': 1500, 'family:forall': 100, 'family:sorted_exists': 100, 'family:kore_exists': 100, 'family:nary_app': 300}}
FLOORS['thorough'] = dict(FLOORS['quick'])

KEYWORDS = {'EVar': 'EVar', 'SVar': 'SVar', 'Symbol': 'Symbol', 'MetaVar': 'MetaVar', 'Implies': 'Implies', 'App': 'App', 'Exists': 'Exists', 'Mu': 'Mu',
            'ESubst': 'ESubst', 'SSubst': 'SSubst', 'Prop1': 'Prop1', 'Prop2': 'Prop2', 'Prop3': 'Prop3', 'ModusPonens': 'ModusPonens', 'Quantifier': 'Quantifier',
            'Generalization': 'Generalization', 'Instantiate': 'Instantiate', 'Pop': 'Pop', 'Save': 'Save', 'Load': 'Load', 'Publish': 'Publish'}


def all_options():
    P = repo.P()
    return P.PrettyOptions(notations={n.definition: n for n, fam in repo.all_notations().values()})


# ----------------------------------------------------------------------------- M-print
PRINT_LOG = []


def install_mprint():
    P = repo.P()
    if getattr(P.Notation, '_pi2v_wrapped', False):
        return
    orig = P.Notation.print_instantiation

    @functools.wraps(orig)
    def wrapper(self, applied, opts):
        out = orig(self, applied, opts)
        try:
            if len(PRINT_LOG) < 200000:
                # by parameter, not by dict position; a parameter the application leaves open is that metavariable itself
                args = tuple(applied.inst[k] if k in applied.inst else P.MetaVar(k) for k in range(self.arity))
                PRINT_LOG.append((self.label, id(self.definition), tuple(a.pretty(opts) for a in args), tb.show(tb.of_repo(applied)), out))
        except Exception:
            pass
        return out
    P.Notation.print_instantiation = wrapper
    P.Notation._pi2v_wrapped = True


def judge_pair(label, r1, e1, s1, r2, e2, s2):
    """two applications of one notation: renderings r, expansion e, printed s"""
    if e1 == e2 or s1 != s2:
        return False
    # printed equal, expansions differ: allowed only if some differing argument is rendered identically in both
    # (then the reader could not tell anyway)
    if len(r1) != len(r2):
        return True
    differing = [i for i in range(len(r1)) if r1[i] != r2[i]]
    return bool(differing)


def r1_workload(ctx, rng):
    P = repo.P()
    opts = all_options()
    items = sorted(repo.all_notations().items())
    for key, (N_, fam) in items:
        k = N_.arity
        de = tb.of_repo(N_.definition)
        used = tb.metavar_ids(de)
        tuples = []
        # argument tuples with pairwise distinct renderings: fresh symbols per slot and per tuple
        for t in range(6 if ctx.quick else 12):
            args = []
            for i in range(k):
                base = P.Symbol(f'{chr(97 + i)}{t}')
                r = rng.random()
                if r < 0.3:
                    base = P.App(base, P.EVar(t % 3))
                elif r < 0.45:
                    base = P.Implies(base, P.Symbol(f'z{t}'))
                elif r < 0.55:
                    base = P.neg(base)
                args.append(base)
            tuples.append(tuple(args))
        # one-position variations of the first tuple
        for i in range(k):
            v = list(tuples[0])
            v[i] = P.Symbol(f'varied{i}')
            tuples.append(tuple(v))
        # two positions swapped (a different pattern with the same set of argument renderings)
        if k >= 2:
            for t in range(2):
                v = list(tuples[t])
                i, j = rng.sample(range(k), 2)
                v[i], v[j] = v[j], v[i]
                tuples.append(tuple(v))
        # an argument that is itself an application of the same notation, nested on the left and on the right: N(N(a,b),c) vs N(a,N(b,c))
        if k >= 2:
            at = [P.Symbol(f'n{t}') for t in range(3)]
            fill = [P.Symbol(f'fill{i}') for i in range(k)]
            for i in range(k):
                for j in range(i + 1, k):
                    inner1 = list(fill); inner1[i], inner1[j] = at[0], at[1]
                    outer1 = list(fill); outer1[i], outer1[j] = N_(*inner1), at[2]
                    inner2 = list(fill); inner2[i], inner2[j] = at[1], at[2]
                    outer2 = list(fill); outer2[i], outer2[j] = at[0], N_(*inner2)
                    tuples.append(tuple(outer1)); tuples.append(tuple(outer2))
                    ctx.count('r1_self_nested_pairs')
        rendered = []
        apps = [(args, N_(*args), 'direct') for args in tuples]
        # the same applications reached through instantiate: an open argument (metavariable) in front of closed ones, then filled in
        if k >= 1:
            for args in tuples[:4]:
                i = rng.randrange(k)
                open_args = list(args)
                open_args[i] = P.MetaVar(7)
                try:
                    apps.append((args, N_(*open_args).instantiate({7: args[i]}), 'instantiated'))
                    ctx.count('r1_instantiated_applications')
                except Exception as ex:
                    ctx.violation('instantiate_raises:' + fam, f'instantiating an application of {N_.label} raised {type(ex).__name__}', {'notation': N_.label, 'error': repr(ex)[:200]})
        # the same applications with a map that is not keyed 0..n-1 in insertion order: built directly, and the way the toolkit itself
        # produces them (a node that leaves parameters open, completed by instantiate)
        if k >= 2:
            from frozendict import frozendict
            for args in tuples[:5]:
                order = list(range(k))
                while order == sorted(order):
                    rng.shuffle(order)
                apps.append((args, P.Instantiate(N_.definition, frozendict({i: args[i] for i in order})), 'unsorted_keys'))
                ctx.count('r1_unsorted_key_applications')
                later = [i for i in sorted(used) if rng.random() < 0.5] or sorted(used)[:1]
                first = [i for i in range(k) if i not in later]
                if first and later and max(first) > min(later):
                    try:
                        node = P.Instantiate(N_.definition, frozendict({i: args[i] for i in first})).instantiate({i: args[i] for i in later})
                        apps.append((args, node, 'partial_then_instantiated'))
                        ctx.count('r1_partial_then_instantiated_applications')
                    except Exception as ex:
                        ctx.violation('instantiate_raises:' + fam, f'instantiating a partial application of {N_.label} raised {type(ex).__name__}', {'notation': N_.label, 'error': repr(ex)[:200]})
        for args, app, how in apps:
            try:
                s = app.pretty(opts)
            except Exception as ex:
                ctx.violation('pretty_raises:' + fam, f'printing an application of {N_.label} raised {type(ex).__name__}', {'notation': N_.label, 'error': repr(ex)[:200]})
                continue
            rendered.append((tuple(a.pretty(opts) for a in args), tb.show(tb.of_repo(app)), s))
        for i in range(len(rendered)):
            for j in range(i + 1, len(rendered)):
                ctx.count('r1_pairs')
                ctx.count('family:' + fam)
                a, b = rendered[i], rendered[j]
                if a[1] != b[1]:
                    ctx.count('r1_pairs_different_expansion')
                ctx.case(('r1', key, a[0], b[0]), nontrivial=a[1] != b[1])
                if judge_pair(N_.label, a[0], a[1], a[2], b[0], b[1], b[2]):
                    ctx.violation('notation_printed_without_its_arguments:' + fam + ('' if fam in ('propositional', 'definedness', 'kore') else '') + ':' + N_.label.split('_')[0],
                                  f'two applications of {N_.label} that denote different patterns and have different argument renderings are printed identically: {a[2]!r}',
                                  {'notation': N_.label, 'format_str': N_.format_str, 'args_1': list(a[0]), 'args_2': list(b[0]), 'printed': a[2]})
        if rendered:
            ctx.sample({'notation': N_.label, 'printed': rendered[0][2]})


# ----------------------------------------------------------------------------- R2
def pretty_steps(text):
    """[(keyword, operand string)] of a .pretty-* file"""
    steps = []
    for line in text.split('\n'):
        if not line or line.startswith('\t'):
            continue
        first = line.split(' ', 1)[0]
        if first in KEYWORDS:
            steps.append((first, line[len(first):].strip()))
        elif first.rstrip(',') in ('eFresh', 'sFresh', 'pos', 'neg', 'appctx') and steps and steps[-1][0] == 'MetaVar':
            steps[-1] = ('MetaVar', steps[-1][1] + ' | ' + line.strip())
        else:
            steps.append(('?', line))
    return steps


def match_step(ps, bs, symmap):
    """pretty step vs binary instruction tuple; returns None if they correspond, else a reason"""
    kw, opnd = ps
    name = bs[0]
    bname = 'MetaVar' if name == 'CleanMetaVar' else name
    if kw != bname:
        return f'keyword {kw} vs instruction {name}'
    try:
        if name in ('EVar', 'SVar', 'Exists', 'Mu'):
            return None if int(opnd) == bs[1] else f'operand {opnd} vs {bs[1]}'
        if name == 'Symbol':
            if opnd in symmap:
                return None if symmap[opnd] == bs[1] else f'symbol {opnd} numbered {bs[1]}, earlier {symmap[opnd]}'
            if bs[1] in symmap.values():
                return f'number {bs[1]} used for two symbols'
            symmap[opnd] = bs[1]
            return None
        if name in ('ESubst', 'SSubst'):
            return None if opnd == f'id={bs[1]}' else f'operand {opnd} vs id={bs[1]}'
        if name == 'Generalization':
            return None if int(opnd) == bs[1] else f'operand {opnd} vs {bs[1]}'
        if name == 'Instantiate':
            keys = [int(x) for x in opnd.split(',')] if opnd.strip() else []
            return None if list(reversed(keys)) == list(bs[1]) else f'keys {keys} vs reversed {list(bs[1])}'
        if name == 'Load':
            return None if opnd.rsplit('=', 1)[-1] == str(bs[1]) else f'index {opnd} vs {bs[1]}'
        if name == 'CleanMetaVar':
            return None if re.fullmatch(r'\d+', opnd) and int(opnd) == bs[1] else f'operand {opnd} vs clean metavar {bs[1]}'
        if name == 'MetaVar':
            m = re.match(r'(\d+)', opnd)
            if not m or int(m.group(1)) != bs[1]:
                return f'operand {opnd} vs metavar {bs[1]}'
            for tag, lst, pre in (('eFresh', bs[2], 'x'), ('sFresh', bs[3], 'X'), ('pos', bs[4], 'X'), ('neg', bs[5], 'X'), ('appctx', bs[6], 'x')):
                if lst:
                    want = f'{tag}, len={len(lst)} ' + ' '.join(f'{pre}{i}' for i in lst)
                    if want not in opnd:
                        return f'constraint list {tag} {list(lst)} not shown as such in {opnd!r}'
            return None
    except ValueError:
        return f'unparsable operand {opnd!r} for {name}'
    return None


def r2_compare(ctx, b, sc, opt, name):
    try:
        bins = mw.serialize(b.mod, sc, 'm', opt, 'binary')
        texts = mw.serialize(b.mod, sc, 'm', opt, 'pretty')
    except AssertionError:
        ctx.count('toolkit_refused')
        return
    symmap = {}
    for ph, (data, text) in enumerate(zip(bins, texts)):
        fname = ('gamma', 'claim', 'proof')[ph]
        try:
            ins = rm.decode(data)
        except rm.Reject as ex:
            ctx.count('binary_undecodable')
            continue
        steps = pretty_steps(text)
        ctx.count('r2_files_compared')
        ctx.case(('r2', data, opt), nontrivial=len(ins) >= 5)
        w = {'module': b.desc[:6], 'optimize': opt, 'file': fname, 'binary': data.hex()[:3000], 'pretty_steps': [' '.join(s) for s in steps][:80],
             'decoded': [' '.join(map(str, i)) for i in ins][:80]}
        if len(steps) != len(ins):
            ctx.violation(f'pretty_step_count_differs:{fname}', f'{len(steps)} steps listed in .pretty-{fname}, {len(ins)} instructions in .ml-{fname}', w)
            continue
        for i, (ps, bs) in enumerate(zip(steps, ins)):
            ctx.count('r2_steps_compared')
            why = match_step(ps, bs, symmap)
            if why:
                ctx.violation(f'pretty_step_differs:{bs[0]}', f'step {i} of .pretty-{fname} does not correspond to instruction {i} of .ml-{fname}: {why}', dict(w, index=i))
                break


def shard(ctx):
    rng = ctx.rng
    install_mprint()
    if ctx.shard % 4 == 0:
        r1_workload(ctx, rng)
    sc = ctx.mkscratch()
    todo = [(name, f) for name, f in mw.shipped_modules()] if ctx.shard == 0 else []
    todo += [(f'gen{i}', None) for i in range(ctx.scale(240, 12000))]
    for name, f in todo:
        try:
            if f is None and name.endswith('7'):
                b = mw.repeated_constraint_module(rng)      # every tenth: constraint lists that name a variable twice
                ctx.count('modules_with_repeated_constraint_entries')
            else:
                b = mw.Built(f(), {'shipped'}, [name]) if f else mw.random_module(rng)
            # register every shipped notation so that applications are printed through their format strings
            b.mod.add_notations([n for n, fam in repo.all_notations().values()])
        except Exception as ex:
            ctx.violation('module_construction_raises:' + type(ex).__name__, 'building a module raised', {'error': repr(ex)[:300]})
            continue
        for opt in (False, True):
            r2_compare(ctx, b, sc, opt, name)
    # offline check of the M-print log
    ctx.count('mprint_calls', len(PRINT_LOG))
    by = {}
    for label, did, r, e, s in PRINT_LOG:
        by.setdefault((label, did, s), {})[e] = r
    for (label, did, s), exps in by.items():
        if len(exps) < 2:
            continue
        items = list(exps.items())[:12]
        for i in range(len(items)):
            for j in range(i + 1, len(items)):
                (e1, r1), (e2, r2) = items[i], items[j]
                ctx.count('mprint_pairs_judged')
                if judge_pair(label, r1, e1, s, r2, e2, s):
                    ctx.violation('notation_printed_without_its_arguments:observed:' + label.split('_')[0],
                                  f'while pretty-printing modules, two different applications of {label} with different argument renderings were printed identically: {s!r}',
                                  {'notation': label, 'args_1': list(r1), 'args_2': list(r2), 'printed': s})

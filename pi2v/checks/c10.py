"""C10 - every derived rule of the Propositional / Tautology libraries proves exactly its advertised schema."""
from __future__ import annotations

import inspect
import signal
import traceback
from contextlib import contextmanager

from .. import repo
from ..gen import patterns as gp
from ..gen import repo_patterns as rp
from ..oracles import schemas as S
from ..oracles import tb

READY = True
LEVEL = 'exploration'
TECHNIQUE = ('runtime post-condition monitoring of every public lemma method of Propositional and Tautology (wrapped at class level, so nested internal '
             'calls are checked too) against a hand-transcribed schema table; each generated call is additionally replayed on a recording '
             'StatefulInterpreter (conclusion, stack discipline, journal of primitive calls, dynamic-vs-static conclusion of every nested thunk)')
LEVEL_TEXT = ('Each of the 100 table entries is called with generated arguments of every kind (plain and permuted phi0..phi2, element/set variables, '
              'symbols, applications, binders, constrained metavariables, pending substitutions, every shipped notation) and with premise thunks that '
              'are axioms of the case\'s module or results of other lemmas. The static conclusion must equal the schema instantiated at the arguments '
              '(after notation expansion); the thunk must run on a StatefulInterpreter after the module\'s gamma and claim phases, return that '
              'conclusion, leave exactly it on the stack, and use only prop1-3, modus ponens, instantiate, pattern construction, save/load/pop and '
              'loads of declared axioms. Exploration: nothing is claimed about argument tuples that were not generated.')
LEVEL_NOTE = ('Trusted: the schema table O5 (hand transcription of the docstrings; self-checked: every schema is a propositional theorem given its premises), '
              'O1 expansion / instantiation / one-way matcher and structural equality modulo the A10 normalisation.')
DESIGN_REF = 'DESIGN.md section 5 C10, Appendix A'
NSHARDS = 16
TIMEOUT = {'quick': 1500, 'thorough': 3 * 3600}
RULE = ('A case is one table entry called with one generated argument tuple (argument profile = case index mod 8: metavariables, permuted phi0..phi2, '
        'concrete variables/symbols/applications, binders, constrained metavariables, pending substitutions, notation, mixed); about a third of the '
        'premise-taking cases receive the result of another lemma as premise. Calls the real code refuses because a substitution would capture are '
        'counted refused_capture and decide nothing. distinct_nontrivial = distinct (entry, arguments) with at least one argument that is not a bare metavariable.')
ASSUMPTIONS = ['positions given to or/and_move_to_front are sorted and unique (documented precondition)',
               'the pattern side of the *_match* lemmas is substitution-free (the matcher has no cases for pending substitutions)',
               'a refusal whose message mentions capture is not judged']

K_QUICK, K_THOROUGH = 80, 1200
O2_SHARE = {True: 0.2, False: 0.1}
PROFILES = ('metavar', 'phi_permuted', 'concrete', 'binder', 'constrained_mv', 'pending_subst', 'notation', 'mixed')
FLOORS = {'quick': {}, 'thorough': {}}
for _e in S.ENTRIES:
    FLOORS['quick']['entry:' + _e.name] = 20
    FLOORS['thorough']['entry:' + _e.name] = 200
    if _e.vars or _e.name in ('conjunction_implies_nth', 'or_move_to_front', 'and_move_to_front', 'reduce_n_or_duplicates_at_front', 'merge_clauses'):
        FLOORS['quick']['entry_nonmv:' + _e.name] = 12
        FLOORS['thorough']['entry_nonmv:' + _e.name] = 120
FLOORS['quick'].update({'replayed_ok': 3000, 'nested_compositions': 400, 'inner_calls_checked': 50000, 'thunk_runs_checked': 50000, 'journals_checked': 3000,
                        'args_omitted_defaults': 100, 'o2_accepts': 200})
FLOORS['thorough'].update({'replayed_ok': 60000, 'nested_compositions': 9000, 'inner_calls_checked': 600000, 'thunk_runs_checked': 600000, 'journals_checked': 60000,
                           'args_omitted_defaults': 1500, 'o2_accepts': 3000})

# Replaying these proofs costs seconds to minutes once the lists have three or more members (millions of primitive calls; the
# repository's own tests note the same).  Their static conclusions and internal calls are checked on every case; the replay is
# budgeted by list length.  size(v) -> length that drives the cost.
HEAVY = {
    'or_move_to_front': lambda v: len(v.ts) if v.pos and v.pos != list(range(len(v.pos))) else 1,
    'and_move_to_front': lambda v: len(v.ts) if v.pos and v.pos != list(range(len(v.pos))) else 1,
    'simplify_clause': lambda v: (len(v.cl) + v.cl.count(v.x) - 1) if (v.x in v.cl and (v.cl[0] != v.x or v.cl.count(v.x) > 1)) else 1,
    'prove_trivial_clause': lambda v: len(v.cl),
    'merge_clauses': lambda v: len(v.ls),
    'reduce_n_or_duplicates_at_front': lambda v: v.n + 1,
}


def replay_share(e, v, quick) -> float:
    """probability with which a case is replayed"""
    f = HEAVY.get(e.name)
    if f is None:
        return 1.0
    n = f(v)
    if n <= 2:
        return 1.0
    if n == 3:
        return 0.25 if quick else 0.5
    return 0.0 if quick else 0.05


PATTERN_OPS = {'evar', 'svar', 'symbol', 'metavar', 'implies', 'app', 'exists', 'mu', 'esubst', 'ssubst', 'instantiate_pattern'}
RULE_OPS = {'prop1', 'prop2', 'prop3', 'modus_ponens', 'instantiate'}
MEM_OPS = {'pop', 'save', 'load'}
ALLOWED = PATTERN_OPS | RULE_OPS | MEM_OPS


def E(x):
    return tb.norm_py(tb.of_repo(x))


class Watchdog(BaseException):
    pass


@contextmanager
def watchdog(secs: float):
    def h(sig, frm):
        raise Watchdog()
    old = signal.signal(signal.SIGALRM, h)
    signal.setitimer(signal.ITIMER_REAL, secs)
    try:
        yield
    finally:
        signal.setitimer(signal.ITIMER_REAL, 0)
        signal.signal(signal.SIGALRM, old)


def is_capture_refusal(ex) -> bool:
    return isinstance(ex, AssertionError) and 'capture' in str(ex)


def culprit_of(ex, default, codes=None):
    """Root-cause attribution for an exception raised inside the library: the innermost table method on the traceback whose own
    arguments were of its advertised shape (a lemma that refuses ill-shaped premises is not to blame - its caller is).
    codes: {code object of the original method: entry}; without it, the innermost table method by name."""
    name = default
    t = ex.__traceback__
    while t is not None:
        f = t.tb_frame
        co = f.f_code
        e = codes.get(co) if codes else None
        if e is not None:
            try:
                names = co.co_varnames[1:co.co_argcount]
                args = tuple(f.f_locals[n] for n in names)
                if S.derive_vars(e, args, E) is not None:
                    name = e.name
            except Exception:
                pass
        t = t.tb_next
    return name


# ------------------------------------------------------------------ argument generator (G1 for this check)
class Gen:
    def __init__(self, rng, profile):
        self.rng = rng
        self.profile = profile
        self.mvtable = {}
        self.perm = [0, 1, 2]
        rng.shuffle(self.perm)
        if self.perm == [0, 1, 2]:
            self.perm = rng.choice(([1, 0, 2], [2, 0, 1], [1, 2, 0]))
        self.k = 0
        self.kinds = set()

    def _mv(self, i):
        return self.mvtable.setdefault(i, tb.mv(i))

    def _cmv(self):
        rng = self.rng
        i = rng.choice((0, 1, 2, 3))
        if i not in self.mvtable:
            c = gp.rand_constraints(rng, p=0.45)
            if not any(c):
                c = ((rng.choice((0, 1)),), (), (), (), ())
            self.mvtable[i] = tb.mv(i, *c)
        return self.mvtable[i]

    def _conc(self, d=2, binders=False):
        return gp.rand_concrete(self.rng, self.rng.randint(0, d), syms=('a', 'b'), binders=binders)

    def term(self, cap=30):
        for _ in range(30):
            t = self._term()
            if tb.size(t) <= cap:
                return t
        return tb.sy('a')

    def small(self):
        return self.term(8)

    def _term(self):
        rng = self.rng
        pr = self.profile
        if pr != 'metavar' and rng.random() < 0.12:
            pr = 'metavar'
        self.kinds.add(pr)
        if pr == 'metavar':
            return self._mv(rng.choice((0, 1, 2, 3)))
        if pr == 'phi_permuted':
            a = self._mv(self.perm[self.k % 3])
            b = self._mv(self.perm[(self.k + 1) % 3])
            self.k += 1
            r = rng.random()
            if r < 0.5:
                return a
            if r < 0.65:
                return tb.im(a, b)
            if r < 0.75:
                return tb.neg(a)
            if r < 0.85:
                return tb.or_(b, a)
            if r < 0.95:
                return tb.and_(a, b)
            return tb.im(b, tb.im(a, self._mv(self.perm[(self.k + 1) % 3])))
        if pr == 'concrete':
            return self._conc(2)
        if pr == 'binder':
            r = rng.random()
            x = rng.choice((0, 1, 2))
            if r < 0.3:
                return tb.ex(x, rng.choice((tb.ev(x), tb.ap(tb.sy('a'), tb.ev(x)), tb.ap(tb.ev(x), tb.ev((x + 1) % 3)), self._mv(rng.choice((0, 1))))))
            if r < 0.5:
                return tb.mu(x, rng.choice((tb.sv(x), tb.ap(tb.sy('a'), tb.sv(x)), tb.im(tb.ev(0), tb.sv(x)))))
            if r < 0.7:
                return tb.im(tb.ex(x, self._conc(1)), self._mv(rng.choice((0, 1, 2))))
            if r < 0.85:
                return tb.ex(x, tb.ex((x + 1) % 3, tb.ap(tb.ev(x), tb.ev((x + 1) % 3))))
            return gp.rand_concrete(rng, 2, syms=('a', 'b'), binders=True)
        if pr == 'constrained_mv':
            m = self._cmv()
            r = rng.random()
            if r < 0.6:
                return m
            if r < 0.8:
                return tb.im(m, self._conc(1))
            return tb.ap(self._conc(1), m)
        if pr == 'pending_subst':
            base = self._mv(rng.choice((0, 1, 2))) if rng.random() < 0.7 else self._cmv()
            for _ in range(rng.choice((1, 1, 2))):
                if rng.random() < 0.6:
                    x = rng.choice((0, 1, 2))
                    plug = rng.choice((tb.ev((x + 1) % 3), tb.sy('a'), tb.ap(tb.sy('b'), tb.ev((x + 2) % 3)), self._mv(3)))
                    if base[0] == 'mv' and x in base[2]:
                        continue
                    base = tb.es(base, x, plug)
                else:
                    X = rng.choice((0, 1, 2))
                    plug = rng.choice((tb.sv((X + 1) % 3), tb.sy('b'), tb.ap(tb.sy('a'), tb.sv((X + 2) % 3))))
                    if base[0] == 'mv' and X in base[3]:
                        continue
                    base = tb.ss(base, X, plug)
            if rng.random() < 0.3:
                return tb.im(base, self._conc(1))
            return base
        if pr == 'notation':
            return rp.rand_term(rng, rng.randint(1, 2), meta=rng.random() < 0.6, notation=0.9, substs=False, constrained=0.0, mvs=(0, 1, 2), mvtable=self.mvtable)
        return rp.rand_term(rng, rng.randint(1, 3), meta=True, notation=0.35, substs=True, constrained=0.3, mvs=(0, 1, 2), mvtable=self.mvtable)

    def terms(self, n):
        return [self.small() for _ in range(n)]

    def sf_meta(self):
        rng = self.rng
        for _ in range(50):
            t = rp.rand_term(rng, rng.randint(0, 2), meta=True, notation=0.3, substs=False, constrained=0.0 if self.profile != 'constrained_mv' else 0.5,
                             mvs=(0, 1, 2), mvtable=self.mvtable)
            if tb.metavar_ids(t) and tb.size(t) <= 30:
                return t
        return tb.im(self._mv(0), self._mv(1))

    def plug(self):
        return self.term()


# ------------------------------------------------------------------ monitors on the real classes
class State:
    def __init__(self):
        self.active = False
        self.depth = 0
        self.inner_budget = 0
        self.inner_checked = 0
        self.inner_not_judged = 0
        self.culprits = []         # (entry name, expected, got, args description) innermost first
        self.thunk_budget = 0
        self.thunk_checked = 0
        self.thunk_seen = 0
        self.thunk_mismatch = None
        self.fail_by = None        # lemma that built the innermost thunk in which a run-time exception surfaced


class Real:
    """the real library with post-condition wrappers installed at class level"""

    def __init__(self):
        self.P = repo.P()
        self.PRm = repo.mod('proofs.propositional')
        self.Tm = repo.mod('tautology')
        self.PF = repo.mod('proof')
        self.I = repo.mod('interpreter')
        self.Sm = repo.mod('stateful_interpreter')
        self.Proved = repo.mod('proved').Proved
        self.classes = {'Propositional': self.PRm.Propositional, 'Tautology': self.Tm.Tautology}
        self.st = State()
        self.sigs = {}
        self.codes = {}
        self._install_lemma_wrappers()
        self._install_thunk_wrapper()
        self.Rec = self._recording_interpreter()

    # M-lemma: every table method, wherever it is called from
    def _install_lemma_wrappers(self):
        st = self.st
        for e in S.ENTRIES:
            cls = self.classes[e.cls]
            orig = cls.__dict__[e.name]
            self.sigs[e.name] = inspect.signature(orig)
            self.codes[orig.__code__] = e

            def mk(e, orig):
                sig = self.sigs[e.name]

                def wrapper(self_, *a, **k):
                    if not st.active:
                        return orig(self_, *a, **k)
                    st.depth += 1
                    try:
                        out = orig(self_, *a, **k)
                    finally:
                        st.depth -= 1
                    th_ = out[e.ret] if e.ret is not None and isinstance(out, tuple) else out
                    d_ = getattr(th_, '__dict__', None)
                    if d_ is not None and '_pi2v_by' not in d_:
                        d_['_pi2v_by'] = e.name
                    if st.inner_checked < st.inner_budget:
                        if k:
                            try:
                                ba = sig.bind(self_, *a, **k)
                                a = tuple(ba.args[1:])
                            except TypeError:
                                a = None
                        if a is not None:
                            self._judge_call(e, a, out)
                    return out
                wrapper.__name__ = e.name
                wrapper.__wrapped__ = orig
                return wrapper
            setattr(cls, e.name, mk(e, orig))

    def _judge_call(self, e, a, out):
        st = self.st
        try:
            v = S.derive_vars(e, a, E)
            if v is None:
                st.inner_not_judged += 1
                return
            want = tb.norm_py(e.concl(v))
        except tb.Undefined:
            st.inner_not_judged += 1
            return
        st.inner_checked += 1
        th = out[e.ret] if e.ret is not None else out
        got = E(th.conc)
        if got != want:
            st.culprits.append((e.name, tb.pretty(want), tb.pretty(got), [self.describe(x) for x in a], st.depth))

    def describe(self, x):
        if isinstance(x, self.PF.ProofThunk):
            return '|- ' + tb.pretty(E(x.conc))
        if isinstance(x, self.P.Pattern):
            return tb.pretty(E(x))
        if isinstance(x, (list, tuple)):
            return [self.describe(y) for y in x]
        return x

    # M-thunk: dynamic conclusion of every (nested) thunk equals its static one, by O1 equality
    def _install_thunk_wrapper(self):
        st = self.st
        PT = self.PF.ProofThunk
        orig = PT.__call__

        def call(self_, interpreter):
            try:
                proved = orig(self_, interpreter)
            except Exception:
                if st.active and st.fail_by is None:
                    st.fail_by = self_.__dict__.get('_pi2v_by')
                raise
            st.thunk_seen += 1
            if st.active and st.thunk_checked < st.thunk_budget and (st.thunk_seen <= 64 or st.thunk_seen % 16 == 0):
                st.thunk_checked += 1
                ce = self_.__dict__.get('_pi2v_e')
                if ce is None:
                    ce = E(self_.conc)
                    self_.__dict__['_pi2v_e'] = ce
                de = E(proved.conclusion)
                if de != ce and st.thunk_mismatch is None:
                    st.thunk_mismatch = (tb.pretty(ce), tb.pretty(de))
            return proved
        PT.__call__ = call

    # M-prim: journal of primitive calls
    def _recording_interpreter(self):
        Sm, I = self.Sm, self.I

        class Recording(Sm.StatefulInterpreter):
            def __init__(self, phase):
                super().__init__(phase)
                self.journal = []

        for n in sorted(I.Interpreter.__abstractmethods__):
            def mk(n):
                base = getattr(Sm.StatefulInterpreter, n)

                def f(self_, *a, **k):
                    self_.journal.append((n, a[1] if n == 'load' and len(a) > 1 else None))
                    return base(self_, *a, **k)
                f.__name__ = n
                return f
            setattr(Recording, n, mk(n))
        return Recording


# ------------------------------------------------------------------ one case
class Case:
    def __init__(self, real: Real, ctx, rng, quick=True):
        self.real = real
        self.ctx = ctx
        self.rng = rng
        self.quick = quick
        self.wire = []

    def fold(self, t):
        return rp.fold(t, self.rng, self.rng.choice((0.0, 0.5, 0.9)))

    def build_args(self, e, v, mod, donor=None):
        """repo-side positional arguments for entry e at variables v; premises become axioms of `mod` (or the donor thunk)"""
        P = self.real.P
        args = []
        desc = []
        for i, (kind, f) in enumerate(e.args):
            if kind == 'pat':
                if v.get('_omit_from') is not None and i >= v['_omit_from']:
                    continue
                t = f(v)
                args.append(self.fold(t))
                desc.append(tb.pretty(t))
                self.wire.append(tb.show(t))
            elif kind == 'prem':
                t = f(v)
                if donor is not None and donor[0] == i:
                    args.append(donor[1])
                    desc.append(f'|- {tb.pretty(t)}   (result of {donor[2]})')
                else:
                    ax = self.fold(t)
                    mod.add_axiom(ax)
                    args.append(mod.load_axiom(ax))
                    desc.append('|- ' + tb.pretty(t) + '   (axiom)')
                self.wire.append('|- ' + tb.show(t))
            elif kind == 'int':
                args.append(f(v)); desc.append(f(v)); self.wire.append(f(v))
            elif kind == 'ints':
                args.append(list(f(v))); desc.append(list(f(v))); self.wire.append(list(f(v)))
            elif kind == 'pats':
                ts = f(v)
                args.append([self.fold(t) for t in ts]); desc.append([tb.pretty(t) for t in ts])
                self.wire.append([tb.show(t) for t in ts])
            else:
                raise ValueError(kind)
        return args, desc

    def draw_vars(self, e, G, bound=None):
        if e.draw is not None:
            return e.draw(G)
        v = S.V()
        for n in e.vars:
            v[n] = bound[n] if bound and n in bound else G.term()
        return v

    def make_donor(self, e, k, mod, G):
        """a lemma result whose conclusion has the shape of premise k of entry e; returns (thunk, sigma over e.vars, donor name) or None"""
        rng = self.rng
        ph = S.V({n: tb.mv(S.PH0 + i) for i, n in enumerate(e.vars)})
        shape = e.args[k][1](ph)
        for _ in range(6):
            d = rng.choice(S.ENTRIES)
            if d.ret is not None:
                continue
            try:
                dv = self.draw_vars(d, G)
                dargs, _ = self.build_args(d, dv, mod)
                th = getattr(mod, d.name)(*dargs) if d.cls == 'Propositional' or isinstance(mod, self.real.classes['Tautology']) else None
            except Exception:
                continue
            if th is None:
                continue
            c1 = E(th.conc)
            sigma = tb.match1(shape, c1)
            if sigma is None:
                continue
            return th, {n: sigma[S.PH0 + i] for i, n in enumerate(e.vars) if S.PH0 + i in sigma}, d.name
        return None

    def o2_check(self, e, mod, th, want, witness, ctx):
        """serialise (gamma = the module's axioms, claim = the conclusion, proof = the thunk) and run the documented machine O2"""
        import io

        from ..oracles import refmachine as rm
        real = self.real

        class Keep(io.BytesIO):
            data = None

            def close(self):
                if self.data is None:
                    self.data = self.getvalue()
                super().close()

        SI = repo.mod('serializing_interpreter')
        Claim = repo.mod('claim').Claim
        g, c, p = Keep(), Keep(), Keep()
        try:
            mod2 = real.PF.ProofExp(axioms=mod.get_axioms(), notations=mod.get_notations(), claims=[th.conc], proof_expressions=[th])
            ser = SI.SerializingInterpreter(phase=real.I.ExecutionPhase.Gamma, claims=[Claim(th.conc)], out=g, claim_out=c, proof_out=p)
            mod2.execute_full(ser)
            ser.out.close()
            ids = dict(ser._symbol_identifiers)
        except Exception as ex:
            ctx.count('o2_serialisation_failed')
            ctx.note('o2_serialisation_failed_example', dict(witness, error=repr(ex)[:200]))
            return
        r = rm.run_triple(g.data, c.data, p.data)
        w = dict({k: v for k, v in witness.items() if not k.startswith('_')}, gamma=g.data.hex()[:2000], claim=c.data.hex()[:2000], proof=p.data.hex()[:6000])
        if r[0] == 'REJECT':
            cls = r[1]
            if cls == 'rule' and e.draw is not None and witness.get('_has_pending_subst'):
                # Instantiating phi[psi/x] with a metavariable that declares x fresh: the toolkit drops the substitution, the documented
                # machine keeps it deferred (ambiguity A10) - a divergence of the instantiation primitive, not of the lemma.
                ctx.count('o2_not_judged:a10_pending_substitution_instantiated')
                ctx.note('a10_divergence_example', {k: v for k, v in witness.items() if not k.startswith('_')})
                return
            if cls in ('rule', 'underflow', 'type_confusion', 'bad_index', 'claim_mismatch', 'unproved_claims', 'unknown_opcode', 'truncated', 'unsupported'):
                ctx.violation(f'serialised_lemma_rejected_by_reference_machine:{e.name}:{cls}', f'the serialised proof returned by {e.name} is rejected by the documented machine ({cls}: {r[2]})', w)
            else:
                ctx.count('o2_not_judged:' + cls)
            return
        m = r[1]
        ops = {i[0] for i in rm.decode(p.data)}
        bad = ops - {'EVar', 'SVar', 'Symbol', 'Implies', 'App', 'Mu', 'Exists', 'MetaVar', 'CleanMetaVar', 'ESubst', 'SSubst', 'Prop1', 'Prop2', 'Prop3',
                     'ModusPonens', 'Instantiate', 'Pop', 'Save', 'Load', 'Publish'}
        if bad:
            ctx.violation(f'lemma_uses_disallowed_primitive:{e.name}:{sorted(bad)[0]}', f'the serialised proof returned by {e.name} contains the instruction {sorted(bad)[0]}', w)
            return
        want_s = tb.rename_symbols(want, lambda n: ids.get(n, n))
        got = [tb.norm_py(t) for t in m.journal['discharged']]
        if got != [want_s]:
            ctx.violation(f'serialised_lemma_proves_other_claim:{e.name}', f'the documented machine accepts the serialised proof returned by {e.name} but the discharged claim is not the advertised conclusion',
                          dict(w, expected=tb.pretty(want_s), discharged=[tb.pretty(t) for t in got]))
            return
        ctx.count('o2_accepts')

    def run(self, e, j):
        """entry e, tuple index j"""
        real, ctx, rng = self.real, self.ctx, self.rng
        st = real.st
        profile = PROFILES[j % len(PROFILES)]
        G = Gen(rng, profile)
        use_taut = e.cls == 'Tautology' or rng.random() < 0.5
        try:
            mod = (real.Tm.Tautology if use_taut else real.PRm.Propositional)()
        except Exception as ex:
            who = culprit_of(ex, '__init__', real.codes)
            ctx.violation(f'module_construction_raises:{who}:{type(ex).__name__}', f'constructing the {"Tautology" if use_taut else "Propositional"} module raised {type(ex).__name__} '
                          f'(its own proof expressions call {who} with the default arguments)', {'module': 'Tautology' if use_taut else 'Propositional', 'error': repr(ex)[:300], 'raised_inside': who,
                                                                                                   'reproducer': ('Tautology()' if use_taut else 'Propositional()')})
            return
        prem_idx = [i for i, (k, _) in enumerate(e.args) if k == 'prem']
        donor = None
        bound = None
        st.__init__()
        if prem_idx and e.draw is None and (j // len(PROFILES)) % 3 == 1:
            k = rng.choice(prem_idx)
            st.active = True      # so that the donor's thunks are tagged with the lemmas that built them (no inner judging: budget 0)
            try:
                got = self.make_donor(e, k, mod, G)
            finally:
                st.active = False
            if got is not None:
                donor = (k, got[0], got[2])
                bound = got[1]
        try:
            v = self.draw_vars(e, G, bound)
        except tb.Undefined:
            ctx.count('draw_failed')
            return
        if e.ndefault and e.draw is None and rng.random() < 0.2:
            first = len(e.args) - rng.randint(1, e.ndefault)
            v['_omit_from'] = first
            for i in range(first, len(e.args)):
                v[e.vars[i]] = tb.mv(i)
            ctx.count('args_omitted_defaults')
        self.wire = []
        args, desc = self.build_args(e, v, mod, donor)
        try:
            want = tb.norm_py(e.concl(v))
        except tb.Undefined:
            ctx.count('schema_undefined_on_arguments')
            return
        nonmv = any(k != 'metavar' for k in G.kinds) or e.derive is not None and e.name in ('simplify_clause', 'prove_trivial_clause')
        witness = {'entry': f'{e.cls}.{e.name}', 'advertised': e.doc, 'arguments': desc, 'arguments_wire': list(self.wire), 'profile': profile,
                   'how_to_rebuild': 'arguments_wire are O1 terms in the wire grammar (tb.parse, tb.to_repo); a premise "|- T" is load_axiom of the axiom T added to the module',
                   'nested_premise_from': donor[2] if donor else None, 'module': type(mod).__name__}
        ctx.case((e.name, tuple(map(str, desc))), nontrivial=nonmv)

        def decided():
            ctx.count('entry:' + e.name)
            if nonmv:
                ctx.count('entry_nonmv:' + e.name)
        real_violation = ctx.violation

        def violation(mech, summary, w):
            decided()
            real_violation(mech, summary, w)
        ctx = _CtxView(ctx, violation)

        # ---- construction: static conclusion
        st.active = True
        st.inner_budget = 400
        st.thunk_budget = 0
        try:
            with watchdog(60 if self.quick else 300):
                out = getattr(mod, e.name)(*args)
        except Watchdog:
            st.active = False
            ctx.count('construction_inconclusive')
            return
        except Exception as ex:
            st.active = False
            if is_capture_refusal(ex):
                ctx.count('refused_capture')
                ctx.count('refused_capture:' + e.name)
                return
            if st.culprits:
                name, w_, g_, a_, depth = st.culprits[0]
                ctx.violation(f'lemma_conclusion_differs_from_schema:{name}', f'{name} returned a proof whose static conclusion is not its advertised schema at the arguments'
                              f' (observed as an internal call while building {e.name}, which then raised {type(ex).__name__})',
                              dict(witness, failing_call=name, failing_call_arguments=a_, failing_call_advertised=w_, failing_call_got=g_, error=repr(ex)[:200]))
                return
            who = culprit_of(ex, e.name, real.codes)
            ctx.violation(f'lemma_raises:{who}:{type(ex).__name__}', f'{e.cls}.{e.name} raised {type(ex).__name__} on arguments of the advertised shape (raised inside {who})',
                          dict(witness, error=repr(ex)[:300], expected_conclusion=tb.pretty(want)))
            return
        st.active = False
        ctx.count('inner_calls_checked', st.inner_checked)
        ctx.count('inner_calls_not_judged', st.inner_not_judged)
        th = out[e.ret] if e.ret is not None else out
        if e.name == 'simplify_clause' and list(out[0]) != S.simplified(v.cl, v.x):
            ctx.violation('lemma_returns_wrong_clause:simplify_clause', 'simplify_clause returned a clause other than [x] + (cl without x)',
                          dict(witness, returned=list(out[0]), expected=S.simplified(v.cl, v.x)))
            return
        got = E(th.conc)
        top_bad = got != want
        if st.culprits or top_bad:
            if top_bad and not st.culprits and st.inner_checked >= st.inner_budget:
                # attribution: run the same call again with every inner call judged
                st.__init__(); st.active = True; st.inner_budget = 10 ** 9
                try:
                    getattr(mod, e.name)(*args)
                except Exception:
                    pass
                st.active = False
            if st.culprits:
                name, w_, g_, a_, depth = st.culprits[0]
                ctx.violation(f'lemma_conclusion_differs_from_schema:{name}', f'{name} returned a proof whose static conclusion is not its advertised schema at the arguments'
                              + ('' if depth == 0 else f' (observed as an internal call while building {e.name})'),
                              dict(witness, failing_call=name, failing_call_arguments=a_, failing_call_advertised=w_, failing_call_got=g_,
                                   top_level_expected=tb.pretty(want), top_level_got=tb.pretty(got)))
            else:
                ctx.violation(f'lemma_conclusion_differs_from_schema:{e.name}', f'{e.name} returned a proof whose static conclusion is not its advertised schema at the arguments',
                              dict(witness, expected=tb.pretty(want), got=tb.pretty(got)))
            if top_bad:
                return
        ctx.count('static_ok')
        if rng.random() >= replay_share(e, v, self.quick):
            ctx.count('replay_skipped_by_budget')
            ctx.count('replay_skipped_by_budget:' + e.name)
            decided()
            return

        # ---- replay on the recording stateful interpreter
        it = real.Rec(real.I.ExecutionPhase.Gamma)
        try:
            mod.execute_gamma_phase(it)
            mod.execute_claims_phase(it)
        except Exception as ex:
            if is_capture_refusal(ex):
                ctx.count('refused_capture')
                return
            ctx.count('gamma_phase_failed')
            ctx.note('gamma_phase_failed_example', dict(witness, error=repr(ex)[:300]))
            return
        it.journal.clear()
        depth0 = len(it.stack)
        st.__init__(); st.active = True; st.inner_budget = 0; st.thunk_budget = 400
        try:
            with watchdog(30 if self.quick else 300):
                proved = th(it)
        except Watchdog:
            st.active = False
            ctx.count('replay_inconclusive')
            return
        except Exception as ex:
            st.active = False
            if is_capture_refusal(ex):
                ctx.count('refused_capture')
                ctx.count('refused_capture:' + e.name)
                return
            who = st.fail_by or e.name
            ctx.violation(f'lemma_replay_fails:{who}:{type(ex).__name__}', f'the proof returned by {e.name} raised {type(ex).__name__} when run on a StatefulInterpreter after the gamma phase'
                          f' (inside the part of the proof built by {who})', dict(witness, error=repr(ex)[:300], conclusion=tb.pretty(want), failing_part_built_by=who))
            return
        st.active = False
        ctx.count('thunk_runs_checked', st.thunk_checked)
        if E(proved.conclusion) != want:
            ctx.violation(f'lemma_replay_other_conclusion:{e.name}', f'the proof returned by {e.name} runs to another conclusion than the advertised one',
                          dict(witness, expected=tb.pretty(want), got=tb.pretty(E(proved.conclusion))))
            return
        if st.thunk_mismatch is not None:
            ctx.violation(f'thunk_dynamic_conclusion_differs_from_static:{e.name}', 'a nested thunk ran to a conclusion that differs from its static conclusion after notation expansion',
                          dict(witness, static=st.thunk_mismatch[0], dynamic=st.thunk_mismatch[1]))
            return
        if len(it.stack) != depth0 + 1 or (it.stack[-1] is not proved and it.stack[-1] != proved):
            ctx.violation(f'lemma_replay_stack_discipline:{e.name}', f'after running the proof returned by {e.name} the stack is not the previous stack plus the proved conclusion',
                          dict(witness, depth_before=depth0, depth_after=len(it.stack)))
            return
        # journal
        ctx.count('journals_checked')
        axioms_e = None
        for op, arg in it.journal:
            if op not in ALLOWED:
                ctx.violation(f'lemma_uses_disallowed_primitive:{e.name}:{op}', f'the proof returned by {e.name} calls the primitive {op}', dict(witness, primitive=op))
                return
            if op == 'load':
                if axioms_e is None:
                    axioms_e = {E(a) for a in mod.get_axioms()}
                conc = getattr(arg, 'conclusion', None)
                if conc is None or E(conc) not in axioms_e:
                    ctx.violation(f'lemma_loads_undeclared_axiom:{e.name}', f'the proof returned by {e.name} loads something that is not a declared axiom of the module',
                                  dict(witness, loaded=str(arg)[:200]))
                    return
        ops = {op for op, _ in it.journal}
        for op in ops & (RULE_OPS | MEM_OPS):
            ctx.count('primitive:' + op)
        ctx.count('replayed_ok')
        decided()
        ctx.count('profile:' + profile)
        if donor:
            ctx.count('nested_compositions')
        if e.name not in HEAVY and rng.random() < O2_SHARE[self.quick]:
            pend = any('(es ' in tb.show(f(v)) or '(ss ' in tb.show(f(v)) for k_, f in e.args if k_ in ('pat', 'prem'))
            self.o2_check(e, mod, th, want, dict(witness, _has_pending_subst=pend), ctx)
        if rng.random() < 0.002:
            ctx.sample({'entry': e.name, 'arguments': [str(d)[:120] for d in desc], 'conclusion': tb.pretty(want)[:300], 'primitives': len(it.journal)})


class _CtxView:
    """the shard's journal with `violation` redirected (so that a violated case still counts as an exercised entry)"""

    def __init__(self, ctx, violation):
        self._ctx = ctx
        self.violation = violation

    def __getattr__(self, n):
        return getattr(self._ctx, n)


# ------------------------------------------------------------------ workload
def shard(ctx):
    rng = ctx.rng
    n = S.selfcheck()
    real = Real()
    un = S.unspecified(list(real.classes.values()))
    ctx.note('unspecified', un)
    ctx.note('table_entries', n)
    ctx.note('indirect', S.INDIRECT)
    ctx.count('unspecified_methods', len(un))
    case = Case(real, ctx, rng, ctx.quick)
    K = K_QUICK if ctx.quick else K_THOROUGH
    idx = 0
    for j in range(K):
        for i, e in enumerate(S.ENTRIES):
            idx += 1
            if idx % ctx.nshards != ctx.shard:
                continue
            case.run(e, j)


# ------------------------------------------------------------------ replay of a witness
def replay(w):
    """The witness is self-contained (entry, arguments as expansions, advertised and obtained conclusions).  Re-runs the entry on
    freshly generated arguments of the recorded profile and reports whether the recorded mechanism shows again."""
    import random

    class _Ctx:
        quick = True

        def __init__(self):
            self.found = []

        def count(self, *a, **k): pass
        def case(self, *a, **k): pass
        def sample(self, *a, **k): pass
        def note(self, *a, **k): pass

        def violation(self, mech, summary, witness):
            self.found.append((mech, summary, witness))

    wit = w['witness']
    name = wit['entry'].split('.')[1]
    e = S.BY_NAME[name]
    ctx = _Ctx()
    real = Real()
    prof = PROFILES.index(wit.get('profile', 'metavar'))
    for s in range(40):
        case = Case(real, ctx, random.Random(s), True)
        case.run(e, prof + (len(PROFILES) if wit.get('nested_premise_from') and s % 2 else 0))
    mechs = sorted({m for m, _, _ in ctx.found})
    for m, summ, wi in ctx.found[:3]:
        print('violation', m, '-', summ[:200])
        print('   arguments:', wi.get('arguments'))
    want = w.get('mechanism')
    hit = want in mechs if want else bool(mechs)
    print('mechanisms now:', mechs)
    print('reproduced' if hit else 'NOT reproduced', want)
    return hit

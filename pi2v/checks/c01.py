"""C01 - checker soundness: every term the real checker marks Proved is semantically valid (O3)."""
from __future__ import annotations

from ..gen import patterns as gp
from ..gen import streams as gs
from ..oracles import refmachine as rm
from ..oracles import tb
from ..oracles import validity
from ..rust import build
from ..rust.hx import Hx

READY = True
LEVEL = 'exploration'
TECHNIQUE = 'runtime monitoring of the real checker in step mode: every term it marks Proved is evaluated in finite models (carrier 1..3) under admissible instantiations; streams directed by the checker\'s own state with a hostile bias'
LEVEL_TEXT = ('Instruction streams are generated step by step from the state the real checker reports (harness STEP/DUMP over the '
              'unmodified lib.rs); each distinct term it marks Proved is instantiated by constraint-respecting concrete plugs and '
              'evaluated in all models of size 1, exhaustive or sampled models of size 2 and sampled models of size 3. A refuting '
              'model/valuation/instance is a soundness violation. Exploration, not proof: soundness of unexplored rule orders is not claimed.')
LEVEL_NOTE = 'Trusted: the finite-model evaluator O3 and the textbook substitution/instantiation O1 (self-checked: axiom schemas valid, substitution lemma). The verdict does not go through the reference machine.'
DESIGN_REF = 'DESIGN.md section 5 C01'
NSHARDS = 16
TIMEOUT = {'quick': 1500, 'thorough': 4 * 3600}
RULE = ('A case is one instruction stream of 30-60 instruction groups executed by the real checker in the proof phase (empty theory, '
        'or a theory of axioms that O3 itself finds valid), each group chosen from the checker\'s reported state (axiom schemas, '
        'Instantiate with plugs naming the bound/constrained variables, Prop1+MP weakening, ModusPonens found by search, Generalization, '
        'Substitution, Save/Load/Pop). Every distinct Proved term is evaluated. distinct_nontrivial = distinct Proved terms evaluated '
        'that contain a binder, a metavariable or a pending substitution.')
ASSUMPTIONS = ['models are capped at carrier 3 as the property states', 'admissible instances are drawn from a pool of small concrete patterns filtered by the real free-variable/polarity constraints']
FLOORS = {'quick': {'streams': 1000, 'streams_with_10_ok_steps': 200, 'proved_terms_evaluated': 1000, 'ok_step:inst': 100, 'op:ModusPonens': 500, 'ok_step:imp_refl': 20, 'ok_step:distribute': 20, 'ok_step:pending_gen': 20, 'ok_step:pending_gen_two_step': 10,
                    'ok_step:weaken': 100, 'ok_step:gen': 50, 'ok_step:subst': 50, 'ok_step:save': 100, 'op:Quantifier': 20, 'op:Existence': 20,
                    'op:Load': 100, 'term_with:ex': 50, 'term_with:mu': 50, 'term_with:constrained_mv': 20, 'term_with:es': 10, 'term_with:ss': 10,
                    'model_evaluations': 100000, 'streams_with_theory': 100}}
FLOORS['thorough'] = dict(FLOORS['quick'], streams=20000, proved_terms_evaluated=20000)

VALID_AXIOMS = [
    tb.im(tb.mv(0), tb.mv(0)),
    tb.im(tb.ev(0), tb.ev(0)),
    tb.ex(1, tb.ev(1)),
    tb.im(tb.BOT, tb.mv(1)),
    tb.im(tb.ap(tb.sy(0), tb.ev(0)), tb.ap(tb.sy(0), tb.ev(0))),
    tb.im(tb.sv(0), tb.im(tb.sv(1), tb.sv(0))),
    tb.im(tb.ev(1), tb.ex(0, tb.ev(0))),
    tb.im(tb.mv(0, (0,), (), (), (), ()), tb.im(tb.sy(1), tb.mv(0, (0,), (), (), (), ()))),
]


def prepare(tier):
    b = build.ensure(('hx',))
    return {'binaries': {k: str(v) for k, v in b.items()}}


def features(t):
    s = tb.show(t)
    f = []
    if '(ex ' in s: f.append('ex')
    if '(mu ' in s: f.append('mu')
    if '(es ' in s: f.append('es')
    if '(ss ' in s: f.append('ss')
    if '(mv ' in s:
        f.append('mv')
        for nodes in tb.metavars(t).values():
            if any(any(m[2:7]) for m in nodes):
                f.append('constrained_mv')
                break
    return f


def shard(ctx):
    rng = ctx.rng
    hx = Hx('hx')
    director = gs.Director(rng, hostile=0.7)
    base_pool = gp.concrete_pool(rng, 300, 3)
    budget = validity.Budget() if ctx.quick else validity.Budget(thetas=16, m2=24, m3=12, vals2=16, vals3=12)
    strong = validity.Budget(thetas=24, m2=64, m3=32, vals2=32, vals3=16)
    stats = {}
    # the theory must be valid by the same oracle
    for ax in VALID_AXIOMS:
        w = validity.check_valid(ax, rng, base_pool, strong, None)
        if w is not None:
            ctx.inconclusive(f'oracle rejects one of its own "valid" axioms: {tb.pretty(ax)}')
            return
    seen = set()
    nstreams = ctx.scale(6400, 100000)
    for k in range(nstreams):
        with_theory = rng.random() < 0.3
        sess = gs.CheckerSession(hx, 0 if with_theory else 2)
        theory = []
        if with_theory:
            for ax in rng.sample(VALID_AXIOMS, rng.randint(1, 3)):
                if not sess.step(gs.emit(ax) + b'\x1e'):
                    break
                theory.append(ax)
            if sess.dead:
                ctx.count('theory_rejected')
                continue
            gamma = bytes(sess.trace)
            assert hx.batch(['PHASE 2']) == ['OK']
            sess.pre_phases = [(0, gamma)]
            sess.phase = 2
            sess.trace = bytearray()
            sess.stack = []
            ctx.count('streams_with_theory')
        else:
            gamma = b''
        ctx.count('streams')
        ok_steps = 0
        bad = None
        kinds = []
        for stepno in range(rng.randint(30, 60)):
            kind, code = director.next(sess)
            if not sess.step(code):
                ctx.count('rejected_step:' + kind)
                if not sess.recover():
                    ctx.count('recover_failed')
                    break
                continue
            ok_steps += 1
            kinds.append(kind)
            ctx.count('ok_step:' + kind)
            # every Proved the checker now holds: top of stack and memory
            cands = []
            if sess.stack and sess.stack[-1][0] == 'prf':
                cands.append(sess.stack[-1][1])
            if sess.memory and sess.memory[-1][0] == 'prf':
                cands.append(sess.memory[-1][1])
            for T in cands:
                if T in seen:
                    continue
                seen.add(T)
                if tb.size(T) > 120:
                    ctx.count('proved_terms_skipped_too_large')
                    continue
                fs = features(T)
                for f in fs:
                    ctx.count('term_with:' + f)
                ctx.case(tb.show(T), nontrivial=bool(fs))
                ctx.count('proved_terms_evaluated')
                w = validity.check_valid(T, rng, base_pool, budget, stats)
                if w is not None:
                    try:
                        lastop = rm.decode(code)[-1][0]
                    except rm.Reject:
                        lastop = '?'
                    bad = (w, lastop, kind)
                    break
            if bad:
                break
        if ok_steps >= 10:
            ctx.count('streams_with_10_ok_steps')
        try:
            for ins in rm.decode(bytes(sess.trace)):
                ctx.count('op:' + ins[0])
        except rm.Reject:
            pass
        if bad:
            w, lastop, kind = bad
            mech = ('ill_formed_theorem_after:' if w['kind'] == 'ill_formed_instance' else 'invalid_theorem_after:') + lastop
            ctx.violation(mech, f'checker marked proved: {w.get("pretty_term", w["term"])}; instance {w["pretty"]} is not valid',
                          {'gamma': gamma.hex(), 'claim': '', 'proof': bytes(sess.trace).hex(),
                           'decoded_proof': [' '.join(map(str, i)) for i in rm.decode(bytes(sess.trace))],
                           'theory': [tb.pretty(a) for a in theory], 'refutation': w, 'step_kinds': kinds})
        elif rng.random() < 0.002:
            ctx.sample({'proof': bytes(sess.trace).hex()[:200], 'steps': kinds[:40], 'theory': [tb.pretty(a) for a in theory],
                        'last_top': tb.pretty(sess.stack[-1][1]) if sess.stack else None})
    hx.close()
    ctx.count('model_evaluations', stats.get('evaluations', 0))
    ctx.count('instances_evaluated', stats.get('instances', 0))
    for k in ('no_admissible_instance', 'instance_undefined', 'instance_not_concrete'):
        if stats.get(k):
            ctx.count(k, stats[k])


def replay(w):
    wit = w['witness']
    g, p = bytes.fromhex(wit['gamma']), bytes.fromhex(wit['proof'])
    h = Hx('hx')
    a = h.run_triples([(g, b'', p)])[0]
    h.close()
    print('stream :', wit['decoded_proof'])
    print('checker:', a[:600])
    print('refutation recorded:', wit['refutation'])
    if not a.startswith('ACCEPT'):
        print('the checker now rejects this stream')
        return False
    # re-evaluate the recorded instance in the recorded model
    from ..oracles import semantics as sem
    r = wit['refutation']
    if r['kind'] == 'invalid':
        M = sem.Model(r['model']['n'], {int(k) if k.lstrip('-').isdigit() else k: v for k, v in r['model']['sym'].items()}, r['model']['app'])
        t = tb.parse(r['instance'])
        v = sem.evaluate(t, M, {int(k): v for k, v in r['evar_valuation'].items()}, {int(k): v for k, v in r['svar_valuation'].items()})
        print('instance evaluates to', v, 'full =', M.full)
        # is the recorded term still marked proved by the checker?
        still = r['term'] in a
        print('term still in the accepted final state:', still)
        return v != M.full and still
    return True

"""C11 - substitution and instantiation obey their algebra (Python Pattern classes and the Rust checker's functions)."""
from __future__ import annotations

from frozendict import frozendict

from .. import repo
from ..gen import patterns as gp
from ..gen import repo_patterns as rp
from ..oracles import semantics as sem
from ..oracles import tb
from ..rust import build
from ..rust.hx import Hx, spaced

READY = True
LEVEL = 'exploration'
TECHNIQUE = 'runtime reference-model monitoring: real apply_esubst/apply_ssubst/instantiate (Python classes; Rust functions through the include-based harness) compared with a textbook implementation and with the substitution lemma of finite-model semantics'
LEVEL_TEXT = ('Bounded-exhaustive small and random larger (pattern, variable, plug) and (pattern, map) cases are run through the real functions; '
              'results must equal the textbook result wherever it is defined, never be returned where the textbook substitution would capture, be '
              'the identity when the variable is absent, be deferred on metavariables, be simultaneous and compose; concrete results must satisfy '
              'the substitution lemma in sampled models of size 1-3.')
LEVEL_NOTE = 'Trusted: O1 substitution/instantiation (tb.subst_*, tb.inst, tb.compose) and the O3 evaluator; equality modulo the A10 normalisation.'
DESIGN_REF = 'DESIGN.md section 5 C11'
NSHARDS = 16
TIMEOUT = {'quick': 1500, 'thorough': 3 * 3600}
RULE = ('Cases: (a) all concrete/meta patterns with <= 4 nodes x variable x all plugs with <= 2 nodes, and random larger ones with notation; '
        '(b) random instantiation maps incl. partial maps and values mentioning other/the same metavariables, partial Instantiate nodes; '
        '(c) the same through the Rust functions. distinct_nontrivial = distinct (pattern, var, plug | map) cases in which the variable/metavariable occurs.')
ASSUMPTIONS = ['capture is judged precisely for the Python classes (a free variable of the plug really lands under its binder) and binder-by-binder for the Rust functions (A6)']
EXHAUSTIVE = {'quick': 'all O1 patterns with <=4 nodes over evars{0,1} svars{0} symbol{a} metavars{phi0, phi1{e_fresh x0}} x var in {0,1} x plugs <=2 nodes (Python esubst/ssubst)',
              'thorough': 'same with <=5 nodes'}
FLOORS = {'quick': {'py:apply_esubst': 20000, 'py:apply_ssubst': 20000, 'py:instantiate': 5000, 'py:capture_situations': 500, 'py:composed_maps': 500,
                    'py:composed_overlapping': 200, 'py:partial_instantiate_nodes': 500, 'py:subst_lemma_checked': 2000, 'py:identity_checked': 2000,
                    'py:deferred_checked': 1000, 'rust:apply_esubst': 5000, 'rust:apply_ssubst': 5000, 'rust:instantiate': 3000,
                    'rust:capture_situations': 300, 'rust:subst_lemma_checked': 1000, 'rust:instantiate_instruction': 2000, 'rust:plug_is_same_number_metavariable': 300,
                    'py:class:EVar': 500, 'py:class:SVar': 500, 'py:class:Symbol': 500, 'py:class:Implies': 500, 'py:class:App': 500, 'py:class:Exists': 500,
                    'py:class:Mu': 500, 'py:class:MetaVar': 500, 'py:class:ESubst': 200, 'py:class:SSubst': 200, 'py:class:Instantiate': 500}}
FLOORS['thorough'] = dict(FLOORS['quick'])


def prepare(tier):
    b = build.ensure(('hx',))
    return {'binaries': {k: str(v) for k, v in b.items()}}


class LazyCapture(Exception):
    """the value denotes a capturing substitution that the (lazy) Instantiate wrapper has not carried out yet"""


def E(x):
    try:
        return tb.norm_py(tb.of_repo(x, 'partial'))
    except tb.Capture as ex:
        raise LazyCapture(str(ex))


def N(t):
    return tb.norm_py(t)


def truly_captures(e, var, plug, kind):
    try:
        (tb.subst_e if kind == 'e' else tb.subst_s)(e, var, plug, 'partial')
        return False
    except tb.Capture:
        return True


def lemma_check(ctx, rng, p_e, var, plug_e, res_e, kind, tag, models):
    """substitution lemma on concrete, well-formed inputs: eval(p[plug/var]) == eval(p, rho[var := eval(plug)])"""
    if not (tb.is_concrete(p_e) and tb.is_concrete(plug_e) and tb.is_concrete(res_e)):
        return None
    if not (tb.wf_conc(p_e) and tb.wf_conc(plug_e)):
        return None
    for M in models:
        re = {i: rng.randrange(M.n) for i in range(4)}
        rs = {i: rng.randint(0, M.full) for i in range(4)}
        try:
            pv = sem.evaluate(plug_e, M, dict(re), dict(rs))
            if kind == 'e':
                if bin(pv).count('1') != 1:
                    continue
                re2 = dict(re); re2[var] = pv.bit_length() - 1
                rhs = sem.evaluate(p_e, M, re2, dict(rs))
            else:
                rs2 = dict(rs); rs2[var] = pv
                rhs = sem.evaluate(p_e, M, dict(re), rs2)
            lhs = sem.evaluate(res_e, M, dict(re), dict(rs))
        except (sem.IllFormed, tb.Undefined):
            continue
        ctx.count(tag + ':subst_lemma_checked')
        if lhs != rhs:
            return {'model': M.describe(), 'evars': re, 'svars': rs, 'lhs': lhs, 'rhs': rhs}
    return None


def py_subst_case(ctx, rng, P, p, e, var, plug, plug_e, kind, models, src):
    op = 'apply_esubst' if kind == 'e' else 'apply_ssubst'
    ctx.count('py:' + op)
    ctx.count('py:class:' + type(p).__name__)
    occurs = (var in (tb.all_evars(e) if kind == 'e' else tb.all_svars(e))) or bool(tb.metavar_ids(e))
    ctx.case((op, tb.show(e), var, tb.show(plug_e)), nontrivial=occurs)
    w = {'pattern': str(p), 'pattern_expansion': tb.show(e), 'var': var, 'plug': str(plug), 'op': op, 'source': src}
    strict_capture = None
    try:
        (tb.subst_e if kind == 'e' else tb.subst_s)(e, var, plug_e, 'strict')
    except tb.Capture as cx:
        strict_capture = str(cx).split()[0]
    try:
        res = getattr(p, op)(var, plug)
    except AssertionError as ex:
        # a nameful implementation may refuse exactly where a binder-by-binder checker refuses (A6)
        if strict_capture:
            ctx.count('py:capture_situations')
            ctx.count('py:capture_refused')
            return
        ctx.violation(f'py_{op}_raises:{type(p).__name__}', f'{op} refused although no binder captures: {p}[{plug}/{var}]', dict(w, error=repr(ex)))
        return
    except Exception as ex:
        ctx.violation(f'py_{op}_raises:{type(p).__name__}', f'{op} raised {type(ex).__name__} on {p}', dict(w, error=repr(ex)))
        return
    try:
        res_e = E(res)
    except LazyCapture:
        ctx.count('py:capture_pending_in_lazy_instantiate')
        return
    w['result'] = tb.show(res_e)
    try:
        exp = N((tb.subst_e if kind == 'e' else tb.subst_s)(e, var, plug_e, 'partial'))
    except tb.Capture:
        ctx.count('py:capture_situations')
        dc = tb.definite_capture(e, var, plug_e, kind)
        if dc:
            ctx.violation(f'py_{op}_silent_capture:{dc}_binder', f'{op} returned a result although a free variable of the plug is captured by a {dc} binder: {p}[{plug}/{var}]', w)
        else:
            ctx.count('py:potential_capture_through_metavariable_not_judged')
        return
    if res_e != exp:
        ctx.violation(f'py_{op}_wrong_result:{type(p).__name__}', f'{op} differs from the textbook result on {p}', dict(w, expected=tb.show(exp)))
        return
    if tb.is_concrete(e):
        absent = var not in (tb.fv_e(e) if kind == 'e' else tb.fv_s(e))
        if absent:
            ctx.count('py:identity_checked')
            if res_e != N(e):
                ctx.violation(f'py_{op}_not_identity_when_absent', 'substitution changed a pattern in which the variable does not occur free', w)
    cn = type(p).__name__
    if cn in ('MetaVar', 'ESubst', 'SSubst'):
        ctx.count('py:deferred_checked')
        fresh_decl = cn == 'MetaVar' and var in (e[2] if kind == 'e' else e[3])
        want = 'ESubst' if kind == 'e' else 'SSubst'
        if fresh_decl:
            if res != p:
                ctx.violation(f'py_{op}_not_identity_on_declared_fresh', 'substitution of a variable the metavariable declares fresh changed it', w)
        elif type(res).__name__ != want or res.pattern != p:
            ctx.violation(f'py_{op}_not_deferred_on_meta', 'substitution on a metavariable / deferred substitution was not deferred', w)
    bad = lemma_check(ctx, rng, e, var, plug_e, res_e, kind, 'py', models)
    if bad:
        ctx.violation(f'py_{op}_substitution_lemma', 'result violates the substitution lemma', dict(w, refutation=bad))


def shard(ctx):
    rng = ctx.rng
    rp.IDENTITY_WRAP = 0.03     # leaves and compound nodes spelled through an identity-like notation (definition = bare metavariable)
    P = repo.P()
    models = [sem.random_model(rng, n, ('a', 'b', 0, 1)) for n in (1, 2, 2, 3, 3)]
    # ---------------- (a) bounded-exhaustive, Python classes
    mvars = [tb.mv(0), tb.mv(1, (0,), (), (), (), ())]
    small = gp.enum_meta(4 if ctx.quick else 5, evs=(0, 1), svs=(0,), syms=('a',), mvars=mvars, wf=False)
    plugs = gp.enum_meta(2, evs=(0, 1), svs=(0,), syms=('a',), mvars=mvars[:1], wf=False)
    idx = 0
    for e in small:
        idx += 1
        if idx % ctx.nshards != ctx.shard:
            continue
        p = tb.to_repo(e, P)
        for var in (0, 1):
            for g in plugs:
                py_subst_case(ctx, rng, P, p, e, var, tb.to_repo(g, P), g, 'e', models[:2], 'exhaustive')
                if var == 0:
                    py_subst_case(ctx, rng, P, p, e, var, tb.to_repo(g, P), g, 's', models[:2], 'exhaustive')
    # ---------------- random larger, with notation
    n = ctx.scale(160000, 1500000)
    for k in range(n):
        e = rp.rand_term(rng, rng.randint(1, 4), meta=rng.random() < 0.6, notation=0.3)
        if tb.size(e) > 150:
            continue
        p = rp.fold(e, rng, rng.choice((0.0, 0.5, 0.9)))
        hostile = rng.random() < 0.6
        ge = _hostile_plug(rng, e) if hostile else rp.rand_term(rng, rng.randint(0, 2), meta=rng.random() < 0.3, notation=0.2)
        g = rp.fold(ge, rng, 0.4)
        kind = rng.choice('es')
        vs = sorted(tb.all_evars(e) if kind == 'e' else tb.all_svars(e)) or [0]
        var = rng.choice(vs) if rng.random() < 0.8 else rng.choice((0, 1, 2))
        py_subst_case(ctx, rng, P, p, e, var, g, ge, kind, models, 'random')
        if k % 1500 == 0:
            ctx.sample({'pattern': str(p)[:200], 'var': var, 'kind': kind, 'plug': str(g)[:100]})
    # ---------------- (b) instantiation
    n = ctx.scale(240000, 1500000)
    for k in range(n):
        base_e = rp.rand_term(rng, rng.randint(1, 3), meta=True, notation=0.3, mvs=(0, 1, 2))
        if tb.size(base_e) > 120:
            continue
        ids = sorted(tb.metavar_ids(base_e))
        if not ids:
            continue
        base = rp.fold(base_e, rng, rng.choice((0.0, 0.6)))
        mode = rng.random()
        if mode < 0.4:
            # a partial Instantiate node: only some of the metavariables are bound by the node
            keys = [i for i in ids if rng.random() < 0.5] or ids[:1]
            if len(keys) == len(ids) and len(ids) > 1:
                keys = keys[:-1]
            inner_e = {i: rp.rand_term(rng, 1, meta=True, notation=0.2, mvs=(0, 1, 2), substs=False) for i in keys}
            p = P.Instantiate(base, frozendict({i: rp.fold(v, rng, 0.3) for i, v in inner_e.items()}))
            e = tb.inst(base_e, inner_e, 'naive')
            ctx.count('py:partial_instantiate_nodes')
        else:
            p, e = base, base_e
        ids2 = sorted(tb.metavar_ids(e) | set(ids))
        dkeys = [i for i in ids2 if rng.random() < 0.7] or ids2[:1]
        d1_e = {i: rp.rand_term(rng, rng.randint(0, 2), meta=rng.random() < 0.7, notation=0.2, mvs=(0, 1, 2), substs=rng.random() < 0.3) for i in dkeys}
        d1 = {i: rp.fold(v, rng, 0.3) for i, v in d1_e.items()}
        ctx.count('py:instantiate')
        ctx.count('py:class:' + type(p).__name__)
        ctx.case(('inst', tb.show(e), tuple(sorted((i, tb.show(v)) for i, v in d1_e.items()))), nontrivial=bool(set(dkeys) & tb.metavar_ids(e)))
        w = {'pattern': str(p), 'pattern_expansion': tb.show(e), 'delta': {str(i): str(v) for i, v in d1.items()}, 'op': 'instantiate'}
        strict_capture = None
        try:
            tb.inst(e, d1_e, 'strict')
        except tb.Capture as cx:
            strict_capture = str(cx).split()[0]
        try:
            res = p.instantiate(d1)
        except AssertionError as ex:
            if strict_capture:
                ctx.count('py:capture_situations')
                ctx.count('py:capture_refused')
                continue
            ctx.violation(f'py_instantiate_raises:{type(p).__name__}', 'instantiate refused although no binder captures', dict(w, error=repr(ex)))
            continue
        except Exception as ex:
            ctx.violation(f'py_instantiate_raises:{type(p).__name__}', f'instantiate raised {type(ex).__name__}', dict(w, error=repr(ex)))
            continue
        try:
            res_e = E(res)
        except LazyCapture:
            ctx.count('py:capture_pending_in_lazy_instantiate')
            continue
        try:
            exp = N(tb.inst(e, d1_e, 'partial', check='doc'))
        except tb.ConstraintViolation:
            ctx.count('py:constraint_violating_map_skipped')   # the Python side has no constraint check (C07's business)
            continue
        except tb.Capture as cx:
            ctx.count('py:capture_situations')
            binder = 'ex' if str(cx).startswith('evar') else 'mu'
            if _inst_definite_capture(e, d1_e):
                ctx.violation(f'py_instantiate_silent_capture:{binder}_binder', 'instantiate resolved a pending substitution with capture', dict(w, result=tb.show(res_e)))
            else:
                ctx.count('py:potential_capture_through_metavariable_not_judged')
            continue
        if res_e != exp and tb.norm_eq(res_e) != tb.norm_eq(exp):
            cls = type(p).__name__
            feat = ''
            if cls == 'Instantiate' and set(p.inst.keys()) != set(tb.metavar_ids(tb.of_repo(p.pattern))):
                feat = ':partial_node'
            ctx.violation(f'py_instantiate_wrong_result:{cls}{feat}', f'instantiate differs from simultaneous textbook instantiation on {p}',
                          dict(w, result=tb.show(res_e), expected=tb.show(exp)))
            continue
        # composition
        ids3 = sorted(tb.metavar_ids(exp) | set(dkeys))
        if ids3 and rng.random() < 0.6:
            d2keys = [i for i in ids3 if rng.random() < 0.7] or ids3[:1]
            d2_e = {i: rp.rand_term(rng, rng.randint(0, 1), meta=rng.random() < 0.4, notation=0.1, mvs=(0, 1, 2), substs=False) for i in d2keys}
            d2 = {i: rp.fold(v, rng, 0.3) for i, v in d2_e.items()}
            ctx.count('py:composed_maps')
            if set(d2keys) & set(dkeys):
                ctx.count('py:composed_overlapping')
            try:
                tb.inst(exp, d2_e, 'partial', check='doc')          # d2 must respect the constraints of what it replaces
                for v in d1_e.values():
                    tb.inst(v, d2_e, 'partial', check='doc')
                two = E(res.instantiate(d2))
                comp_e = tb.compose(d1_e, d2_e, 'partial')
                comp = {i: tb.to_repo(v, P) for i, v in comp_e.items()}
                one = E(p.instantiate(comp))
                exp2 = N(tb.inst(e, comp_e, 'partial', check='doc'))
            except (tb.Capture, AssertionError, LazyCapture, tb.ConstraintViolation):
                ctx.count('py:composition_skipped_undefined')
                continue
            except Exception as ex:
                ctx.violation('py_instantiate_raises:composition', f'instantiate raised {type(ex).__name__} during composition', dict(w, error=repr(ex)))
                continue
            if (two != one or one != exp2) and not (tb.norm_eq(two) == tb.norm_eq(one) == tb.norm_eq(exp2)):
                ctx.violation('py_instantiate_not_compositional', 'p.instantiate(d1).instantiate(d2) != p.instantiate(d1 o d2)',
                              dict(w, delta2={str(i): tb.show(v) for i, v in d2_e.items()}, twice=tb.show(two), once=tb.show(one), expected=tb.show(exp2)))
    # ---------------- (c) Rust functions
    hx = Hx('hx')
    n = ctx.scale(192000, 1200000)
    reqs = []
    meta = []
    for k in range(n):
        r = rng.random()
        e = gp.rand_meta(rng, rng.randint(1, 4), wf=rng.random() < 0.7) if rng.random() < 0.6 else gp.rand_concrete(rng, rng.randint(1, 4))
        if tb.size(e) > 100:
            continue
        if r < 0.7:
            kind = rng.choice('es')
            ge = _hostile_plug(rng, e, int_syms=True) if rng.random() < 0.6 else gp.rand_meta(rng, rng.randint(0, 2))
            vs = sorted(tb.all_evars(e) if kind == 'e' else tb.all_svars(e)) or [0]
            var = rng.choice(vs) if rng.random() < 0.8 else rng.choice((0, 1, 2))
            fn = 'apply_esubst' if kind == 'e' else 'apply_ssubst'
            reqs.append(f'FN {fn} {spaced(tb.show(e))} {var} {spaced(tb.show(ge))}')
            meta.append((fn, e, var, ge))
        else:
            ids = sorted(tb.metavar_ids(e))
            if not ids:
                continue
            keys = [i for i in ids if rng.random() < 0.7] or ids[:1]
            if rng.random() < 0.15:
                keys.append(rng.choice(keys))   # duplicate id: first occurrence wins
            plugs = [(_hostile_plug(rng, e, int_syms=True) if rng.random() < 0.5 else gp.rand_meta(rng, rng.randint(0, 2), mvs=(0, 1, 2))) for _ in keys]
            if rng.random() < 0.12:
                # a plug that is the metavariable with the SAME number but more constraints (not an identity)
                j = rng.randrange(len(keys))
                nodes = sorted(tb.metavars(e).get(keys[j], set()))
                if nodes:
                    m0 = rng.choice(nodes)
                    plugs[j] = tb.mv(keys[j], ef=tuple(sorted(set(m0[2]) | set(rng.choice(((0,), (1,), (0, 1)))))), sf=m0[3], pos=m0[4], neg=m0[5], holes=())
                    ctx.count('rust:plug_is_same_number_metavariable')
            reqs.append(f'FN instantiate {spaced(tb.show(e))} ( {" ".join(map(str, keys))} ) ' + ' '.join(spaced(tb.show(g)) for g in plugs))
            meta.append(('instantiate', e, keys, plugs))
    answers = hx.batch(reqs)
    # the same instantiations through the Instantiate *instruction* (operands built by instructions, then `1a n ids`): the
    # instruction handler pairs ids and plugs before it calls the function tested above
    from ..gen.streams import emit
    ireqs = []
    imeta = []
    for (fn, e, a, b) in meta:
        if fn != 'instantiate' or rng.random() > 0.5:
            continue
        keys, plugs = a, b
        try:
            build = b''.join(emit(g) for g in reversed(plugs)) + emit(e)
        except (TypeError, ValueError):
            continue
        if any(x > 255 for x in keys):
            continue
        ireqs += ['NEW', 'PHASE 0', 'STEP ' + build.hex(), 'STEP ' + bytes([26, len(keys), *keys]).hex()]
        imeta.append(('instantiate_instruction', e, keys, plugs))
    ians = hx.batch(ireqs)
    hx.close()
    for j, m in enumerate(imeta):
        built, res = ians[4 * j + 2], ians[4 * j + 3]
        if not built.startswith('TOP'):
            ctx.count('rust:instruction_route_operands_not_constructible')
            continue
        meta.append(m)
        answers.append(('TERM ' + res[4:].strip()[5:-1].strip()) if res.startswith('TOP (pat ') else ('PANIC ' + res))
    for (fn, e, a, b), ans in zip(meta, answers):
        ctx.count('rust:' + fn)
        w = {'fn': fn, 'pattern': tb.show(e), 'answer': ans[:400]}
        if fn in ('instantiate', 'instantiate_instruction'):
            keys, plugs = a, b
            delta = {}
            for i, g in zip(keys, plugs):
                delta.setdefault(i, g)
            w.update(ids=keys, plugs=[tb.show(g) for g in plugs])
            ctx.case((fn, tb.show(e), tuple(keys), tuple(tb.show(g) for g in plugs)), nontrivial=True)
            try:
                exp = tb.inst(e, delta, 'strict', check='doc')
                und = None
            except tb.ConstraintViolation as ex:
                und = 'constraint'
            except tb.Capture as ex:
                und = 'capture'
                ctx.count('rust:capture_situations')
        else:
            var, ge = a, b
            w.update(var=var, plug=tb.show(ge))
            occurs = var in (tb.all_evars(e) if fn == 'apply_esubst' else tb.all_svars(e)) or bool(tb.metavar_ids(e))
            ctx.case((fn, tb.show(e), var, tb.show(ge)), nontrivial=occurs)
            try:
                exp = (tb.subst_e if fn == 'apply_esubst' else tb.subst_s)(e, var, ge, 'strict')
                und = None
            except tb.Capture:
                und = 'capture'
                ctx.count('rust:capture_situations')
        if ans.startswith('ABORT'):
            ctx.count('rust:abort')
            continue
        if und:
            if ans.startswith('TERM'):
                ctx.violation(f'rust_{fn}_returns_where_undefined:{und}', f'{fn} returned a term where the textbook operation is undefined ({und})', w)
            continue
        if ans.startswith('PANIC'):
            ctx.violation(f'rust_{fn}_panics_where_defined', f'{fn} panicked although the operation is defined', dict(w, expected=tb.show(exp)))
            continue
        got = tb.parse(ans[5:])
        # modulo A10: hand-built (ill-formed, redundant) wrappers on a metavariable that declares the variable fresh are identified
        # with the bare metavariable - the checker drops them whenever it re-applies a substitution, the textbook keeps an untouched node
        if tb.norm_py(got) != tb.norm_py(exp):
            ctx.violation(f'rust_{fn}_wrong_result', f'{fn} differs from the textbook result', dict(w, expected=tb.show(exp)))
            continue
        if fn not in ('instantiate', 'instantiate_instruction'):
            bad = lemma_check(ctx, rng, e, var, ge, got, 'e' if fn == 'apply_esubst' else 's', 'rust', models)
            if bad:
                ctx.violation(f'rust_{fn}_substitution_lemma', 'result violates the substitution lemma', dict(w, refutation=bad))


def _inst_definite_capture(e, delta):
    """some pending substitution of e, once its base and plug are instantiated, captures definitely"""
    k = e[0]
    if k in ('im', 'ap'):
        return _inst_definite_capture(e[1], delta) or _inst_definite_capture(e[2], delta)
    if k in ('ex', 'mu'):
        return _inst_definite_capture(e[2], delta)
    if k in ('es', 'ss'):
        try:
            base = tb.inst(e[1], delta, 'partial')
            plug = tb.inst(e[3], delta, 'partial')
        except tb.Capture:
            return _inst_definite_capture(e[1], delta) or _inst_definite_capture(e[3], delta)
        return bool(tb.definite_capture(base, e[2], plug, 'e' if k == 'es' else 's'))
    return False


def _hostile_plug(rng, e, int_syms=False):
    """a plug that mentions the variables bound in e (where capture could happen)"""
    es_ = sorted(tb.all_evars(e)) or [0]
    ss_ = sorted(tb.all_svars(e)) or [0]
    s = 0 if int_syms else 'a'
    r = rng.random()
    if r < 0.3:
        return tb.ev(rng.choice(es_))
    if r < 0.55:
        return tb.sv(rng.choice(ss_))
    if r < 0.7:
        return tb.ap(tb.sy(s), tb.ev(rng.choice(es_)))
    if r < 0.8:
        return tb.ap(tb.ev(rng.choice(es_)), tb.sv(rng.choice(ss_)))
    if r < 0.9:
        return tb.ex(rng.choice(es_), tb.ap(tb.ev(rng.choice(es_)), tb.ev(rng.choice(es_))))
    return tb.mu(rng.choice(ss_), tb.ap(tb.sv(rng.choice(ss_)), tb.sy(s)))

"""C16 - valid Metamath proofs translate to checkable proofs of the same statement.

The real `translate` CLI runs in a fresh subprocess on generated databases (G6) whose target verifies
under O6(b); the written .ml-gamma/.ml-claim/.ml-proof triple is given to the real Rust checker and to the
reference machine O2, whose publish journal is compared with the O6(c) images of the target and of the
database's axioms and rules.  Three compression layouts of every derivation must agree.
"""
from __future__ import annotations

import os
import re
import shutil
import subprocess
import sys
from pathlib import Path

READY = True
LEVEL = 'exploration'
TECHNIQUE = ('end-to-end post-condition monitor on the real translate CLI: output triple run by the real checker and by the reference '
             'machine, published claim/axioms compared with an independent structural image of the database; differential over '
             'compression layouts and hash seeds')
LEVEL_TEXT = ('Random databases in the fragment named by the property (constants, n-ary constructors with permuted argument order, '
              'declared and nullary notations, axioms, rules with 1-3 essential hypotheses, prop-1/prop-2/mp, targets with 0-3 '
              'metavariables) with random forward derivations; every target proof is verified by the Metamath verifier O6(b) first, then '
              'written in three compression layouts (no Z, maximal Z, random Z; shuffled label lists) and translated by the real CLI in a '
              'fresh process; plus the shipped benchmarks and re-compressed versions of the small ones. Sampled, not exhaustive.')
LEVEL_NOTE = ('Trusted: O6(b) verifier, O6(c) image (decisions I1-I7 in pi2v/oracles/mm.py, checked against the real translator on '
              'hand-made databases), O2 reference machine. The Rust checker is the real lib.rs compiled into the harness.')
DESIGN_REF = 'DESIGN.md section 5 C16'
NSHARDS = 16
TIMEOUT = {'quick': 1500, 'thorough': 6 * 3600}
RULE = ('A case is one (database, compression layout) translated by the real CLI. distinct_nontrivial = distinct database texts whose '
        'target proof has at least 5 steps.')
ASSUMPTIONS = ['built-in rules (imp-is-pattern, prop-1/-2, mp) are stated over the variables whose $f order equals their role order, as in every shipped database; a small class with other orders is run and classified separately',
               'symbols are compared up to a bijection between Metamath constant names and binary symbol ids',
               'shipped benchmarks that use element/set variables, $d, #Substitution or obfuscated typecodes are outside the documented fragment: translated and counted, failures reported only']
FLOORS = {'quick': {'databases': 200, 'translations': 600, 'translations_checked_by_rust_checker': 400, 'db_with:uses_nary_constructor': 50, 'db_with:uses_notation': 50,
                    'db_with:uses_rule_with_hyps': 50, 'db_with:uses_prop1': 50, 'db_with:uses_prop2': 50, 'db_with:uses_mp': 50,
                    'proofs_with_Z_reuse': 100, 'targets_with_2plus_metavars': 30, 'shipped_benchmarks_translated': 4, 'claim_images_compared': 400,
                    'axiom_images_compared': 400, 'layout_triples_compared': 200}}
FLOORS['thorough'] = dict(FLOORS['quick'], databases=2500, translations=7500)

REPO = Path(os.environ.get('PI2_REPO', '/repo'))
VERIF = Path(__file__).resolve().parents[2]
HEAVY = {'perceptron-goal.mm', 'svm5-goal.mm', 'transfer-batch-1k-goal.mm'}


def prepare(tier):
    from ..rust import build
    b = build.ensure(('hx',))
    return {'binaries': {k: str(v) for k, v in b.items()}}


# ------------------------------------------------------------------------------- running the real CLI
FRAME = re.compile(r'^\s+File "([^"]+)", line (\d+), in (\S+)\s*$')


def parse_traceback(text):
    """-> (exception type, 'file:function', source line of the innermost repo frame)"""
    lines = text.splitlines()
    exc = '?'
    for l in reversed(lines):
        m = re.match(r'^([A-Za-z_][\w.]*)(:|$)', l)
        if m and not l.startswith(' '):
            exc = m.group(1).split('.')[-1]
            break
    where, src = '?', ''
    for i, l in enumerate(lines):
        m = FRAME.match(l)
        if m and 'proof_generation' in m.group(1):
            where = f'{os.path.basename(m.group(1))}:{m.group(3)}'
            src = lines[i + 1].strip() if i + 1 < len(lines) else ''
    return exc, where, src


def run_translate(text, target, workdir: Path, name, seed=0, timeout=900):
    workdir.mkdir(parents=True, exist_ok=True)
    inp = workdir / f'{name}.mm'
    inp.write_text(text)
    out = workdir / f'{name}.out'
    if out.exists():
        shutil.rmtree(out)
    env = dict(os.environ)
    env['PYTHONHASHSEED'] = str(seed)
    env['PYTHONPATH'] = f'{REPO}/generation/src'
    env['PYTHONDONTWRITEBYTECODE'] = '1'
    env.pop('PI2_VERIF', None)
    try:
        r = subprocess.run([sys.executable, '-m', 'proof_generation.metamath.translate', str(inp), str(out), target], cwd=str(workdir), env=env,
                           stdout=subprocess.PIPE, stderr=subprocess.PIPE, timeout=timeout)
    except subprocess.TimeoutExpired:
        return {'rc': None, 'timeout': True}
    res = {'rc': r.returncode, 'seed': seed}
    if r.returncode != 0:
        err = r.stderr.decode('utf8', 'replace')
        exc, where, src = parse_traceback(err)
        res.update(exc=exc, where=where, src=src, stderr=err[-1500:])
    else:
        try:
            res['g'] = (out / f'{name}.ml-gamma').read_bytes()
            res['c'] = (out / f'{name}.ml-claim').read_bytes()
            res['p'] = (out / f'{name}.ml-proof').read_bytes()
        except OSError as e:
            res.update(rc=-1, exc='OutputMissing', where='translate.py:main', src=str(e), stderr=str(e))
    shutil.rmtree(out, ignore_errors=True)
    inp.unlink(missing_ok=True)
    return res


# ------------------------------------------------------------------------------------ judging one run
def judge(res, text, target, hx, want_images=True):
    """-> (list of (mechanism, detail), info).  Empty list: the run satisfies every clause."""
    from ..oracles import mm
    from ..oracles import refmachine as rm
    from ..oracles import tb
    bad = []
    info = {}
    if res.get('timeout'):
        return [('translate_timeout', 'no result within the watchdog')], info
    if res['rc'] != 0:
        src = re.sub(r'\s+', ' ', res.get('src', ''))[:80]
        return [(f'translate_raises:{res["exc"]}:{res["where"]}', f'{res["exc"]} at {res["where"]}: `{src}`')], info
    g, c, p = res['g'], res['c'], res['p']
    if hx is not None:
        a = hx.run_triples([(g, c, p)])[0]
        info['checker'] = a[:60]
        if not a.startswith('ACCEPT'):
            bad.append(('checker_rejects_translated_proof', f'real checker: {a[:200]}'))
    r = rm.run_triple(g, c, p)
    info['o2'] = r[0]
    m = r[-1]
    info['journal'] = (list(m.journal['axioms']), list(m.journal['claims']))
    if r[0] != 'ACCEPT':
        bad.append((f'reference_machine_rejects_translated_proof:{r[1]}', f'O2: {r[1]} {r[2]} in phase {r[3]}'))
    if want_images:
        db = mm.Database(text, verify=False, strict=False)
        im = mm.Imager(db)
        fwd, bwd = {}, {}
        claims = im.claims()
        exp_claim = dict(claims).get(target)
        jc = m.journal['claims']
        info['claims_published'] = len(jc)
        if isinstance(exp_claim, Exception) or exp_claim is None:
            info['claim_image'] = 'unsupported'
        else:
            info['claim_image'] = 'compared'
            exp_all = [e for _, e in claims]
            if any(isinstance(e, Exception) for e in exp_all) or len(jc) != len(exp_all) or not all(
                    mm.match_up_to_symbols(e, got, fwd, bwd) for e, got in zip(exp_all, jc)):
                bad.append(('published_claim_differs_from_target_image',
                            f'expected claims {[tb.show(e) for e in exp_all if not isinstance(e, Exception)]} '
                            f'published {[tb.show(x) for x in jc]}'))
        axs = im.exported_axioms()
        ja = m.journal['axioms']
        info['axioms_published'] = len(ja)
        if any(isinstance(e, Exception) for _, e in axs):
            info['axiom_images'] = 'unsupported'
        else:
            info['axiom_images'] = 'compared'
            ok = len(ja) == len(axs) and all(mm.match_up_to_symbols(e, got, fwd, bwd) for (_, e), got in zip(axs, ja))
            if not ok and len(ja) == len(axs):
                # same multiset in another order?
                rest = list(ja)
                f2, b2 = dict(fwd), dict(bwd)
                perm_ok = True
                for _, e in axs:
                    for k, got in enumerate(rest):
                        if mm.match_up_to_symbols(e, got, f2, b2):
                            del rest[k]
                            break
                    else:
                        perm_ok = False
                        break
                if perm_ok:
                    info['axiom_images'] = 'compared_other_order'
                    ok = True
            if not ok:
                bad.append(('published_axioms_differ_from_database_images',
                            f'expected {[(l, tb.show(e)) for l, e in axs]} published {[tb.show(x) for x in ja]}'))
    return bad, info


def seed_used(seed_note, mech, seed0):
    if seed_note and mech != 'mandatory_hyp_order_hash_seed_dependent':
        return int(list(seed_note)[1])
    return seed0


def shape_tags(features):
    return [f for f in ('builtin_roles_not_in_f_order',) if f in features]


# ------------------------------------------------------------------------------------------- shard
def shard(ctx):
    from ..gen import mmdb
    from ..oracles import mm
    from ..rust.hx import Hx
    from . import c15
    rng = ctx.rng
    if not c15.selfcheck(ctx):
        return
    scratch = ctx.mkscratch()
    try:
        hx = Hx('hx')
    except Exception as e:  # noqa: BLE001
        hx = None
        ctx.note('rust_checker', f'unavailable ({e!r:.200}); acceptance decided by O2 alone')
    seed0 = 0

    def one_case(name, layouts, target, features, nvars, kind, rpn_len=0):
        """layouts: {layout: text}.  Runs, judges, compares layouts, reports."""
        runs = {}
        for lay, text in layouts.items():
            res = run_translate(text, target, scratch, f'{name}_{lay}', seed0)
            bad, info = judge(res, text, target, hx)
            runs[lay] = (res, bad, info)
            ctx.count('translations')
            ctx.case(text, rpn_len >= 5)
            if res.get('rc') == 0:
                ctx.count('translations_succeeded')
                if hx is not None:
                    ctx.count('translations_checked_by_rust_checker')
                if info.get('claim_image') == 'compared':
                    ctx.count('claim_images_compared')
                if info.get('axiom_images', '').startswith('compared'):
                    ctx.count('axiom_images_compared')
                if info.get('axiom_images') == 'compared_other_order':
                    ctx.count('axioms_published_in_other_order')
        # layouts must agree
        if len(runs) > 1:
            ctx.count('layout_triples_compared')
            # "same outcome": same verdict on every clause and the same published axioms and claims (as terms, up to
            # one renaming of symbol ids; the gamma *bytes* legitimately differ because the serializer's optimiser
            # memoises patterns depending on how often the proof uses them)
            sig = {}
            for lay, (res, bad, info) in runs.items():
                sig[lay] = ('fail', bad[0][0]) if res.get('rc') != 0 else ('ok', tuple(b[0] for b in bad))
            verdicts = {lay: (s[0] if s[0] == 'fail' else 'translated') + ':' + ','.join([s[1]] if s[0] == 'fail' else s[1]) for lay, s in sig.items()}
            if len(set(sig.values())) > 1:
                runs['_layout_dependent'] = verdicts
            elif all(res.get('rc') == 0 for res, _, _ in runs.values()):
                from ..oracles import tb as _tb
                js = [info['journal'] for _, _, info in runs.values()]
                same = True
                for j in js[1:]:
                    fwd, bwd = {}, {}
                    a0, c0 = js[0]
                    if len(j[0]) != len(a0) or len(j[1]) != len(c0) or not all(
                            _tb.match_symbols(x, y, fwd, bwd) for x, y in zip(a0 + c0, j[0] + j[1])):
                        same = False
                if same:
                    ctx.count('layouts_publish_same_axioms_and_claims')
                else:
                    ctx.violation('compression_layout_changes_published_axioms_or_claims', f'{name}: {verdicts}',
                                  {'databases': layouts, 'target': target, 'verdicts': verdicts, 'features': features,
                                   'journals': {lay: [[_tb.show(x) for x in info['journal'][0]], [_tb.show(x) for x in info['journal'][1]]]
                                                for lay, (_, _, info) in runs.items()}})
        failing = [(lay, res, bad) for lay, (res, bad, info) in runs.items() if not lay.startswith('_') and bad]
        if not failing:
            ctx.count('cases_all_clauses_hold')
            return True
        # root cause class: does the outcome depend on the hash seed?
        lay, res, bad = failing[0]
        text = layouts[lay]
        mech, detail = bad[0]
        seed_note = None
        if nvars >= 2:
            # Which table of mandatory hypotheses does the real converter build under this hash seed (C15's monitor)?
            # If it is not the database order, look for a seed under which it is and translate again: if that run
            # satisfies every clause the root cause is the hash-seed dependent order, otherwise it is something else.
            sdb = mm.Database(text, verify=False, strict=False)
            mand = sdb.mandatory_labels(sdb.labels[target])
            case = [{'text': text, 'target': target}]
            def table(seed):
                r = c15.run_worker(case, seed, scratch, f'{name}_{lay}_tab')[0]
                return [r.get('labels', {}).get(str(k + 1)) for k in range(len(mand))]
            t0 = table(seed0)
            if t0 != mand:
                good = next((s for s in range(1, 200) if table(s) == mand), None)
                ctx.count('hash_seed_reruns')
                if good is not None:
                    r2 = run_translate(text, target, scratch, f'{name}_{lay}_s{good}', good)
                    b2, _ = judge(r2, text, target, hx)
                    seed_note = {str(seed0): {'mandatory_table': t0, 'outcome': mech},
                                 str(good): {'mandatory_table': mand, 'outcome': b2[0][0] if b2 else 'all clauses hold'}}
                    if not b2:
                        mech = 'mandatory_hyp_order_hash_seed_dependent'
                        detail = (f'converter orders the mandatory hypotheses {t0} under PYTHONHASHSEED={seed0} (database order {mand}) and the '
                                  f'translation fails: {detail}; under PYTHONHASHSEED={good} the order is right and every clause holds')
                    else:
                        res, bad = r2, b2
                        mech, detail = b2[0]
                        detail += f' (under PYTHONHASHSEED={good}, where the mandatory-hypothesis order is the database order)'
        if mech != 'mandatory_hyp_order_hash_seed_dependent':
            tags = shape_tags(features)
            if tags:
                if mech.startswith('translate_raises:'):
                    mech = 'translate_raises'      # where the replay trips over the operand order is incidental
                mech += '|' + '+'.join(tags)
            if '_layout_dependent' in runs:
                mech += '|layout_dependent'
        w = {'database': text, 'target': target, 'layout': lay, 'hash_seed': seed_used(seed_note, mech, seed0), 'features': features, 'kind': kind,
             'failed_clauses': [list(b) for b in bad], 'stderr_tail': res.get('stderr', '')[-1200:],
             'outcome_by_hash_seed': seed_note, 'outcome_by_layout': runs.get('_layout_dependent'),
             'command': f'PYTHONHASHSEED={seed_used(seed_note, mech, seed0)} PYTHONPATH=$PI2_REPO/generation/src python -m proof_generation.metamath.translate db.mm out {target}'}
        ctx.violation(mech, f'{kind} {name} target {target} ({nvars} metavariables, {rpn_len} proof steps, layout {lay}): {detail}', w)
        return False

    # ---- shipped benchmarks (one per shard) and re-compressed small ones
    bench = [f for f in sorted((REPO / 'generation' / 'mm-benchmarks').glob('*.mm')) if f.read_text().strip()]
    for i, f in enumerate(bench):
        if i % ctx.nshards != ctx.shard:
            continue
        if ctx.quick and f.name in HEAVY:
            ctx.count('shipped_benchmarks_left_to_thorough_tier')
            continue
        text = f.read_text()
        db, err = mm.verify_text(text, strict=False)
        if err is not None:
            continue
        ps = [a for a in db.assertions if a.kind == '$p']
        if not ps:
            continue
        target = ps[-1].label
        im = mm.Imager(db)
        in_fragment = (ps[-1].stmt[0] == '|-' and not im.other_vars and '$d' not in mm.tokenize(text)
                       and not any(isinstance(e, Exception) for _, e in im.exported_axioms() + im.claims()))
        res = run_translate(text, target, scratch, f.stem, seed0, timeout=1200)
        bad, info = judge(res, text, target, hx, want_images=in_fragment)
        ctx.count('shipped_benchmarks_run')
        ctx.case(('shipped', f.name), True)
        if res.get('rc') == 0:
            ctx.count('shipped_benchmarks_translated')
        if in_fragment:
            ctx.count('shipped_benchmarks_in_fragment')
            if bad:
                ctx.violation(bad[0][0] + '|shipped', f'shipped {f.name} target {target}: {bad[0][1]}',
                              {'file': f'generation/mm-benchmarks/{f.name}', 'target': target, 'failed_clauses': [list(b) for b in bad],
                               'stderr_tail': res.get('stderr', '')[-1200:]})
            else:
                ctx.count('shipped_benchmarks_all_clauses_hold')
        else:
            ctx.count('shipped_benchmarks_outside_fragment')
            if bad:
                ctx.count('reported_only:shipped_outside_fragment:' + bad[0][0].split(':')[0])
                ctx.note(f'shipped_outside_fragment:{f.name}', bad[0][1][:300])
        # re-compressed versions of the small in-fragment ones
        if in_fragment and len(text) < 5000 and res.get('rc') == 0:
            dbt = mm.Database(text, strict=False, keep_trees=True)
            tree = dbt.trees.get(target)
            a = dbt.labels[target]
            if tree is not None and a.proof and a.proof[0] == '(':
                head = text[:text.rindex('$=')]
                lays = {}
                for lay in mmdb.LAYOUTS:
                    listed, steps = mmdb.compress(tree, dbt.mandatory_labels(a), rng, lay)
                    t2 = head + '$= ' + mmdb.proof_text(rng, listed, steps) + ' $.\n' + ('$}\n' if text.rstrip().endswith('$}') else '')
                    d2, e2 = mm.verify_text(t2, strict=False)
                    if e2 is None:
                        lays[lay] = t2
                if len(lays) == 3:
                    ctx.count('perturbed_benchmarks')
                    one_case(f'{f.stem}_re', lays, target, ['perturbed_benchmark'], len(dbt.mandatory_labels(a)), 'recompressed benchmark', len(mmdb.flatten(tree)))

    # ---- generated databases
    total = ctx.scale(320, 3200)
    done = 0
    nsample = 0
    while done < total:
        g = mmdb.make_case(rng, max_rpn=1500 if ctx.quick else 4000)
        if g is None:
            continue
        done += 1
        name = f'g{ctx.shard}_{done}'
        feats = g['features']
        ctx.count('databases')
        for f in feats:
            if f.startswith('uses_') or f in ('multi_var_target', 'builtin_roles_not_in_f_order', 'f_permuted', 'wild_whitespace', 'target_in_block', 'nullary_notation', 'domain_value'):
                ctx.count('db_with:' + f)
        nv = len(g['tvars'])
        ctx.count(f'target_metavars:{nv}')
        if nv >= 2:
            ctx.count('targets_with_2plus_metavars')
        for lay, d in g['layouts'].items():
            if d['reuse']:
                ctx.count('proofs_with_Z_reuse')
        ok = one_case(name, {lay: d['text'] for lay, d in g['layouts'].items()}, g['target'], feats, nv, 'generated', g['rpn_len'])
        if ok and nsample < 2 and g['rpn_len'] > 20 and len(g['layouts']['max']['text']) < 4000:
            nsample += 1
            ctx.sample({'database': g['layouts']['max']['text'], 'target': g['target'], 'features': feats,
                        'verdict': 'translated in 3 layouts; checker and O2 accept; claim and axioms equal the O6(c) images'})
    if hx is not None:
        hx.close()


def replay(w):
    from ..rust.hx import Hx
    wit = w['witness']
    if 'database' not in wit:
        text = (REPO / wit['file']).read_text()
    else:
        text = wit['database']
    scratch = VERIF / '.build' / 'scratch' / f'replay{os.getpid()}'
    try:
        hx = Hx('hx')
    except Exception:  # noqa: BLE001
        hx = None
    try:
        seeds = [wit.get('hash_seed', 0)]
        if wit.get('outcome_by_hash_seed') and w['mechanism'] == 'mandatory_hyp_order_hash_seed_dependent':
            seeds = [int(s) for s in wit['outcome_by_hash_seed']]
        still = False
        outs = {}
        for s in seeds:
            res = run_translate(text, wit['target'], scratch, 'replay', s)
            bad, info = judge(res, text, wit['target'], hx, want_images='database' in wit)
            outs[s] = bad[0][0] if bad else 'all clauses hold'
            print(f'PYTHONHASHSEED={s}:', bad or 'all clauses hold', info)
            if bad and s == seeds[0]:
                still = True
                if res.get('stderr'):
                    print(res['stderr'][-600:])
        if len(seeds) > 1:
            return len(set(outs.values())) > 1
        return still
    finally:
        if hx is not None:
            hx.close()
        shutil.rmtree(scratch, ignore_errors=True)

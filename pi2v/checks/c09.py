"""C09 - the tautology prover is a correct decision procedure (runtime monitor on the real Tautology class)."""
from __future__ import annotations

import itertools
import signal
import traceback
from contextlib import contextmanager

from .. import repo
from ..oracles import proptable as pt
from ..oracles import tb

READY = True
LEVEL = 'exploration'
TECHNIQUE = ('runtime post-condition monitoring of the real prove_tautology / to_conj_form / propag_neg / to_cnf / to_clauses / '
             'start_resolution_algorithm (every call, including the recursive ones) against truth tables, shape predicates and '
             'satisfiability by enumeration; sampled replay of the returned proofs on the stateful interpreter')
LEVEL_TEXT = ('Every propositional pattern up to a connective bound (and random larger ones) is handed to the real prover. The verdict must agree with '
              'the truth table, the static conclusion of the returned proof must be the pattern (or its negation) after notation expansion; every call '
              'of a normal-form stage must return a truth-table-equivalent result in the advertised shape with implication proofs whose static '
              'conclusions are the advertised implications; start_resolution_algorithm is called on every ordering of every small clause set and must '
              'answer what enumeration of assignments says. A seeded sample of the returned proofs is replayed on a StatefulInterpreter after the '
              'module\'s gamma and claim phases. Exploration: nothing is claimed about formulas or clause sets beyond the explored ones.')
LEVEL_NOTE = 'Trusted: O4 truth tables / shape predicates / clause enumeration (self-checked at start), O1 notation expansion and structural equality.'
DESIGN_REF = 'DESIGN.md section 5 C09'
NSHARDS = 16
TIMEOUT = {'quick': 1500, 'thorough': 4 * 3600}
RULE = ('A case is one propositional pattern given to prove_tautology (with every stage call it triggers checked), or one ordered clause list given '
        'to start_resolution_algorithm. Formula cases: all patterns over phi0..phi(k-1), bot, ->, and the notations top/neg/and/or up to the connective '
        'bound (top counts as one connective), then random ones with 4..14 connectives over up to 5 variables. Clause cases: every ordering of every '
        'set of distinct non-tautological clauses (literals sorted) within the bound, plus random lists with shuffled literals, duplicates and '
        'tautological clauses. distinct_nontrivial = distinct cases with at least one connective / at least two clauses.')
ASSUMPTIONS = ['empty clauses are not given to start_resolution_algorithm (to_clauses never produces one)',
               'a replay that exceeds the per-case watchdog is counted replay_inconclusive and decides nothing']
EXHAUSTIVE = {'quick': 'all patterns with <=3 connectives over {phi0, phi1, bot} with ->, top, neg, and, or; every ordering of every set of <=3 distinct '
                       'non-tautological clauses over 3 variables',
              'thorough': 'all patterns with <=3 connectives over {phi0, phi1, phi2, bot}, all with 4 connectives whose variables first occur in the order '
                          'phi0, phi1, phi2; every ordering of every set of <=4 distinct non-tautological clauses over 3 variables'}
FLOORS = {'quick': {'input:tautology': 100, 'input:unsatisfiable': 100, 'input:contingent': 100, 'clause_orderings': 1000,
                    'resolution:expected_refutation': 300, 'resolution:expected_none': 300, 'resolution:expected_valid': 20,
                    'stage:to_conj_form': 200, 'stage:propag_neg': 200, 'stage:to_cnf': 200, 'stage:to_clauses': 200,
                    'stage_proof_conclusions_checked': 1000, 'static_conclusions_checked': 200, 'replays_ok': 40, 'random_formulas': 100,
                    'exhaustive_formulas:3_connectives': 14074, 'clause_sets_all_orderings:3': 2600}}
FLOORS['thorough'] = {k: v * 4 for k, v in FLOORS['quick'].items() if ':3' not in k}
FLOORS['thorough'].update({'exhaustive_formulas:3_connectives': 41552, 'exhaustive_formulas:4_connectives': 274095, 'clause_sets_all_orderings:4': 14950})

RESOLUTION_MECHS = ('resolution_incomplete_for_some_clause_order', 'resolution_incomplete_for_every_tried_clause_order')


def E(x):
    return tb.norm_py(tb.of_repo(x))


# ------------------------------------------------------------------ formula descriptors
# ('v', i) ('bot',) | ('top',) ('neg', a) ('im', a, b) ('and', a, b) ('or', a, b)
def d_term(d):
    k = d[0]
    if k == 'v':
        return tb.mv(d[1])
    if k == 'bot':
        return tb.BOT
    if k == 'top':
        return tb.TOP
    if k == 'neg':
        return tb.neg(d_term(d[1]))
    if k == 'im':
        return tb.im(d_term(d[1]), d_term(d[2]))
    if k == 'and':
        return tb.and_(d_term(d[1]), d_term(d[2]))
    if k == 'or':
        return tb.or_(d_term(d[1]), d_term(d[2]))
    raise ValueError(k)


def d_repo(d, P):
    k = d[0]
    if k == 'v':
        return P.MetaVar(d[1])
    if k == 'bot':
        return P.bot()
    if k == 'top':
        return P.top()
    if k == 'neg':
        return P.neg(d_repo(d[1], P))
    if k == 'im':
        return P.Implies(d_repo(d[1], P), d_repo(d[2], P))
    if k == 'and':
        return P._and(d_repo(d[1], P), d_repo(d[2], P))
    if k == 'or':
        return P._or(d_repo(d[1], P), d_repo(d[2], P))
    raise ValueError(k)


def d_str(d) -> str:
    k = d[0]
    if k == 'v':
        return f'phi{d[1]}'
    if k in ('bot', 'top'):
        return k
    if k == 'neg':
        return '~' + d_str(d[1])
    op = {'im': '->', 'and': '/\\', 'or': '\\/'}[k]
    return f'({d_str(d[1])} {op} {d_str(d[2])})'


def d_code(d) -> str:
    """python expression over the repo's own constructors (for the reproducer in a witness)"""
    k = d[0]
    if k == 'v':
        return f'MetaVar({d[1]})'
    if k in ('bot', 'top'):
        return k + '()'
    if k == 'neg':
        return f'neg({d_code(d[1])})'
    f = {'im': 'Implies', 'and': '_and', 'or': '_or'}[k]
    return f'{f}({d_code(d[1])}, {d_code(d[2])})'


def d_conn(d) -> int:
    k = d[0]
    if k in ('v', 'bot'):
        return 0
    if k == 'top':
        return 1
    return 1 + sum(d_conn(x) for x in d[1:])


def d_from_json(j):
    return tuple(d_from_json(x) if isinstance(x, (list, tuple)) else x for x in j)


def d_vars_in_order(d, acc):
    if d[0] == 'v':
        if d[1] not in acc:
            acc.append(d[1])
    else:
        for x in d[1:]:
            if isinstance(x, tuple):
                d_vars_in_order(x, acc)
    return acc


def canonical_vars(d) -> bool:
    vs = d_vars_in_order(d, [])
    return vs == list(range(len(vs)))


def formulas_of_size(nvars):
    """by[n] = list of all descriptors with exactly n connectives (memoised up to what is asked)"""
    by = {0: [('v', i) for i in range(nvars)] + [('bot',)]}

    def get(n):
        if n in by:
            return by[n]
        cur = [('top',)] if n == 1 else []
        for a in get(n - 1):
            cur.append(('neg', a))
        for k in range(0, n):
            for a in get(k):
                for b in get(n - 1 - k):
                    cur.append(('im', a, b))
                    cur.append(('and', a, b))
                    cur.append(('or', a, b))
        by[n] = cur
        return cur
    return get


def stream_size(nvars, n, get):
    """generator over descriptors with exactly n connectives without materialising the list"""
    if n == 1:
        yield ('top',)
    for a in get(n - 1):
        yield ('neg', a)
    for k in range(0, n):
        for a in get(k):
            for b in get(n - 1 - k):
                yield ('im', a, b)
                yield ('and', a, b)
                yield ('or', a, b)


def rand_formula(rng, n, nvars):
    if n == 0:
        return ('v', rng.randrange(nvars)) if rng.random() < 0.9 else ('bot',)
    r = rng.random()
    if n == 1 and r < 0.05:
        return ('top',)
    if r < 0.25:
        return ('neg', rand_formula(rng, n - 1, nvars))
    k = rng.randint(0, n - 1)
    return (rng.choice(('im', 'im', 'and', 'or')), rand_formula(rng, k, nvars), rand_formula(rng, n - 1 - k, nvars))


# ------------------------------------------------------------------ watchdog
class Watchdog(BaseException):
    pass


@contextmanager
def watchdog(secs: float):
    def h(sig, frm):
        raise Watchdog()
    old = signal.signal(signal.SIGALRM, h)
    signal.setitimer(signal.ITIMER_REAL, secs)
    try:
        yield
    finally:
        signal.setitimer(signal.ITIMER_REAL, 0)
        signal.signal(signal.SIGALRM, old)


def raising_site(ex) -> str:
    """innermost toolkit function on the traceback (stable root-cause key)"""
    site = 'unknown'
    for fs in traceback.extract_tb(ex.__traceback__):
        fn = fs.filename.replace('\\', '/')
        if '/proof_generation/' in fn:
            site = fn.rsplit('/', 1)[1][:-3] + '.' + fs.name
    return site


class Reservoir:
    def __init__(self, k, rng):
        self.k = k
        self.rng = rng
        self.n = 0
        self.items = []

    def add(self, item):
        self.n += 1
        if len(self.items) < self.k:
            self.items.append(item)
        else:
            j = self.rng.randrange(self.n)
            if j < self.k:
                self.items[j] = item


# ------------------------------------------------------------------ the monitor
class Monitor:
    """The real Tautology class with post-condition checks around the stage methods and the resolution entry point."""

    def __init__(self, ctx, stage_res=None, res_res=None):
        self.ctx = ctx
        self.case = None
        self.case_mechs = set()
        self.off = 0
        self.stage_res = stage_res
        self.res_res = res_res
        self.P = repo.P()
        T = repo.mod('tautology')
        mon = self

        class MonitoredTautology(T.Tautology):
            def to_conj_form(self, pat):
                out = super().to_conj_form(pat)
                if not mon.off:
                    mon.after_conj(pat, out)
                return out

            def propag_neg(self, term):
                s_in = None if mon.off else mon.snap(term, 'propag_neg', 'input')
                out = super().propag_neg(term)
                if s_in is not None:
                    mon.after_tree_stage('propag_neg', s_in, out, pt.shape_or_neg_var, pt.shape_neg_at_leaves)
                return out

            def to_cnf(self, term):
                s_in = None if mon.off else mon.snap(term, 'to_cnf', 'input')
                out = super().to_cnf(term)
                if s_in is not None:
                    mon.after_tree_stage('to_cnf', s_in, out, pt.shape_neg_at_leaves, pt.shape_cnf)
                return out

            def to_clauses(self, term):
                s_in = None if mon.off else mon.snap(term, 'to_clauses', 'input')
                out = super().to_clauses(term)
                if s_in is not None:
                    mon.after_clauses(s_in, out)
                return out

            def start_resolution_algorithm(self, clauses):
                given = [list(c) for c in clauses]
                out = super().start_resolution_algorithm(clauses)
                if not mon.off:
                    mon.after_resolution(given, out)
                return out

        self.taut = MonitoredTautology()
        self.I = repo.mod('interpreter')
        self.S = repo.mod('stateful_interpreter')

    # -- bookkeeping
    def begin(self, case):
        self.case = case
        self.case_mechs = set()

    def viol(self, mech, summary, **w):
        self.case_mechs.add(mech)
        self.ctx.violation(mech, summary, dict(case=self.case, **w))

    def snap(self, term, stage, what):
        try:
            return pt.cf_snapshot(term)
        except (TypeError, AttributeError) as ex:
            self.viol(f'stage_output_wrong_shape:{stage}', f'{stage}: {what} is not a ConjForm tree ({ex!r})', stage=stage)
            return None

    # -- to_conj_form
    def after_conj(self, pat, out):
        ctx = self.ctx
        ctx.count('stage:to_conj_form')
        in_e = E(pat)
        if not pt.is_prop(in_e):
            return
        try:
            cf, pf1, pf2 = out
        except (TypeError, ValueError):
            self.viol('stage_output_wrong_shape:to_conj_form', 'to_conj_form did not return a triple', stage='to_conj_form', input=tb.pretty(in_e))
            return
        s = self.snap(cf, 'to_conj_form', 'output')
        if s is None:
            return
        w = dict(stage='to_conj_form', input=tb.pretty(in_e), output=pt.cf_pretty(s))
        if not pt.shape_conj_form_result(s):
            self.viol('stage_output_wrong_shape:to_conj_form', 'to_conj_form returned a tree that is not made of ORs, negations and variables (or Top/Bottom)', **w)
        order = sorted(pt.atoms(in_e) | pt.cf_atoms(s))
        t_in, t_out = pt.table(in_e, order), pt.cf_table(s, order)
        if t_in != t_out:
            self.viol('stage_output_not_equivalent:to_conj_form', 'to_conj_form returned a formula that is not logically equivalent to its input',
                      differs_under=pt.differing_assignment(t_in, t_out, order), **w)
            return
        if s[0] == 'bot':
            ctx.count('to_conj_form:constant_result')
            want = in_e if s[1] else tb.neg(in_e)
            if pf2 is not None:
                self.viol('stage_proof_conclusion_not_advertised:to_conj_form:pf2', 'to_conj_form returned a second proof for a Top/Bottom result', **w)
            self.check_pf('to_conj_form', 'pf1', pf1, want, w)
        else:
            o_e = pt.cf_term(s)
            self.check_pf('to_conj_form', 'pf1', pf1, tb.im(in_e, o_e), w)
            self.check_pf('to_conj_form', 'pf2', pf2, tb.im(o_e, in_e), w)

    def check_pf(self, stage, which, pf, want_e, w):
        self.ctx.count('stage_proof_conclusions_checked')
        conc = getattr(pf, 'conc', None)
        if conc is None:
            self.viol(f'stage_proof_conclusion_not_advertised:{stage}:{which}', f'{stage}: {which} is not a proof thunk', **w)
            return
        got = E(conc)
        if got != tb.norm_py(want_e):
            self.viol(f'stage_proof_conclusion_not_advertised:{stage}:{which}', f'{stage}: static conclusion of {which} is not the advertised implication',
                      advertised=tb.pretty(want_e), got=tb.pretty(got), **w)
            return
        if self.stage_res is not None:
            self.stage_res.add((pf, want_e, f'{stage}:{which}', self.case))

    # -- propag_neg / to_cnf
    def after_tree_stage(self, stage, s_in, out, pre, post):
        ctx = self.ctx
        ctx.count('stage:' + stage)
        if not pre(s_in):
            ctx.count('stage_precondition_unmet:' + stage)
            return
        try:
            cf, pf1, pf2 = out
        except (TypeError, ValueError):
            self.viol(f'stage_output_wrong_shape:{stage}', f'{stage} did not return a triple', stage=stage, input=pt.cf_pretty(s_in))
            return
        s = self.snap(cf, stage, 'output')
        if s is None:
            return
        w = dict(stage=stage, input=pt.cf_pretty(s_in), output=pt.cf_pretty(s))
        if not post(s):
            self.viol(f'stage_output_wrong_shape:{stage}', f'{stage} returned a tree that is not in its advertised shape', **w)
        order = sorted(pt.cf_atoms(s_in) | pt.cf_atoms(s))
        t_in, t_out = pt.cf_table(s_in, order), pt.cf_table(s, order)
        if t_in != t_out:
            self.viol(f'stage_output_not_equivalent:{stage}', f'{stage} returned a formula that is not logically equivalent to its input',
                      differs_under=pt.differing_assignment(t_in, t_out, order), **w)
            return
        i_e, o_e = pt.cf_term(s_in), pt.cf_term(s)
        self.check_pf(stage, 'pf1', pf1, tb.im(i_e, o_e), w)
        self.check_pf(stage, 'pf2', pf2, tb.im(o_e, i_e), w)

    # -- to_clauses
    def after_clauses(self, s_in, out):
        ctx = self.ctx
        ctx.count('stage:to_clauses')
        if not pt.shape_cnf(s_in):
            ctx.count('stage_precondition_unmet:to_clauses')
            return
        try:
            cls, pf1, pf2 = out
        except (TypeError, ValueError):
            self.viol('stage_output_wrong_shape:to_clauses', 'to_clauses did not return a triple', stage='to_clauses', input=pt.cf_pretty(s_in))
            return
        w = dict(stage='to_clauses', input=pt.cf_pretty(s_in), output=repr(cls)[:400])
        if not pt.shape_clause_list(cls):
            self.viol('stage_output_wrong_shape:to_clauses', 'to_clauses returned something that is not a non-empty list of non-empty lists of non-zero ints', **w)
            return
        order = sorted(pt.cf_atoms(s_in) | pt.clause_atoms(cls))
        t_in, t_out = pt.cf_table(s_in, order), pt.clauses_table(cls, order)
        if t_in != t_out:
            self.viol('stage_output_not_equivalent:to_clauses', 'to_clauses returned a clause list that is not logically equivalent to its input',
                      differs_under=pt.differing_assignment(t_in, t_out, order), **w)
            return
        i_e, o_e = pt.cf_term(s_in), pt.clauses_term(cls)
        self.check_pf('to_clauses', 'pf1', pf1, tb.im(i_e, o_e), w)
        self.check_pf('to_clauses', 'pf2', pf2, tb.im(o_e, i_e), w)

    # -- resolution
    def after_resolution(self, clauses, out):
        ctx = self.ctx
        ctx.count('resolution_calls')
        if any(not cl for cl in clauses) or (clauses and not pt.shape_clause_list(clauses)):
            ctx.count('resolution_input_outside_domain')
            return
        if len(pt.clause_atoms(clauses)) > pt.MAX_ATOMS:
            ctx.count('resolution_input_too_many_atoms')
            return
        status = pt.clauses_status(clauses)
        ctx.count({'valid': 'resolution:expected_valid', 'unsatisfiable': 'resolution:expected_refutation', 'contingent': 'resolution:expected_none'}[status])
        w = dict(clauses=clauses, status_by_enumeration=status,
                 reproducer=f'Tautology().start_resolution_algorithm({clauses!r})')
        if out is not None and not (isinstance(out, tuple) and len(out) == 2 and isinstance(out[0], bool)):
            self.viol('resolution_result_malformed', 'start_resolution_algorithm returned neither None nor (bool, proof)', got=repr(out)[:200], **w)
            return
        got = 'none' if out is None else ('valid' if out[0] else 'refutation')
        w['got'] = got
        if status == 'unsatisfiable' and got == 'none':
            other = self.other_orderings(clauses)
            w['an_ordering_that_is_refuted'] = other
            mech = RESOLUTION_MECHS[0] if other is not None else RESOLUTION_MECHS[1]
            self.viol(mech, 'start_resolution_algorithm reports "inconclusive" for an unsatisfiable clause list'
                      + (' although another ordering of the same clauses is refuted' if other is not None else ''), **w)
            return
        if status == 'valid' and got == 'none':
            self.viol('resolution_declines_valid_clause_list', 'start_resolution_algorithm reports "inconclusive" although every clause contains a complementary pair', **w)
            return
        if got == 'refutation' and status != 'unsatisfiable':
            self.viol('resolution_refutes_satisfiable_clause_list', 'start_resolution_algorithm returned a refutation of a satisfiable clause list', **w)
            return
        if got == 'valid' and status != 'valid':
            self.viol('resolution_proves_invalid_clause_list', 'start_resolution_algorithm returned a proof of a clause list that is not valid', **w)
            return
        if out is not None:
            term = pt.clauses_term(clauses)
            want = term if out[0] else tb.neg(term)
            ctx.count('resolution_proof_conclusions_checked')
            conc = getattr(out[1], 'conc', None)
            gotc = None if conc is None else E(conc)
            if gotc != tb.norm_py(want):
                self.viol(f'resolution_proof_conclusion_not_advertised:{got}', 'static conclusion of the proof returned by start_resolution_algorithm is not the clause conjunction / its negation',
                          advertised=tb.pretty(want), got_conclusion=None if gotc is None else tb.pretty(gotc), **w)
            elif self.res_res is not None:
                self.res_res.add((out[1], want, 'start_resolution_algorithm', self.case))

    def other_orderings(self, clauses):
        """an ordering of the same clause list on which the real function does return a refutation, or None"""
        n = len(clauses)
        if n <= 5:
            perms = itertools.permutations(range(n))
        else:
            perms = [tuple(range(n)), tuple(reversed(range(n))), tuple(sorted(range(n), key=lambda i: (len(clauses[i]), clauses[i]))),
                     tuple(sorted(range(n), key=lambda i: (-len(clauses[i]), clauses[i])))] + [tuple(range(k, n)) + tuple(range(k)) for k in range(1, n)]
        self.off += 1
        try:
            for p in perms:
                cand = [clauses[i] for i in p]
                try:
                    r = self.taut.start_resolution_algorithm([list(c) for c in cand])
                except Exception:
                    continue
                if r is not None and r[0] is False:
                    return cand
        finally:
            self.off -= 1
        return None

    # -- replay on the stateful interpreter
    def fresh_interpreter(self):
        it = self.S.StatefulInterpreter(self.I.ExecutionPhase.Gamma)
        self.taut.execute_gamma_phase(it)
        self.taut.execute_claims_phase(it)
        return it

    def replay(self, pf, want_e, where, case, secs):
        ctx = self.ctx
        self.begin(case)
        it = self.fresh_interpreter()
        depth0 = len(it.stack)
        try:
            with watchdog(secs):
                proved = pf(it)
        except Watchdog:
            ctx.count('replay_inconclusive')
            return
        except Exception as ex:
            self.viol(f'proof_replay_fails:{where.split(":")[0]}:{type(ex).__name__}', f'replaying the proof returned by {where} on a StatefulInterpreter raised {type(ex).__name__} in {raising_site(ex)}',
                      where=where, error=repr(ex)[:300], site=raising_site(ex), advertised=tb.pretty(want_e))
            return
        got = E(proved.conclusion)
        if got != tb.norm_py(want_e):
            self.viol(f'proof_replay_other_conclusion:{where.split(":")[0]}', f'the proof returned by {where} replays to another conclusion', where=where,
                      advertised=tb.pretty(want_e), got=tb.pretty(got))
            return
        if len(it.stack) != depth0 + 1 or it.stack[-1] is not proved and it.stack[-1] != proved:
            self.viol(f'proof_replay_stack_not_proved_on_top:{where.split(":")[0]}', f'after replaying the proof returned by {where} the interpreter stack is not the previous stack plus the proved conclusion',
                      where=where, stack_depth_before=depth0, stack_depth_after=len(it.stack))
            return
        ctx.count('replays_ok')
        ctx.count('replays_ok:' + where.split(':')[0])


# ------------------------------------------------------------------ one formula case
def check_formula(mon: Monitor, d, build_secs, final_res=None):
    ctx = mon.ctx
    P = mon.P
    e = d_term(d)
    order = sorted(pt.atoms(e))
    status = pt.classify_table(pt.table(e, order), order)
    case = {'kind': 'formula', 'formula': d_str(d), 'desc': d, 'truth_table_says': status,
            'reproducer': f'Tautology().prove_tautology({d_code(d)})'}
    mon.begin(case)
    ctx.case(('f', d), nontrivial=d_conn(d) > 0)
    ctx.count('input:' + status)
    p = d_repo(d, P)
    try:
        with watchdog(build_secs):
            res = mon.taut.prove_tautology(p)
    except Watchdog:
        ctx.count('build_inconclusive')
        return
    except Exception as ex:
        site = raising_site(ex)
        mon.viol(f'prover_raises:{type(ex).__name__}:{site}', f'prove_tautology raised {type(ex).__name__} in {site} on a propositional pattern', error=repr(ex)[:300], site=site)
        return
    if res is not None and not (isinstance(res, tuple) and len(res) == 2 and isinstance(res[0], bool)):
        mon.viol('prover_result_malformed', 'prove_tautology returned neither None nor (bool, proof)', got=repr(res)[:200])
        return
    got = 'declined' if res is None else ('proved' if res[0] else 'refuted')
    want = {'tautology': 'proved', 'unsatisfiable': 'refuted', 'contingent': 'declined'}[status]
    if got != want:
        if mon.case_mechs & set(RESOLUTION_MECHS) and got == 'declined':
            ctx.count('wrong_verdict_explained_by_resolution_finding')
        else:
            mon.viol(f'prover_wrong_verdict:{status}_input_{got}', f'prove_tautology {got} a pattern that is {status} by its truth table', got=got,
                     falsified_by=pt.falsifying_assignment(pt.table(e, order), order) if status != 'tautology' else None)
        return
    ctx.count('verdict_correct')
    if res is None:
        return
    want_e = e if res[0] else tb.neg(e)
    ctx.count('static_conclusions_checked')
    conc = getattr(res[1], 'conc', None)
    gotc = None if conc is None else E(conc)
    if gotc != tb.norm_py(want_e):
        mon.viol(f'proof_conclusion_is_not_the_pattern:{got}', 'the static conclusion of the returned proof is not the pattern (resp. its negation)',
                 advertised=tb.pretty(want_e), got_conclusion=None if gotc is None else tb.pretty(gotc))
        return
    if final_res is not None:
        final_res.add((res[1], want_e, 'prove_tautology', case))


def check_clauses(mon: Monitor, clauses, build_secs):
    ctx = mon.ctx
    case = {'kind': 'clauses', 'clauses': [list(c) for c in clauses], 'reproducer': f'Tautology().start_resolution_algorithm({[list(c) for c in clauses]!r})'}
    mon.begin(case)
    ctx.case(('c', tuple(tuple(c) for c in clauses)), nontrivial=len(clauses) > 1)
    ctx.count('clause_orderings')
    try:
        with watchdog(build_secs):
            mon.taut.start_resolution_algorithm([list(c) for c in clauses])
    except Watchdog:
        ctx.count('build_inconclusive')
    except Exception as ex:
        site = raising_site(ex)
        mon.viol(f'resolution_raises:{type(ex).__name__}:{site}', f'start_resolution_algorithm raised {type(ex).__name__} in {site}', error=repr(ex)[:300], site=site)


# ------------------------------------------------------------------ workload
def shard(ctx):
    rng = ctx.rng
    pt.selfcheck()
    quick = ctx.quick
    final_res = Reservoir(4 if quick else 60, rng)
    stage_res = Reservoir(3 if quick else 40, rng)
    res_res = Reservoir(3 if quick else 40, rng)
    big_res = Reservoir(1 if quick else 4, rng)
    try:
        mon = Monitor(ctx, stage_res, res_res)
    except Exception as ex:
        site = raising_site(ex)
        ctx.violation(f'module_construction_raises:{type(ex).__name__}:{site}', f'constructing the Tautology module raised {type(ex).__name__} in {site}',
                      {'reproducer': 'Tautology()', 'error': repr(ex)[:300], 'site': site})
        return
    build_secs = 30 if quick else 120
    replay_secs = 60 if quick else 180

    # ---- (a) bounded-exhaustive formulas
    nvars, maxc = (2, 3) if quick else (3, 4)
    get = formulas_of_size(nvars)
    idx = 0
    for n in range(0, maxc + 1):
        canon_only = (not quick) and n == maxc
        src = get(n) if n < maxc else stream_size(nvars, n, get)
        for d in src:
            if canon_only and not canonical_vars(d):
                continue
            idx += 1
            if idx % ctx.nshards != ctx.shard:
                continue
            check_formula(mon, d, build_secs, final_res)
            ctx.count(f'exhaustive_formulas:{n}_connectives')
            if idx % 997 == ctx.shard:
                ctx.sample({'formula': d_str(d), 'truth_table_says': mon.case['truth_table_says']})

    # ---- (b) random larger formulas
    nrand = ctx.scale(960, 12000)
    sizes = [n for n in range(4, 15) for _ in range(16 - n)]     # 4..14 connectives, smaller ones more often
    for k in range(nrand):
        n = rng.choice(sizes)
        nv = rng.randint(1, 5)
        d = rand_formula(rng, n, nv)
        ctx.count('random_formulas')
        check_formula(mon, d, build_secs, big_res if n >= 9 else final_res)
        if k % 50 == 0:
            ctx.sample({'formula': d_str(d), 'truth_table_says': mon.case['truth_table_says']})

    # ---- (c) every ordering of every small clause set
    mon.stage_res = None
    clauses3 = pt.all_clauses(3)
    idx = 0
    maxk_all = 3 if quick else 4
    for k in range(1, maxk_all + 1):
        for combo in itertools.combinations(clauses3, k):
            idx += 1
            if idx % ctx.nshards != ctx.shard:
                continue
            for perm in itertools.permutations(combo):
                check_clauses(mon, perm, build_secs)
            ctx.count(f'clause_sets_all_orderings:{k}')
    if quick:
        # a seeded sample of 4-clause sets, all 24 orderings each
        for _ in range(ctx.scale(960, 0)):
            combo = rng.sample(clauses3, 4)
            for perm in itertools.permutations(combo):
                check_clauses(mon, perm, build_secs)
            ctx.count('clause_sets_all_orderings:4')
    # random larger lists: shuffled literals, duplicates, tautological clauses
    for k in range(ctx.scale(1600, 20000)):
        nv = rng.randint(2, 5)
        ncl = rng.randint(2, 7)
        cls = []
        for _ in range(ncl):
            width = rng.choice((1, 1, 2, 2, 2, 3, 3, 4))
            cl = [rng.choice((1, -1)) * rng.randint(1, nv) for _ in range(width)]
            cls.append(cl)
        if rng.random() < 0.2:
            cls.append(list(rng.choice(cls)))
        ctx.count('random_clause_lists')
        check_clauses(mon, cls, build_secs)
        if k % 100 == 0:
            ctx.sample({'clauses': cls, 'status_by_enumeration': pt.clauses_status(cls)})

    # ---- (d) replay the sampled proofs
    for res in (final_res, stage_res, res_res, big_res):
        for pf, want_e, where, case in res.items:
            ctx.count('replays_attempted')
            mon.replay(pf, want_e, where, case, replay_secs)


# ------------------------------------------------------------------ replay of a witness
class _ReplayCtx:
    quick = True

    def __init__(self):
        self.found = []

    def count(self, *a, **k):
        pass

    def case(self, *a, **k):
        pass

    def sample(self, *a, **k):
        pass

    def violation(self, mech, summary, witness):
        self.found.append((mech, summary, witness))


def replay(w):
    """Re-runs the recorded case (formula or ordered clause list) through the monitored real code."""
    import random
    case = w['witness']['case']
    ctx = _ReplayCtx()
    rr = Reservoir(1000, random.Random(0))
    mon = Monitor(ctx, rr, rr)
    if case['kind'] == 'formula':
        d = d_from_json(case['desc'])
        print('formula:', d_str(d), '| truth table:', pt.classify(d_term(d)))
        fr = Reservoir(10, random.Random(0))
        check_formula(mon, d, 600, fr)
        rr.items.extend(fr.items)
    else:
        print('clauses:', case['clauses'], '| by enumeration:', pt.clauses_status(case['clauses']))
        check_clauses(mon, case['clauses'], 600)
    if w.get('mechanism', '').startswith('proof_replay'):
        for pf, want_e, where, c in rr.items:
            mon.replay(pf, want_e, where, c, 600)
    for mech, summary, _ in ctx.found:
        print('violation', mech, '-', summary[:300])
    want = w.get('mechanism')
    hit = any(m == want for m, _, _ in ctx.found) if want else bool(ctx.found)
    print('reproduced' if hit else 'NOT reproduced', want)
    return hit

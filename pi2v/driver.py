"""Entry point of every check:  python -m pi2v.driver <ID> --tier quick|thorough [--replay file]

Runs the check's workload in subprocess shards, merges their journals, applies known_findings.json,
writes evidence/<ID>.json and replays/<ID>/*, prints KNOWN-FINDING / VIOLATION lines.
Exit codes: 0 held on what was observed, 1 violation, 2 inconclusive.
"""
from __future__ import annotations

import argparse
import hashlib
import importlib
import json
import os
import random
import shutil
import subprocess
import sys
import time
import traceback
from pathlib import Path

VERIF = Path(__file__).resolve().parents[1]
REPO = Path(os.environ.get('PI2_REPO', '/repo'))
SCRATCH = VERIF / '.build' / 'scratch'

MAX_WITNESS_PER_MECH = 3
MAX_SAMPLES = 8
MAX_DISTINCT = 400000


def h64(x) -> int:
    if not isinstance(x, (bytes, bytearray)):
        x = repr(x).encode()
    return int.from_bytes(hashlib.blake2b(x, digest_size=8).digest(), 'big')


class Ctx:
    """Journal of one shard."""

    def __init__(self, pid, tier, seed, shard, nshards):
        self.pid = pid
        self.tier = tier
        self.seed = seed
        self.shard = shard
        self.nshards = nshards
        self.rng = random.Random(seed * 1009 + shard)
        self.counters: dict[str, int] = {}
        self.distinct: set[int] = set()
        self.evaluations = 0
        self.samples: list = []
        self.violations: dict[str, dict] = {}
        self.notes: dict = {}
        self.inconclusive_reasons: list[str] = []
        self.t0 = time.time()
        self.scratch = SCRATCH / f'{os.getpid()}'

    @property
    def quick(self):
        return self.tier == 'quick'

    def scale(self, quick: int, thorough: int) -> int:
        """per-shard share of a total case budget"""
        total = quick if self.tier == 'quick' else thorough
        return max(1, total // self.nshards)

    def count(self, key: str, n: int = 1):
        self.counters[key] = self.counters.get(key, 0) + n

    def case(self, key, nontrivial: bool = True):
        self.evaluations += 1
        if nontrivial and len(self.distinct) < MAX_DISTINCT:
            self.distinct.add(h64(key))

    def sample(self, obj, force=False):
        if len(self.samples) < MAX_SAMPLES:
            self.samples.append(obj)
        elif force or self.rng.random() < 0.001:
            self.samples[self.rng.randrange(len(self.samples))] = obj

    def violation(self, mechanism: str, summary: str, witness: dict):
        v = self.violations.setdefault(mechanism, {'mechanism': mechanism, 'count': 0, 'witnesses': []})
        v['count'] += 1
        if len(v['witnesses']) < MAX_WITNESS_PER_MECH:
            v['witnesses'].append({'summary': summary, 'witness': witness})

    def note(self, key, value):
        self.notes[key] = value

    def inconclusive(self, reason: str):
        if reason not in self.inconclusive_reasons:
            self.inconclusive_reasons.append(reason)

    def mkscratch(self) -> Path:
        self.scratch.mkdir(parents=True, exist_ok=True)
        return self.scratch

    def dump(self) -> dict:
        return {'counters': self.counters, 'distinct': sorted(self.distinct), 'evaluations': self.evaluations,
                'samples': self.samples, 'violations': list(self.violations.values()), 'notes': self.notes,
                'inconclusive': self.inconclusive_reasons, 'wall_s': time.time() - self.t0}


def load_check(pid: str):
    return importlib.import_module(f'pi2v.checks.{pid.lower()}')


def run_shard(args):
    mod = load_check(args.id)
    ctx = Ctx(args.id, args.tier, args.seed, args.shard, args.nshards)
    try:
        mod.shard(ctx)
    except Exception:
        ctx.inconclusive('shard crashed: ' + traceback.format_exc()[-1500:])
    finally:
        shutil.rmtree(ctx.scratch, ignore_errors=True)
    Path(args.out).write_text(json.dumps(ctx.dump(), default=str))


def load_findings():
    p = VERIF / 'known_findings.json'
    if not p.exists():
        return []
    return json.loads(p.read_text()).get('findings', [])


def main():
    ap = argparse.ArgumentParser()
    ap.add_argument('id')
    ap.add_argument('--tier', default=os.environ.get('VERIF_TIER', 'quick'), choices=['quick', 'thorough'])
    ap.add_argument('--seed', type=int, default=int(os.environ.get('VERIF_SEED', '0') or 0))
    ap.add_argument('--shard', type=int, default=None)
    ap.add_argument('--nshards', type=int, default=None)
    ap.add_argument('--out', default=None)
    ap.add_argument('--replay', default=None)
    ap.add_argument('--no-evidence', action='store_true')
    args = ap.parse_args()
    args.id = args.id.upper()

    if args.shard is not None:
        run_shard(args)
        return 0

    mod = load_check(args.id)
    if args.replay:
        w = json.loads(Path(args.replay).read_text())
        if not hasattr(mod, 'replay'):
            print(json.dumps(w, indent=1)[:4000])
            print('(this check has no executable replay; the witness above is self-contained)')
            return 0
        return int(bool(mod.replay(w)))

    t0 = time.time()
    nsh = mod.NSHARDS[args.tier] if isinstance(mod.NSHARDS, dict) else mod.NSHARDS
    timeout = mod.TIMEOUT[args.tier] if hasattr(mod, 'TIMEOUT') else (900 if args.tier == 'quick' else 6 * 3600)
    scratch = SCRATCH / f'drv{os.getpid()}'
    scratch.mkdir(parents=True, exist_ok=True)
    inconclusive = []
    prep_notes = {}
    # the checker binary reads /dev/null in its two-argument form and most subprocesses are pointed at it; a sandbox in which some
    # tool replaced the device by a regular file (e.g. `rustc -o /dev/null` run as root) makes every such observation meaningless
    import stat
    try:
        if not stat.S_ISCHR(os.stat('/dev/null').st_mode):
            inconclusive.append('environment: /dev/null is not a character device (restore it with `rm -f /dev/null; mknod -m 666 /dev/null c 1 3`)')
    except OSError as e:
        inconclusive.append(f'environment: /dev/null cannot be inspected: {e!r}')
    try:
        if hasattr(mod, 'prepare'):
            try:
                prep_notes = mod.prepare(args.tier) or {}
            except Exception as e:
                inconclusive.append(f'prepare failed: {e!r}'[:1500])
        procs = []
        if not inconclusive:
            env = dict(os.environ)
            env.setdefault('PYTHONHASHSEED', '0')
            env['PI2_VERIF'] = '1'
            for i in range(nsh):
                out = scratch / f'shard{i}.json'
                cmd = [sys.executable, '-m', 'pi2v.driver', args.id, '--tier', args.tier, '--seed', str(args.seed),
                       '--shard', str(i), '--nshards', str(nsh), '--out', str(out)]
                logf = open(scratch / f'shard{i}.log', 'w')
                procs.append((i, out, subprocess.Popen(cmd, cwd=str(VERIF), env=env, stdout=logf, stderr=subprocess.STDOUT), logf))
        merged = {'counters': {}, 'distinct': set(), 'evaluations': 0, 'samples': [], 'violations': {}, 'notes': {}, 'shard_wall': []}
        deadline = time.time() + timeout
        for i, out, p, logf in procs:
            try:
                p.wait(timeout=max(1, deadline - time.time()))
            except subprocess.TimeoutExpired:
                p.kill()
                inconclusive.append(f'shard {i} hit the wall-clock watchdog ({timeout}s)')
                continue
            finally:
                logf.close()
            if not out.exists():
                tail = (scratch / f'shard{i}.log').read_text()[-1500:]
                inconclusive.append(f'shard {i} died (rc={p.returncode}): {tail}')
                continue
            d = json.loads(out.read_text())
            for k, v in d['counters'].items():
                merged['counters'][k] = merged['counters'].get(k, 0) + v
            merged['distinct'].update(d['distinct'])
            merged['evaluations'] += d['evaluations']
            for s in d['samples']:
                if len(merged['samples']) < MAX_SAMPLES:
                    merged['samples'].append(s)
            for v in d['violations']:
                m = merged['violations'].setdefault(v['mechanism'], {'mechanism': v['mechanism'], 'count': 0, 'witnesses': []})
                m['count'] += v['count']
                for w in v['witnesses']:
                    if len(m['witnesses']) < MAX_WITNESS_PER_MECH:
                        m['witnesses'].append(w)
            for k, v in d['notes'].items():
                merged['notes'].setdefault(k, v)
            for r in d['inconclusive']:
                inconclusive.append(f'shard {i}: {r}')
            merged['shard_wall'].append(round(d['wall_s'], 1))
    finally:
        shutil.rmtree(scratch, ignore_errors=True)

    try:
        if not stat.S_ISCHR(os.stat('/dev/null').st_mode) and not any('/dev/null' in r for r in inconclusive):
            inconclusive.append('environment: /dev/null stopped being a character device while the check ran')
    except OSError:
        pass
    # floors
    floors = (mod.FLOORS.get(args.tier, {}) if hasattr(mod, 'FLOORS') else {})
    for k, need in floors.items():
        have = merged['counters'].get(k, 0)
        if have < need:
            inconclusive.append(f'floor not reached: {k}={have} < {need}')
    if hasattr(mod, 'post'):
        try:
            mod.post(merged, inconclusive, args.tier)
        except Exception as e:
            inconclusive.append(f'post failed: {e!r}')

    # findings
    findings = [f for f in load_findings() if f.get('property') == args.id]
    known = {f['mechanism']: f for f in findings if f.get('status') == 'known'}
    # runs that do not rewrite the evidence (validation against scratch worktrees) keep their witnesses out of the committed tree
    rep_dir = (VERIF / '.build' / 'replays_tmp' / args.id) if args.no_evidence else (VERIF / 'replays' / args.id)
    if rep_dir.exists():
        shutil.rmtree(rep_dir, ignore_errors=True)
    lines = []
    nviol = 0
    known_seen = []
    env_broken = any(r.startswith('environment:') for r in inconclusive)
    if env_broken and merged['violations']:
        # nothing observed in a broken sandbox is believed, in either direction
        inconclusive.append('observations discarded because of the broken environment: ' + ', '.join(sorted(merged['violations']))[:600])
    for mech, v in sorted(merged['violations'].items()):
        if env_broken:
            continue
        if mech in known:
            known_seen.append(mech)
            lines.append(f'KNOWN-FINDING: property={args.id} {known[mech]["what"]} [mechanism={mech}; observed {v["count"]}x]')
            continue
        nviol += 1
        rep_dir.mkdir(parents=True, exist_ok=True)
        rp = rep_dir / (hashlib.sha1(mech.encode()).hexdigest()[:10] + '.json')
        rp.write_text(json.dumps({'property': args.id, 'mechanism': mech, 'count': v['count'], 'seed': args.seed,
                                  'tier': args.tier, **v['witnesses'][0]}, indent=1, default=str))
        lines.append(f'VIOLATION property={args.id} replay={rp}')
        print(f'# {args.id} violation mechanism={mech} count={v["count"]}: {v["witnesses"][0]["summary"][:300]}')

    wall = time.time() - t0
    verdict = 'violated' if nviol else ('inconclusive' if inconclusive else 'held_on_observed')
    if not args.no_evidence:
        cov = {
            'evaluations': merged['evaluations'],
            'distinct_nontrivial': len(merged['distinct']),
            'rule': mod.RULE,
            'samples': merged['samples'] or ['(no sample recorded)'],
            'counters': dict(sorted(merged['counters'].items())),
            'floors': floors,
            'verdict': verdict,
            'inconclusive_reasons': inconclusive,
            'known_findings_observed': known_seen,
            'violating_mechanisms': sorted(m for m in merged['violations'] if m not in known),
            'notes': {**prep_notes, **merged['notes']},
            'shards': nsh,
            'shard_wall_s': merged['shard_wall'],
        }
        if getattr(mod, 'EXHAUSTIVE', {}).get(args.tier):
            cov['exhaustive'] = True
            cov['exhaustive_scope'] = mod.EXHAUSTIVE[args.tier]
        ev = {'property_id': args.id, 'tier': args.tier, 'seed': args.seed, 'level': mod.LEVEL, 'coverage': cov,
              'assumptions': list(getattr(mod, 'ASSUMPTIONS', [])), 'wall_s': round(wall, 2), 'violations': nviol}
        (VERIF / 'evidence').mkdir(exist_ok=True)
        (VERIF / 'evidence' / f'{args.id}.json').write_text(json.dumps(ev, indent=1, default=str))
    for l in lines:
        print(l)
    print(f'# {args.id} tier={args.tier} seed={args.seed} verdict={verdict} evaluations={merged["evaluations"]} '
          f'distinct={len(merged["distinct"])} wall={wall:.1f}s')
    if inconclusive:
        for r in inconclusive[:10]:
            print('# INCONCLUSIVE:', r[:600])
    if nviol:
        return 1
    if inconclusive:
        return 2
    return 0


if __name__ == '__main__':
    sys.exit(main())

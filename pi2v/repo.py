"""Access to the real toolkit (imported from $PI2_REPO/generation/src, which ./check puts on PYTHONPATH)."""
from __future__ import annotations

import functools
import importlib
import os
import sys
from pathlib import Path

REPO = Path(os.environ.get('PI2_REPO', '/repo'))
SRC = REPO / 'generation' / 'src'
if str(SRC) not in sys.path:
    sys.path.insert(0, str(SRC))


@functools.cache
def mod(name: str):
    return importlib.import_module('proof_generation.' + name)


def P():
    return mod('pattern')


@functools.cache
def notations():
    """name -> (Notation object, family) for every shipped fixed notation, plus parametrised families."""
    p = mod('pattern')
    out = {}
    for n in ('bot', 'neg', 'top', '_and', '_or', 'equiv'):
        out[n] = (getattr(p, n), 'propositional')
    d = mod('proofs.definedness')
    for n in ('ceil', 'floor', 'subset', 'equals', 'functional'):
        out[n] = (getattr(d, n), 'definedness')
    k = mod('proofs.kore')
    for nt in k.KORE_NOTATIONS:
        out[nt.label] = (nt, 'kore')
    return out


@functools.cache
def family_notations():
    """generated families at a few parameters"""
    p = mod('pattern')
    k = mod('proofs.kore')
    s = mod('proofs.substitution')
    out = {}
    for v in (0, 1, 2):
        out[f'forall_{v}'] = (s.forall(v), 'forall')
        out[f'sorted_exists_{v}'] = (k.sorted_exists(v), 'sorted_exists')
        out[f'kore_exists_{v}'] = (k.kore_exists(v), 'kore_exists')
    # synthetic user-style notations (the Metamath and K front ends create notations at run time): definitions with a free
    # element/set variable of their own, with a binder, with a constrained metavariable, with an unused parameter
    syn = [
        ('syn_at_x1', 1, p.App(p.MetaVar(0), p.EVar(1)), '({0} @ x1)'),
        ('syn_imp_x2', 1, p.Implies(p.EVar(2), p.MetaVar(0)), '(x2 ~> {0})'),
        ('syn_ex0_pair', 2, p.Exists(0, p.App(p.MetaVar(0), p.MetaVar(1))), '(E0 {0} {1})'),
        ('syn_mu1', 1, p.Mu(1, p.App(p.SVar(1), p.MetaVar(0, positive=(p.SVar(1),)))), '(lfp1 {0})'),   # machine-well-formed: the hole is declared positive in X1
        ('syn_in_X0', 1, p.App(p.SVar(0), p.MetaVar(0)), '(X0 @ {0})'),
        ('syn_second', 2, p.App(p.Symbol('second'), p.MetaVar(1)), 'second({0}, {1})'),
        ('syn_nest', 1, p.neg(p.App(p.MetaVar(0), p.EVar(0))), '~({0} @ x0)'),
        # defined THROUGH another notation with its parameters permuted / shifted (the inner node maps 0 -> phi1, 1 -> phi0)
        # identity-like: an application expands to its argument, whatever that is (a bare variable, a symbol, ...)
        ('syn_id', 1, p.MetaVar(0), 'id({0})'),
        ('syn_rand', 2, p._and(p.MetaVar(1), p.MetaVar(0)), '({0} rand {1})'),
        ('syn_shift', 3, p._or(p.MetaVar(1), p.MetaVar(2)), 'shift({0}; {1}, {2})'),
    ]
    for label, arity, d, fmt in syn:
        out[label] = (_cached_notation(label, arity, d, fmt), 'synthetic')
    for name, n, cell in (('f', 0, False), ('g', 1, False), ('h', 2, False), ('k3', 3, False), ('cell', 2, True), ('c1', 1, True), ('w17', 17, False), ('bigcell', 20, True)):
        out[f'nary_{name}_{n}'] = (k.nary_app(p.Symbol(name), n, cell), 'nary_app')
    return out


_NOTATION_CACHE = {}


def _cached_notation(label, arity, d, fmt):
    if label not in _NOTATION_CACHE:
        _NOTATION_CACHE[label] = mod('pattern').Notation(label, arity, d, fmt)
    return _NOTATION_CACHE[label]


def all_notations():
    d = dict(notations())
    d.update(family_notations())
    return d

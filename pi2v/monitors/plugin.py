"""pytest plugin: run the repository's own tests with M-track installed (the tests' assertions are irrelevant here;
what counts is that the real calls flow past the monitor).  Usage:
   PI2V_PLUGIN_OUT=/path/out.json pytest -p pi2v.monitors.plugin <tests>
"""
from __future__ import annotations

import json
import os


def pytest_configure(config):
    from . import track
    track.install()


def pytest_sessionfinish(session, exitstatus):
    from . import track
    out = os.environ.get('PI2V_PLUGIN_OUT')
    if not out:
        return
    viol = {}
    for mech, summary, w in track.SINK.violations:
        v = viol.setdefault(mech, {'count': 0, 'summary': summary, 'witness': {k: (x if isinstance(x, (str, int, list, type(None))) else str(x)) for k, x in w.items()}})
        v['count'] += 1
    with open(out, 'w') as f:
        json.dump({'counts': track.SINK.counts, 'violations': viol, 'exitstatus': int(exitstatus)}, f)

"""M-track: invariant hook on SerializingInterpreter.

After every Interpreter call on a SerializingInterpreter instance, the bytes the call emitted are fed to a
per-instance reference machine (O2) and the tracker state (stack top / depth, memory, claims) is compared
with the machine state, under a running symbol bijection.  Installed by attribute replacement on the class;
the repository is not modified.
"""
from __future__ import annotations

import functools
import inspect
import weakref

from .. import repo
from ..oracles import refmachine as rm
from ..oracles import tb

METHODS = ['evar', 'svar', 'symbol', 'metavar', 'implies', 'app', 'exists', 'mu', 'esubst', 'ssubst', 'prop1', 'prop2', 'prop3',
           'modus_ponens', 'exists_quantifier', 'exists_generalization', 'instantiate', 'instantiate_pattern', 'pop', 'save',
           'load', 'publish_proof', 'publish_axiom', 'publish_claim']


class Sink:
    """Receives what the monitor observes.  Replace .violation/.count to route into a check's Ctx."""

    def __init__(self):
        self.counts = {}
        self.violations = []

    def count(self, k, n=1):
        self.counts[k] = self.counts.get(k, 0) + n

    def violation(self, mechanism, summary, witness):
        self.violations.append((mechanism, summary, witness))


SINK = Sink()
_installed = False
_exp_cache: dict[int, tuple] = {}


def E(p):
    """expansion of a repo pattern, cached by object identity (the object is kept alive by the cache)"""
    k = id(p)
    hit = _exp_cache.get(k)
    if hit is not None and hit[0] is p:
        return hit[1]
    e = tb.norm_py(tb.of_repo(p))
    if len(_exp_cache) > 200000:
        _exp_cache.clear()
    _exp_cache[k] = (p, e)
    return e


class Tee:
    def __init__(self, inner, state, phase):
        self._inner = inner
        self._state = state
        self._phase = phase

    def write(self, b):
        self._state.pending += bytes(b)
        self._state.all[self._phase] += bytes(b)
        return self._inner.write(b)

    def __getattr__(self, n):
        return getattr(self._inner, n)


class State:
    def __init__(self):
        self.machine = rm.Machine()
        self.pending = bytearray()
        self.all = {0: bytearray(), 1: bytearray(), 2: bytearray()}
        self.fwd = {}      # tracker symbol name -> machine id
        self.bwd = {}
        self.residue = []  # indices of tracker stack entries the machine has already consumed (publish_* residue)
        self.dead = False  # after a divergence the instance is no longer compared (one report per instance)
        self.calls = []    # short journal for witnesses
        self.mem_checked = 0
        self.adhoc_claims = False   # instance created directly in the proof phase: its claims never went through a claim file
        self.pre_claim = None


_states = weakref.WeakKeyDictionary()


def _term_eq(st, tracker_term, machine_term):
    """tracker term (repo Pattern | Proved) vs machine ('pat'|'prf', term)"""
    Proved = repo.mod('proved').Proved
    if isinstance(tracker_term, Proved):
        if machine_term[0] != 'prf':
            return False
        return tb.match_symbols(E(tracker_term.conclusion), tb.norm_py(machine_term[1]), st.fwd, st.bwd)
    if machine_term[0] != 'pat':
        return False
    return tb.match_symbols(E(tracker_term), tb.norm_py(machine_term[1]), st.fwd, st.bwd)


def _show_t(t):
    Proved = repo.mod('proved').Proved
    try:
        if isinstance(t, Proved):
            return 'Proved ' + tb.pretty(E(t.conclusion))
        return tb.pretty(E(t))
    except Exception as ex:   # pragma: no cover
        return f'<unprintable {ex!r}>'


def _applicability(name, self, args):
    """Is this call applicable on the documented machine, judged on the tracker's own operands?  None if yes, else reason."""
    try:
        if name == 'mu':
            var, sub = args[0], args[1]
            if not tb.d_positive(tb.of_repo(sub), var):
                return 'mu_not_positive'
        elif name in ('esubst', 'ssubst'):
            var, pat, plug = args[0], args[1], args[2]
            pe, ge = tb.of_repo(pat), tb.of_repo(plug)
            if pe[0] not in ('mv', 'es', 'ss'):
                return 'subst_on_non_meta'
            if name == 'esubst' and (ge == tb.ev(var) or tb.d_e_fresh(pe, var)):
                return 'redundant_subst'
            if name == 'ssubst' and (ge == tb.sv(var) or tb.d_s_fresh(pe, var)):
                return 'redundant_subst'
        elif name == 'metavar':
            ef = {v.name for v in (args[1] if len(args) > 1 else ())}
            holes = {v.name for v in (args[5] if len(args) > 5 else ())}
            if ef & holes:
                return 'metavar_holes_not_disjoint'
        elif name in ('instantiate', 'instantiate_pattern'):
            Proved = repo.mod('proved').Proved
            t = args[0].conclusion if isinstance(args[0], Proved) else args[0]
            delta = {k: tb.of_repo(v) for k, v in args[1].items()}
            try:
                tb.inst(tb.of_repo(t), delta, 'strict', check='doc')
            except tb.ConstraintViolation as ex:
                return 'instantiate_violates_constraint:' + str(ex)
            except tb.Capture as ex:
                return 'instantiate_captures:' + ('ex' if str(ex).startswith('evar') else 'mu') + '_binder'
        elif name == 'exists_generalization':
            pass
    except tb.Undefined:
        return None
    return None


def _after(name, self, args, result):
    st = _states.get(self)
    if st is None or st.dead:
        return
    sink = SINK
    sink.count('track:calls')
    sink.count('track:call:' + name)
    code = bytes(st.pending)
    st.pending = bytearray()
    st.calls.append(f'{name} -> {code.hex()}')
    if len(st.calls) > 40:
        del st.calls[:20]
    m = st.machine

    def witness(**kw):
        w = {'call': name, 'phase': rm.PHASE_NAMES.get(m.phase), 'emitted': code.hex(), 'recent_calls': st.calls[-12:],
             'gamma': bytes(st.all[0]).hex(), 'claim': bytes(st.all[1]).hex(), 'proof': bytes(st.all[2]).hex()[-4000:],
             'tracker_top': _show_t(self.stack[-1]) if self.stack else None,
             'machine_top': (m.stack[-1][0] + ' ' + tb.pretty(m.stack[-1][1])) if m.stack else None}
        w.update(kw)
        return w

    inapplicable = _applicability(name, self, args)
    if st.adhoc_claims and name == 'publish_proof' and m.stack and m.stack[-1][0] == 'prf' and st.pre_claim is not None:
        # the interpreter was handed its claims at construction (no claim phase was serialised): the machine learns the
        # claim now, provided it is the tracker's next claim under the running symbol bijection
        if tb.match_symbols(E(st.pre_claim), tb.norm_py(m.stack[-1][1]), st.fwd, st.bwd):
            m.claims.append(m.stack[-1][1])
    # (i) the machine must accept the emitted bytes
    try:
        m.run_phase(code)
    except rm.Reject as r:
        st.dead = True
        if inapplicable:
            sink.violation('tracker_accepts_machine_inapplicable:' + inapplicable,
                           f'the tracker accepted {name} although the documented machine cannot apply it ({inapplicable}); machine: {r.cls}', witness(reject=r.cls))
        else:
            sink.violation(f'machine_rejects_emitted_bytes:{r.cls}:{name}', f'the machine rejects the bytes emitted by {name}: {r.cls} {r.detail}', witness(reject=r.cls, detail=r.detail))
        return
    if inapplicable:
        # the machine accepted although we judged the call inapplicable on the tracker's operands: the operands differ
        sink.count('track:applicability_judgement_disagrees')
    if name == 'load' and code[:1] == b'\x1d':
        # (v) the addressed slot holds the intended term
        sink.count('track:loads')
        idx = code[1]
        if idx >= len(m.memory) or not _term_eq(st, args[1], m.memory[idx]):
            st.dead = True
            sink.violation('load_addresses_wrong_slot', f'Load {idx} does not address the term passed to load()', witness(intended=_show_t(args[1])))
            return
    if name.startswith('publish'):
        sink.count('track:publishes:' + rm.PHASE_NAMES.get(m.phase, '?'))
        # tracker residue: the machine consumed the published term
        st.residue = [i for i in st.residue if i < len(self.stack)]
        if len(self.stack) - len(st.residue) == len(m.stack) + 1:
            st.residue.append(len(self.stack) - 1)
            sink.violation('publish_leaves_term_on_tracker_stack', f'after {name} the tracker still holds the published term on its stack; the machine consumed it',
                           witness())
        if m.phase == rm.PROOF:
            # (iv) outstanding claims agree
            tr = [E(c.pattern) for c in self.claims]
            mc = [tb.norm_py(c) for c in reversed(m.claims)]
            ok = len(tr) == len(mc) and all(tb.match_symbols(a, b, st.fwd, st.bwd) for a, b in zip(tr, mc))
            sink.count('track:claim_comparisons')
            if not ok:
                st.dead = True
                sink.violation('claims_differ', 'outstanding claims of the tracker differ from the machine\'s claim stack', witness(tracker_claims=[tb.pretty(t) for t in tr], machine_claims=[tb.pretty(t) for t in mc]))
                return
    # (ii) stack depth and top (publish residue discounted by position)
    st.residue = [i for i in st.residue if i < len(self.stack)]
    if len(self.stack) - len(st.residue) != len(m.stack):
        st.dead = True
        sink.violation(f'stack_depth_differs:{name}', f'after {name} tracker depth {len(self.stack)} (residue {len(st.residue)}) vs machine depth {len(m.stack)}', witness())
        return
    if m.stack and not (name.startswith('publish')):
        sink.count('track:top_comparisons')
        j = len(self.stack) - 1
        rs = set(st.residue)
        while j in rs:
            j -= 1
        if j < 0 or not _term_eq(st, self.stack[j], m.stack[-1]):
            st.dead = True
            sink.violation(f'stack_top_differs:{name}', f'after {name} the tracker\'s top of stack differs from the machine\'s', witness())
            return
    # (iii) memory, element-wise for the new entries
    if len(self.memory) != len(m.memory):
        st.dead = True
        sink.violation(f'memory_length_differs:{name}', f'after {name} tracker memory has {len(self.memory)} entries, machine {len(m.memory)}', witness())
        return
    while st.mem_checked < len(m.memory):
        i = st.mem_checked
        sink.count('track:memory_comparisons')
        if not _term_eq(st, self.memory[i], m.memory[i]):
            st.dead = True
            sink.violation(f'memory_entry_differs:{name}', f'memory slot {i} differs between tracker and machine', witness(slot=i, tracker=_show_t(self.memory[i]), machine=tb.pretty(m.memory[i][1])))
            return
        st.mem_checked += 1


def install():
    """idempotent; wraps SerializingInterpreter (class-level)."""
    global _installed
    if _installed:
        return
    _installed = True
    S = repo.mod('serializing_interpreter').SerializingInterpreter
    orig_init = S.__init__

    @functools.wraps(orig_init)
    def init(self, *a, **kw):
        orig_init(self, *a, **kw)
        st = State()
        ph = self.phase.value
        st.machine.phase = ph
        st.adhoc_claims = (ph == rm.PROOF)
        _states[self] = st
        if self.out is not None:
            self.out = Tee(self.out, st, ph)
        if self.claim_out is not None:
            self.claim_out = Tee(self.claim_out, st, 1)
        if self.proof_out is not None:
            self.proof_out = Tee(self.proof_out, st, 2)
        SINK.count('track:instances')
    S.__init__ = init

    for name in METHODS:
        orig = getattr(S, name)

        def make(name, orig):
            @functools.wraps(orig)
            def wrapper(self, *args, **kwargs):
                if name == 'publish_proof':
                    st = _states.get(self)
                    if st is not None and st.adhoc_claims:
                        st.pre_claim = self.claims[0].pattern if self.claims else None
                result = orig(self, *args, **kwargs)
                if kwargs:
                    # the monitor reads its operands by position: bind keyword arguments the way the real method does
                    try:
                        ba = inspect.signature(orig).bind(self, *args, **kwargs)
                        ba.apply_defaults()
                        args = tuple(ba.args[1:])
                    except TypeError:
                        pass
                try:
                    _after(name, self, args, result)
                except rm.Reject:
                    raise
                return result
            return wrapper
        setattr(S, name, make(name, orig))

    for pname in ('into_claim_phase', 'into_proof_phase'):
        orig = getattr(S, pname)

        def makep(pname, orig):
            @functools.wraps(orig)
            def wrapper(self):
                orig(self)
                st = _states.get(self)
                if st is not None and not st.dead:
                    st.machine.next_phase()
                    st.residue = []
                    st.pending = bytearray()
                    SINK.count('track:phase_changes')
            return wrapper
        setattr(S, pname, makep(pname, orig))


def state_of(interp):
    return _states.get(interp)

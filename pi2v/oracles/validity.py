"""Semantic validity of a (possibly schematic) O1 term on finite models - the deciding oracle of C01."""
from __future__ import annotations

import random

from . import semantics as sem
from . import tb
from ..gen import patterns as gp


class Budget:
    def __init__(self, thetas=8, m2=12, m3=6, vals2=12, vals3=8):
        self.thetas = thetas
        self.m2 = m2
        self.m3 = m3
        self.vals2 = vals2
        self.vals3 = vals3


def biased_pool(rng: random.Random, T, base_pool):
    """concrete plugs that mention the variables bound or constrained in T, plus the general pool"""
    es_ = sorted(tb.all_evars(T)) or [0]
    ss_ = sorted(tb.all_svars(T)) or [0]
    sy_ = sorted(tb.symbols(T)) or [0]
    extra = []
    for x in es_[:4]:
        extra.append(tb.ev(x))
        extra.append(tb.ap(tb.sy(sy_[0]), tb.ev(x)))
        extra.append(tb.ex(x, tb.ev(x)))
        for X in ss_[:3]:
            extra.append(tb.ap(tb.ev(x), tb.sv(X)))
    for X in ss_[:4]:
        extra.append(tb.sv(X))
        extra.append(tb.neg(tb.sv(X)))
        extra.append(tb.mu(X, tb.sv(X)))
        extra.append(tb.im(tb.neg(tb.sv(X)), tb.sy(sy_[0])))
    return extra * 3 + base_pool


def check_valid(T, rng: random.Random, base_pool, budget: Budget, stats=None):
    """Returns None if no refutation was found, else a witness dict.
    stats (dict) receives counts of what was evaluated."""
    def st(k, n=1):
        if stats is not None:
            stats[k] = stats.get(k, 0) + n

    concrete = tb.is_concrete(T)
    pool = None
    thetas = [dict()] if concrete else []
    if not concrete:
        pool = biased_pool(rng, T, base_pool)
        seen = set()
        for _ in range(budget.thetas * 3):
            th = gp.admissible_instance(rng, T, pool)
            if th is None:
                continue
            key = tuple(sorted(th.items()))
            if key in seen:
                continue
            seen.add(key)
            thetas.append(th)
            if len(thetas) >= budget.thetas:
                break
        if not thetas:
            st('no_admissible_instance')
            return None
    syms = sorted(tb.symbols(T) | {0})
    for th in thetas:
        try:
            t = tb.inst(T, th, 'alpha') if th else T
            t = tb.resolve(t, 'alpha') if not tb.is_concrete(t) else t
        except tb.Undefined as e:
            st('instance_undefined')
            continue
        if not tb.is_concrete(t):
            st('instance_not_concrete')
            continue
        st('instances')
        if not tb.wf_conc(t):
            return {'kind': 'ill_formed_instance', 'term': tb.show(T), 'theta': {str(k): tb.show(v) for k, v in th.items()},
                    'instance': tb.show(t), 'pretty': tb.pretty(t)}
        tsyms = sorted(tb.symbols(t) | set(syms))
        evs = tb.fv_e(t)
        svs = tb.fv_s(t)
        models = []
        has_app = 'ap' in tb.show(t)
        # size 1: exhaustive
        models.extend(sem.all_models(1, tsyms, with_app=True) if len(tsyms) <= 6 else [sem.random_model(rng, 1, tsyms) for _ in range(8)])
        if len(tsyms) <= 2 and not has_app:
            models.extend(sem.all_models(2, tsyms, with_app=False))
        else:
            models.extend(sem.random_model(rng, 2, tsyms) for _ in range(budget.m2))
        models.extend(sem.random_model(rng, 3, tsyms) for _ in range(budget.m3))
        for M in models:
            lim = budget.vals2 if M.n <= 2 else budget.vals3
            try:
                for re, rs in sem.valuations(M, evs, svs, rng, lim):
                    st('evaluations')
                    v = sem.evaluate(t, M, dict(re), dict(rs))
                    if v != M.full:
                        return {'kind': 'invalid', 'term': tb.show(T), 'pretty_term': tb.pretty(T),
                                'theta': {str(k): tb.show(v2) for k, v2 in th.items()},
                                'instance': tb.show(t), 'pretty': tb.pretty(t), 'model': M.describe(),
                                'evar_valuation': {str(k): v2 for k, v2 in re.items()},
                                'svar_valuation': {str(k): v2 for k, v2 in rs.items()}, 'value': v, 'full': M.full}
            except sem.IllFormed as e:
                return {'kind': 'ill_formed_instance', 'term': tb.show(T), 'theta': {str(k): tb.show(v) for k, v in th.items()},
                        'instance': tb.show(t), 'pretty': tb.pretty(t), 'detail': str(e)}
    return None

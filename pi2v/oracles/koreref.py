"""O7 - textbook reference for Kore terms and for the pattern a converted Kore term must be.

Independent of the toolkit (never imports proof_generation).  Works on the dataclasses of
`pyk.kore.syntax` (in this environment the structural stand-in under /verif/shims) and produces O1
terms (tuples of oracles/tb.py).

Contents
  * first-order term algebra on Kore patterns: variables in first-occurrence order, occurrences,
    substitution, one-way (non-linear) matching, positions;
  * `template(term)`: the EXPECTED O1 image of a Kore term in which every Kore element variable X is
    the placeholder ('kv', X) and every sort variable S the placeholder ('ksv', S);
  * `align(template, actual)`: walks a template and an actual O1 term together and returns the relation
    {variable occurrence -> what stands there}; from it the two variable-bookkeeping judgements of C20
    (one variable -> one metavariable; distinct variables -> distinct metavariables) are decided
    WITHOUT prescribing any particular numbering;
  * expected rule / claim / ordinal bookkeeping of a definition.

The image (what "converting a Kore term" is documented to mean).  Transcribed from the docstrings and
notation definitions in generation/src/proof_generation/proofs/kore.py, definedness.py and the naming
pinned by tests/unit/test_kore_language_semantics.py (test_sorts, test_symbols, test_symbol_params):

  sort   S{}                  ->  symbol  ksort_S
  symbol f{s1..sk}(t1..tn)    ->  (((ksym_f . s1) ... sk) . t1) ... tn     (nary_app: curried, sort
                                   parameters first, then arguments, left-associated)
  kseq{}(a, b)                ->  (kore_kseq . a) . b                      (kore_kseq notation)
  \\dv{S}("v")                 ->  (kore_dv . S) . v        with v the symbol named by the string
  \\top{S}()                   ->  inhabitant . S
  \\bottom{S}()                ->  bot
  \\not{S}(p)                  ->  (not p) and \\top{S}
  \\and{S}(p,q)  \\or{S}(p,q)    ->  p and q ;  p or q          (exactly two operands)
  \\implies{S}(p,q)            ->  \\or{S}(\\not{S}(p), q)
  \\next{S}(p)                 ->  kore_next . p
  \\rewrites{S}(l,r)           ->  \\implies{S}(l, \\next{S}(r))
  \\ceil{S1,S2}(p)             ->  (ceil p) and \\top{S2}        with ceil p = definedness . p
  \\floor{S1,S2}(p)            ->  \\not{S2}(\\ceil{S1,S2}(\\not{S1}(p)))
  \\iff{S}(p,q)                ->  \\and{S}(\\implies{S}(p,q), \\implies{S}(q,p))
  \\equals{S1,S2}(p,q)         ->  \\floor{S1,S2}(\\iff{S1}(p,q))
  \\in{S1,S2}(p,q)             ->  \\floor{S1,S2}(\\implies{S1}(p,q))
  X : S                       ->  a metavariable without constraints, one per variable NAME within the
                                   scope of one axiom (the sort annotation is dropped: "TODO: Revisit
                                   when we have sorting implemented")

Design decisions of this oracle (recorded once, part of the trusted base of C20):
  D1  A rewrite axiom `\\rewrites{S}(\\and{S}(L, C1), \\and{S}(R, C2))` is imaged as
      `\\rewrites{S}(L, R)`: the toolkit documents ("TODO: Remove side conditions for now") that the
      second conjunct (the side condition / ensures clause) is dropped.  G7 generates C1, C2 = \\top
      in the deciding classes; a class with a non-trivial C1 is tagged.
  D2  The ordinal of an axiom is its index among ALL `axiom` sentences of the definition, modules in
      textual order, sentences in order (how the K LLVM backend numbers rules); non-rule axioms
      consume an ordinal.
  D3  Which metavariable a variable becomes is NOT prescribed (the property only requires a
      scope-wise injective function); `align` recovers the assignment from the actual pattern.
  D4  \\exists / \\forall / \\mu / \\nu and set variables are outside the image (the toolkit marks them
      TODO / NotImplemented); `template` raises Unsupported for them.
"""
from __future__ import annotations

import pyk.kore.syntax as K

from . import tb


class Unsupported(Exception):
    pass


# ------------------------------------------------------------------------------------ term algebra
def children(t):
    """immediate sub-PATTERNS of a Kore pattern (sorts are not patterns)"""
    if isinstance(t, K.App):
        return t.args
    if isinstance(t, (K.And, K.Or)):
        return t.ops
    if isinstance(t, (K.Not, K.Next, K.Ceil, K.Floor)):
        return (t.pattern,)
    if isinstance(t, (K.Implies, K.Iff, K.Rewrites, K.Equals, K.In)):
        return (t.left, t.right)
    if isinstance(t, (K.EVar, K.SVar, K.Top, K.Bottom, K.DV, K.String)):
        return ()
    raise Unsupported(type(t).__name__)


def rebuild(t, kids):
    kids = tuple(kids)
    if isinstance(t, K.App):
        return K.App(t.symbol, t.sorts, kids)
    if isinstance(t, (K.And, K.Or)):
        return type(t)(t.sort, kids)
    if isinstance(t, (K.Not, K.Next)):
        return type(t)(t.sort, kids[0])
    if isinstance(t, (K.Ceil, K.Floor)):
        return type(t)(t.op_sort, t.sort, kids[0])
    if isinstance(t, (K.Implies, K.Iff, K.Rewrites)):
        return type(t)(t.sort, kids[0], kids[1])
    if isinstance(t, (K.Equals, K.In)):
        return type(t)(t.op_sort, t.sort, kids[0], kids[1])
    return t


def var_occurrences(t) -> list[str]:
    """names of the element variables of t, one entry per occurrence, left-to-right depth-first"""
    out = []

    def go(u):
        if isinstance(u, K.EVar):
            out.append(u.name)
        else:
            for c in children(u):
                go(c)
    go(t)
    return out


def variables(t) -> list[str]:
    """distinct element-variable names in first-occurrence order"""
    return list(dict.fromkeys(var_occurrences(t)))


def var_sorts(t) -> dict:
    """name -> sort of each element variable (first annotation wins)"""
    out = {}

    def go(u):
        if isinstance(u, K.EVar):
            out.setdefault(u.name, u.sort)
        else:
            for c in children(u):
                go(c)
    go(t)
    return out


def is_ground(t) -> bool:
    return not var_occurrences(t)


def size(t) -> int:
    return 1 + sum(size(c) for c in children(t))


def subst(t, sigma: dict):
    """sigma: variable NAME -> Kore pattern.  No binders in the supported fragment (D4), so plain
    simultaneous replacement is the textbook substitution."""
    if isinstance(t, K.EVar):
        return sigma.get(t.name, t)
    kids = children(t)
    if not kids:
        return t
    return rebuild(t, [subst(c, sigma) for c in kids])


def match(pat, ground, sigma=None):
    """one-way, non-linear first-order matching of `pat` (with variables) against `ground`.
    Returns the substitution (dict name -> term, in first-binding order) or None."""
    sigma = {} if sigma is None else dict(sigma)

    def go(p, g):
        if isinstance(p, K.EVar):
            if p.name in sigma:
                return sigma[p.name] == g
            sigma[p.name] = g
            return True
        if type(p) is not type(g):
            return False
        if isinstance(p, K.App):
            if p.symbol != g.symbol or p.sorts != g.sorts or len(p.args) != len(g.args):
                return False
        elif isinstance(p, (K.DV, K.String, K.Top, K.Bottom)):
            return p == g
        else:
            if rebuild(p, children(g)) != g:   # same connective, same sort annotations
                return False
        pk, gk = children(p), children(g)
        return len(pk) == len(gk) and all(go(a, b) for a, b in zip(pk, gk))

    return sigma if go(pat, ground) else None


def positions(t, path=()):
    """[(path, subterm)] for every sub-pattern, root first"""
    out = [(path, t)]
    for i, c in enumerate(children(t)):
        out.extend(positions(c, path + (i,)))
    return out


def replace_at(t, path, new):
    if not path:
        return new
    kids = list(children(t))
    kids[path[0]] = replace_at(kids[path[0]], path[1:], new)
    return rebuild(t, kids)


def sort_of(t, result_sort_of_symbol):
    """sort of a Kore pattern; result_sort_of_symbol(App) -> Sort for applications"""
    if isinstance(t, (K.EVar, K.SVar, K.DV, K.Top, K.Bottom, K.And, K.Or, K.Not, K.Implies, K.Iff, K.Next, K.Rewrites,
                      K.Ceil, K.Floor, K.Equals, K.In)):
        return t.sort
    if isinstance(t, K.App):
        return result_sort_of_symbol(t)
    raise Unsupported(type(t).__name__)


def head(t) -> str:
    """structural class of the head of a term: 'dv', 'var', 'app:<symbol>' or the connective name"""
    if isinstance(t, K.App):
        return 'app:' + t.symbol
    if isinstance(t, K.DV):
        return 'dv'
    if isinstance(t, K.EVar):
        return 'var'
    return type(t).__name__.lower()


# ------------------------------------------------------------------------------------------ image
INHABITANT = tb.sy('inhabitant')
KORE_NEXT = tb.sy('kore_next')
KORE_DV = tb.sy('kore_dv')
KORE_KSEQ = tb.sy('kore_kseq')
DEFINEDNESS = tb.sy('⌈_⌉')


def kv(name):
    return ('kv', name)


def ksv(name):
    return ('ksv', name)


def i_sort(s):
    if isinstance(s, K.SortVar):
        return ksv(s.name)
    if isinstance(s, K.SortApp):
        if s.sorts:
            raise Unsupported('parametric sort')
        return tb.sy('ksort_' + s.name)
    raise Unsupported(type(s).__name__)


def i_top(s): return tb.ap(INHABITANT, s)
def i_not(s, p): return tb.and_(tb.neg(p), i_top(s))
def i_and(s, p, q): return tb.and_(p, q)
def i_or(s, p, q): return tb.or_(p, q)
def i_next(s, p): return tb.ap(KORE_NEXT, p)
def i_implies(s, p, q): return i_or(s, i_not(s, p), q)
def i_rewrites(s, l, r): return i_implies(s, l, i_next(s, r))
def i_dv(s, v): return tb.ap(tb.ap(KORE_DV, s), v)
def i_ceil(s1, s2, p): return tb.and_(tb.ap(DEFINEDNESS, p), i_top(s2))
def i_floor(s1, s2, p): return i_not(s2, i_ceil(s1, s2, i_not(s1, p)))
def i_iff(s, p, q): return i_and(s, i_implies(s, p, q), i_implies(s, q, p))
def i_equals(s1, s2, p, q): return i_floor(s1, s2, i_iff(s1, p, q))
def i_in(s1, s2, p, q): return i_floor(s1, s2, i_implies(s1, p, q))
def i_kseq(a, b): return tb.ap(tb.ap(KORE_KSEQ, a), b)


def i_app(symbol, sorts, args):
    if symbol == 'kseq':
        if len(sorts) != 0 or len(args) != 2:
            raise Unsupported('kseq with unexpected arity')
        return i_kseq(args[0], args[1])
    t = tb.sy('ksym_' + symbol)
    for x in (*sorts, *args):
        t = tb.ap(t, x)
    return t


def i_functional(p):
    """functional(p) = exists x0 . (x0 = p)   with  a = b := floor(a <-> b),  floor(q) := not ceil(not q)
    (proofs/definedness.py).  For ground p the freshness annotation of the schema is immaterial."""
    x = tb.ev(0)
    eq = tb.neg(tb.ap(DEFINEDNESS, tb.neg(tb.equiv(x, p))))
    return tb.ex(0, eq)


def template(t):
    """Expected O1 image with ('kv', name) / ('ksv', name) placeholders."""
    if isinstance(t, K.EVar):
        return kv(t.name)
    if isinstance(t, K.App):
        return i_app(t.symbol, [i_sort(s) for s in t.sorts], [template(a) for a in t.args])
    if isinstance(t, K.DV):
        return i_dv(i_sort(t.sort), tb.sy(str(t.value.value)))
    if isinstance(t, K.Top):
        return i_top(i_sort(t.sort))
    if isinstance(t, K.Bottom):
        return tb.BOT
    if isinstance(t, K.Not):
        return i_not(i_sort(t.sort), template(t.pattern))
    if isinstance(t, (K.And, K.Or)):
        if len(t.ops) != 2:
            raise Unsupported('and/or with other than two operands')
        f = i_and if isinstance(t, K.And) else i_or
        return f(i_sort(t.sort), template(t.ops[0]), template(t.ops[1]))
    if isinstance(t, K.Implies):
        return i_implies(i_sort(t.sort), template(t.left), template(t.right))
    if isinstance(t, K.Iff):
        return i_iff(i_sort(t.sort), template(t.left), template(t.right))
    if isinstance(t, K.Next):
        return i_next(i_sort(t.sort), template(t.pattern))
    if isinstance(t, K.Rewrites):
        return i_rewrites(i_sort(t.sort), template(t.left), template(t.right))
    if isinstance(t, K.Ceil):
        return i_ceil(i_sort(t.op_sort), i_sort(t.sort), template(t.pattern))
    if isinstance(t, K.Floor):
        return i_floor(i_sort(t.op_sort), i_sort(t.sort), template(t.pattern))
    if isinstance(t, K.Equals):
        return i_equals(i_sort(t.op_sort), i_sort(t.sort), template(t.left), template(t.right))
    if isinstance(t, K.In):
        return i_in(i_sort(t.op_sort), i_sort(t.sort), template(t.left), template(t.right))
    raise Unsupported(type(t).__name__)


def close(tpl, varmap: dict, sortvarmap: dict | None = None):
    """replace placeholders by metavariables: varmap name -> metavariable id"""
    k = tpl[0]
    if k == 'kv':
        return tb.mv(varmap[tpl[1]])
    if k == 'ksv':
        return tb.mv((sortvarmap or {})[tpl[1]])
    if k in ('im', 'ap'):
        return (k, close(tpl[1], varmap, sortvarmap), close(tpl[2], varmap, sortvarmap))
    if k in ('ex', 'mu'):
        return (k, tpl[1], close(tpl[2], varmap, sortvarmap))
    return tpl


def image(t, varmap: dict | None = None, sortvarmap: dict | None = None):
    """O1 image of a Kore term under a given variable assignment (ground terms need none)."""
    return close(template(t), varmap or {}, sortvarmap)


def strip_rule(p):
    """D1: the rewrite that a rewrite axiom stands for.  None if `p` is not of the rewrite-rule shape."""
    if isinstance(p, K.Rewrites) and isinstance(p.left, K.And) and isinstance(p.right, K.And) \
            and len(p.left.ops) >= 1 and len(p.right.ops) >= 1:
        return K.Rewrites(p.sort, p.left.ops[0], p.right.ops[0])
    return None


def ordinals(definition):
    """D2: [(ordinal, module name, Axiom)] for every axiom sentence of the definition."""
    out = []
    n = 0
    for m in definition.modules:
        for s in m.sentences:
            if isinstance(s, K.Axiom):
                out.append((n, m.name, s))
                n += 1
    return out


def expected_claim(rule_rewrite, sigma: dict):
    """O1 term of `rule instantiated by substitution` for a ground, total sigma: image of sigma(rule)."""
    inst = subst(rule_rewrite, sigma)
    if not is_ground(inst):
        raise Unsupported('substitution does not cover every variable of the rule')
    return image(inst)


# ------------------------------------------------------------------------------------------ align
class Alignment:
    """Result of walking a template and an actual term together.

    var_at[name]      list of the actual sub-terms standing at the occurrences of variable `name`
    sortvar_at[name]  same for sort variables
    mismatch          None, or (path, expected-subterm, actual-subterm) of the first structural
                      difference outside variable positions
    """

    def __init__(self):
        self.var_at: dict[str, list] = {}
        self.sortvar_at: dict[str, list] = {}
        self.mismatch = None

    # ---- judgements ------------------------------------------------------------------------
    def not_metavariables(self):
        """variable occurrences that are not an unconstrained metavariable"""
        return [(n, a) for n, occ in {**self.var_at, **{'sort ' + k: v for k, v in self.sortvar_at.items()}}.items()
                for a in occ if not (a[0] == 'mv' and not any(a[2:]))]

    def split_variables(self):
        """names whose occurrences stand for more than one metavariable  (one variable -> two metavariables)"""
        out = {}
        for n, occ in self.var_at.items():
            ids = sorted({a[1] for a in occ if a[0] == 'mv'})
            if len(ids) > 1:
                out[n] = ids
        return out

    def varmap(self):
        """name -> metavariable id (first occurrence), for names whose occurrences agree"""
        return {n: occ[0][1] for n, occ in self.var_at.items() if occ and occ[0][0] == 'mv'}

    def sortvarmap(self):
        return {n: occ[0][1] for n, occ in self.sortvar_at.items() if occ and occ[0][0] == 'mv'}

    def merged_variables(self):
        """metavariable ids that stand for more than one variable name (two variables -> one metavariable);
        element and sort variables share one id space inside a pattern, so both kinds are considered"""
        inv: dict[int, list[str]] = {}
        for n, i in self.varmap().items():
            inv.setdefault(i, []).append(n)
        for n, i in self.sortvarmap().items():
            inv.setdefault(i, []).append('sort ' + n)
        return {i: ns for i, ns in inv.items() if len(ns) > 1}

    def ok(self):
        return self.mismatch is None and not self.not_metavariables() and not self.split_variables() \
            and not self.merged_variables()


def align(tpl, actual) -> Alignment:
    al = Alignment()

    def go(t, a, path):
        if al.mismatch is not None:
            return
        k = t[0]
        if k == 'kv':
            al.var_at.setdefault(t[1], []).append(a)
            return
        if k == 'ksv':
            al.sortvar_at.setdefault(t[1], []).append(a)
            return
        if k != a[0]:
            al.mismatch = (path, t, a)
            return
        if k in ('ev', 'sv', 'sy'):
            if t[1] != a[1]:
                al.mismatch = (path, t, a)
            return
        if k == 'mv':
            if t != a:
                al.mismatch = (path, t, a)
            return
        if k in ('im', 'ap'):
            go(t[1], a[1], path + (1,))
            go(t[2], a[2], path + (2,))
            return
        if k in ('ex', 'mu'):
            if t[1] != a[1]:
                al.mismatch = (path, t, a)
                return
            go(t[2], a[2], path + (2,))
            return
        al.mismatch = (path, t, a)

    go(tpl, actual, ())
    return al


def show_tpl(t) -> str:
    """printable form of a template or O1 term (placeholders printed as ?X / ?sort:S)"""
    k = t[0]
    if k == 'kv':
        return '?' + t[1]
    if k == 'ksv':
        return '?sort:' + t[1]
    if k in ('im', 'ap'):
        op = ' -> ' if k == 'im' else ' . '
        return '(' + show_tpl(t[1]) + op + show_tpl(t[2]) + ')'
    if k in ('ex', 'mu'):
        return '(' + ('E x' if k == 'ex' else 'mu X') + str(t[1]) + '. ' + show_tpl(t[2]) + ')'
    return tb.pretty(t)

"""O4 - propositional oracle: truth tables, normal-form shape predicates, clause-set satisfiability.

Written from the textbook definitions; never imports proof_generation.  Works on
  * O1 terms (tb.py tuples) that are propositional: metavariables (atoms), BOT = mu X0.X0 (false),
    implication - every propositional notation is already expanded into these by tb.of_repo;
  * snapshots of the toolkit's ConjForm trees (looked at by class *name* and attribute only, like
    tb.of_repo does): ('bot', neg) ('var', neg, id) ('or', neg, l, r) ('and', neg, l, r);
  * clause lists: list[list[int]], literal k>0 is atom k-1, k<0 the negation of atom -k-1.

Truth tables are bit-parallel: a table over atoms a_0<a_1<..<a_{n-1} is an int with 2**n bits, bit r
is the value under the assignment in which atom a_i is true iff bit i of r is set.
"""
from __future__ import annotations

import itertools

from . import tb

MAX_ATOMS = 6


class NotPropositional(Exception):
    pass


# ------------------------------------------------------------------ O1 terms
def is_prop(t) -> bool:
    if t == tb.BOT:
        return True
    k = t[0]
    if k == 'mv':
        return True
    if k == 'im':
        return is_prop(t[1]) and is_prop(t[2])
    return False


def atoms(t, acc=None) -> set:
    """atom = metavariable id (constraint lists do not matter for propositional reasoning)"""
    if acc is None:
        acc = set()
    if t == tb.BOT:
        return acc
    k = t[0]
    if k == 'mv':
        acc.add(t[1])
    elif k == 'im':
        atoms(t[1], acc); atoms(t[2], acc)
    else:
        raise NotPropositional(tb.pretty(t))
    return acc


def connectives(t) -> int:
    """number of implication nodes of the expansion (size measure used for bucketing only)"""
    if t == tb.BOT or t[0] == 'mv':
        return 0
    return 1 + connectives(t[1]) + connectives(t[2])


def _masks(order):
    n = len(order)
    if n > MAX_ATOMS:
        raise ValueError(f'more than {MAX_ATOMS} atoms')
    full = (1 << (1 << n)) - 1
    ms = {}
    for i, a in enumerate(order):
        m = 0
        for r in range(1 << n):
            if (r >> i) & 1:
                m |= 1 << r
        ms[a] = m
    return ms, full


def table(t, order) -> int:
    """truth table of propositional O1 term t over the atom order `order` (superset of atoms(t))"""
    ms, full = _masks(order)

    def go(u):
        if u == tb.BOT:
            return 0
        k = u[0]
        if k == 'mv':
            return ms[u[1]]
        if k == 'im':
            return ((~go(u[1])) | go(u[2])) & full
        raise NotPropositional(tb.pretty(u))
    return go(t)


def full_mask(order) -> int:
    return (1 << (1 << len(order))) - 1


def classify_table(tt: int, order) -> str:
    if tt == full_mask(order):
        return 'tautology'
    if tt == 0:
        return 'unsatisfiable'
    return 'contingent'


def classify(t) -> str:
    order = sorted(atoms(t))
    return classify_table(table(t, order), order)


def equivalent(a, b) -> bool:
    order = sorted(atoms(a) | atoms(b))
    return table(a, order) == table(b, order)


def falsifying_assignment(tt: int, order):
    """an assignment (dict atom->bool) under which the table is false, or None"""
    for r in range(1 << len(order)):
        if not (tt >> r) & 1:
            return {a: bool((r >> i) & 1) for i, a in enumerate(order)}
    return None


def differing_assignment(t1: int, t2: int, order):
    d = t1 ^ t2
    for r in range(1 << len(order)):
        if (d >> r) & 1:
            return {f'phi{a}': bool((r >> i) & 1) for i, a in enumerate(order)}
    return None


# ------------------------------------------------------------- ConjForm snapshots
def cf_snapshot(cf):
    """immutable copy of a ConjForm tree (the toolkit mutates `negated` in place)"""
    cn = type(cf).__name__
    ng = bool(cf.negated)
    if cn == 'CFBot':
        return ('bot', ng)
    if cn == 'CFVar':
        return ('var', ng, cf.id)
    if cn == 'CFOr':
        return ('or', ng, cf_snapshot(cf.left), cf_snapshot(cf.right))
    if cn == 'CFAnd':
        return ('and', ng, cf_snapshot(cf.left), cf_snapshot(cf.right))
    raise TypeError(cn)


def cf_term(s):
    """the O1 pattern a ConjForm stands for (bot / phi_id / or / and, negated when flagged) -
    the meaning given by the comments of the ConjForm classes"""
    k = s[0]
    if k == 'bot':
        t = tb.BOT
    elif k == 'var':
        t = tb.mv(s[2])
    elif k == 'or':
        t = tb.or_(cf_term(s[2]), cf_term(s[3]))
    elif k == 'and':
        t = tb.and_(cf_term(s[2]), cf_term(s[3]))
    else:
        raise TypeError(k)
    return tb.neg(t) if s[1] else t


def cf_atoms(s, acc=None) -> set:
    if acc is None:
        acc = set()
    if s[0] == 'var':
        acc.add(s[2])
    elif s[0] in ('or', 'and'):
        cf_atoms(s[2], acc); cf_atoms(s[3], acc)
    return acc


def cf_table(s, order) -> int:
    """truth table computed on the tree itself (or/and/not), not through the pattern"""
    ms, full = _masks(order)

    def go(u):
        k = u[0]
        if k == 'bot':
            v = 0
        elif k == 'var':
            v = ms[u[2]]
        elif k == 'or':
            v = go(u[2]) | go(u[3])
        else:
            v = go(u[2]) & go(u[3])
        return (~v) & full if u[1] else v
    return go(s)


def cf_pretty(s) -> str:
    k = s[0]
    if k == 'bot':
        r = 'bot'
    elif k == 'var':
        r = f'phi{s[2]}'
    else:
        r = '(' + cf_pretty(s[2]) + (' \\/ ' if k == 'or' else ' /\\ ') + cf_pretty(s[3]) + ')'
    return '~' + r if s[1] else r


# advertised shapes -------------------------------------------------------------
def shape_or_neg_var(s) -> bool:
    """to_conj_form: 'made up of only ORs, negations and variables' (Top/Bottom only as the whole result)"""
    if s[0] == 'var':
        return True
    if s[0] == 'or':
        return shape_or_neg_var(s[2]) and shape_or_neg_var(s[3])
    return False


def shape_conj_form_result(s) -> bool:
    return s[0] == 'bot' or shape_or_neg_var(s)


def shape_neg_at_leaves(s) -> bool:
    """propag_neg: and/or nodes un-negated, negation only on variables"""
    if s[0] == 'var':
        return True
    if s[0] in ('or', 'and'):
        return (not s[1]) and shape_neg_at_leaves(s[2]) and shape_neg_at_leaves(s[3])
    return False


def shape_clause(s) -> bool:
    if s[0] == 'var':
        return True
    if s[0] == 'or':
        return (not s[1]) and shape_clause(s[2]) and shape_clause(s[3])
    return False


def shape_cnf(s) -> bool:
    """to_cnf: conjunction (any nesting) of disjunctions (any nesting) of literals"""
    if s[0] == 'and':
        return (not s[1]) and shape_cnf(s[2]) and shape_cnf(s[3])
    return shape_clause(s)


# ------------------------------------------------------------------ clause lists
def shape_clause_list(cls) -> bool:
    """to_clauses: non-empty list of non-empty lists of non-zero ints"""
    if not isinstance(cls, list) or not cls:
        return False
    for cl in cls:
        if not isinstance(cl, list) or not cl:
            return False
        for x in cl:
            if not isinstance(x, int) or isinstance(x, bool) or x == 0:
                return False
    return True


def lit_term(x: int):
    return tb.neg(tb.mv(-x - 1)) if x < 0 else tb.mv(x - 1)


def _foldr(op, xs):
    r = xs[-1]
    for x in reversed(xs[:-1]):
        r = op(x, r)
    return r


def clause_term(cl):
    """right-nested disjunction of the literals, bottom for the empty clause (comment of `Clause`)"""
    if not cl:
        return tb.BOT
    return _foldr(tb.or_, [lit_term(x) for x in cl])


def clauses_term(cls):
    """right-nested conjunction of the clauses, top for the empty list (comment of `ClauseConjunction`)"""
    if not cls:
        return tb.TOP
    return _foldr(tb.and_, [clause_term(cl) for cl in cls])


def clause_atoms(cls) -> set:
    return {abs(x) - 1 for cl in cls for x in cl}


def clauses_table(cls, order) -> int:
    ms, full = _masks(order)
    v = full
    for cl in cls:
        c = 0
        for x in cl:
            m = ms[abs(x) - 1]
            c |= ((~m) & full) if x < 0 else m
        v &= c
    return v


def clause_trivial(cl) -> bool:
    s = set(cl)
    return any(-x in s for x in s)


def clauses_status(cls) -> str:
    """'valid' (every clause contains a complementary pair / empty list), 'unsatisfiable', or 'contingent'
    - by enumeration of all assignments."""
    order = sorted(clause_atoms(cls))
    tt = clauses_table(cls, order)
    if tt == full_mask(order):
        return 'valid'
    if tt == 0:
        return 'unsatisfiable'
    return 'contingent'


def satisfiable(cls) -> bool:
    order = sorted(clause_atoms(cls))
    return clauses_table(cls, order) != 0


# ------------------------------------------------------------------ enumeration helpers (workloads)
def all_clauses(nvars: int, trivial=False):
    """every non-empty clause over atoms 0..nvars-1 as a sorted literal list (one literal per atom
    unless trivial=True, then also clauses with complementary pairs)"""
    lits = []
    for v in range(1, nvars + 1):
        lits += [v, -v]
    out = []
    for r in range(1, len(lits) + 1):
        for c in itertools.combinations(lits, r):
            if not trivial and clause_trivial(c):
                continue
            out.append(sorted(c, key=lambda x: (abs(x), x < 0)))
    return out


# ------------------------------------------------------------------ self check
def selfcheck():
    a, b, c = tb.mv(0), tb.mv(1), tb.mv(2)
    assert classify(tb.im(a, a)) == 'tautology'
    assert classify(tb.and_(a, tb.neg(a))) == 'unsatisfiable'
    assert classify(tb.or_(a, b)) == 'contingent'
    assert classify(tb.TOP) == 'tautology' and classify(tb.BOT) == 'unsatisfiable'
    assert equivalent(tb.neg(tb.or_(a, b)), tb.and_(tb.neg(a), tb.neg(b)))
    assert equivalent(tb.or_(a, tb.and_(b, c)), tb.and_(tb.or_(a, b), tb.or_(a, c)))
    assert not equivalent(tb.or_(a, b), tb.and_(a, b))
    assert equivalent(tb.equiv(a, b), tb.equiv(b, a))
    s = ('or', True, ('var', False, 0), ('and', False, ('var', True, 1), ('bot', False)))
    order = [0, 1]
    assert cf_table(s, order) == table(cf_term(s), order)
    assert shape_cnf(('and', False, ('or', False, ('var', True, 0), ('var', False, 1)), ('var', False, 2)))
    assert not shape_cnf(('or', False, ('and', False, ('var', True, 0), ('var', False, 1)), ('var', False, 2)))
    assert not shape_neg_at_leaves(('or', True, ('var', False, 0), ('var', False, 1)))
    assert clauses_status([[-3, -1], [-1], [1]]) == 'unsatisfiable'
    assert clauses_status([[1, -1], [2, -2, 3]]) == 'valid' and clauses_status([]) == 'valid'
    assert clauses_status([[1, 2], [-1]]) == 'contingent'
    for cls in ([[1, 2], [-1, 3], [-2, -3]], [[1], [-1, 2], [-2]], [[1, -1]]):
        order = sorted(clause_atoms(cls))
        assert clauses_table(cls, order) == table(clauses_term(cls), order)
    assert len(all_clauses(3)) == 26 and len(all_clauses(2)) == 8 and len(all_clauses(3, True)) == 63
    return True

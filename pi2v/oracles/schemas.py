"""O5 - advertised schemas of the lemma libraries `Propositional` and `Tautology`.

Transcribed by hand from the docstrings of proofs/propositional.py and tautology.py (from the method
name where there is none: prop1_inst(p, q) is "prop1 instantiated at p, q").  Never imports
proof_generation; everything is expressed over O1 terms (tb.py).

An entry describes one public method that returns a ProofThunk:
  name     method name
  cls      'Propositional' | 'Tautology' (the class that defines it)
  vars     names of the schema variables (arbitrary patterns unless `draw` says otherwise)
  args     how the call is assembled from the variables, in positional order:
             ('pat',  f)  a pattern argument            f(v) -> O1 term
             ('prem', f)  a premise thunk whose conclusion is f(v)
             ('int',  f)  an int,  ('ints', f) a list of ints,  ('pats', f) a list of patterns
  concl    f(v) -> O1 term: the advertised conclusion
  ndefault how many trailing pattern arguments may be omitted (their defaults are phi0, phi1, phi2 by position)
  draw     optional f(G) -> V: draws the variables when they are not independent arbitrary patterns
           (G: generator interface with .rng, .term(), .small(), .terms(n) [n small terms], .sf_meta(), .plug())
  ret      index into the returned tuple when the method returns (x, proof) instead of a proof
  derive   optional f(actual positional args, E) -> V | None: recovers the variables from the arguments of an
           observed call (E: repo pattern -> O1 term); None = the call is outside the advertised domain.
           Entries without it are handled generically by matching the argument shapes (derive_vars).
  doc      the docstring line the schema was read from
"""
from __future__ import annotations

from . import tb
from .tb import BOT, TOP, and_, equiv, im, neg, or_


class V(dict):
    __getattr__ = dict.__getitem__

    def __setattr__(self, k, v):
        self[k] = v


def foldr(op, xs):
    r = xs[-1]
    for x in reversed(xs[:-1]):
        r = op(x, r)
    return r


def lit(x: int):
    """tautology.py id_to_metavar: literal k>0 is phi(k-1), k<0 the negation of phi(-k-1)"""
    return neg(tb.mv(-x - 1)) if x < 0 else tb.mv(x - 1)


def clause(cl):
    return BOT if not cl else foldr(or_, [lit(x) for x in cl])


def P(n):
    return ('pat', lambda v, n=n: v[n])


def H(f):
    return ('prem', f)


ENTRIES = []
BY_NAME = {}


def entry(name, cls, vars, args, concl, ndefault=0, draw=None, ret=None, doc='', derive=None):
    e = V(name=name, cls=cls, vars=tuple(vars), args=list(args), concl=concl, ndefault=ndefault, draw=draw, ret=ret, doc=doc, derive=derive)
    assert name not in BY_NAME, name
    ENTRIES.append(e)
    BY_NAME[name] = e
    return e


# ======================================================================= Propositional
PR = 'Propositional'
entry('prop1_inst', PR, 'pq', [P('p'), P('q')], lambda v: im(v.p, im(v.q, v.p)), 2, doc='(name) prop1 at p, q')
entry('prop2_inst', PR, 'pqr', [P('p'), P('q'), P('r')], lambda v: im(im(v.p, im(v.q, v.r)), im(im(v.p, v.q), im(v.p, v.r))), 3, doc='(name) prop2 at p, q, r')
entry('dneg_elim', PR, 'p', [P('p')], lambda v: im(neg(neg(v.p)), v.p), 1, doc='(name; claim "Double Negation elim") ~~p -> p')
entry('imp_refl', PR, 'p', [P('p')], lambda v: im(v.p, v.p), 1, doc='p -> p')
entry('imp_provable', PR, 'pq', [P('p'), H(lambda v: v.q)], lambda v: im(v.p, v.q), doc='q |- p -> q')
entry('imp_transitivity', PR, 'pqr', [H(lambda v: im(v.p, v.q)), H(lambda v: im(v.q, v.r))], lambda v: im(v.p, v.r), doc='p -> q, q -> r |- p -> r')
entry('top_intro', PR, '', [], lambda v: TOP, doc='top')
entry('bot_elim', PR, 'p', [P('p')], lambda v: im(BOT, v.p), 1, doc='bot -> p')
entry('top_imp', PR, 'p', [H(lambda v: v.p)], lambda v: im(TOP, v.p), doc='p |- T -> p')
entry('imp_top', PR, 'p', [P('p')], lambda v: im(v.p, TOP), doc='p -> T')
entry('ant_commutativity', PR, 'pqr', [H(lambda v: im(v.p, im(v.q, v.r)))], lambda v: im(v.q, im(v.p, v.r)), doc='p -> (q -> r) |- q -> (p -> r)')
entry('dneg_intro', PR, 'p', [P('p')], lambda v: im(v.p, neg(neg(v.p))), 1, doc='p -> ~~p')
entry('absurd', PR, 'pq', [P('p'), P('q')], lambda v: im(neg(v.p), im(v.p, v.q)), 2, doc='~p -> (p -> q)')
entry('peirce_bot', PR, 'p', [P('p')], lambda v: im(im(neg(v.p), v.p), v.p), 1, doc='(~p -> p) -> p')
entry('imp_trans', PR, 'pqr', [P('p'), P('q'), P('r')], lambda v: im(im(v.p, v.q), im(im(v.q, v.r), im(v.p, v.r))), 3, doc='(p -> q) -> (q -> r) -> (p -> r)')
entry('mpcom', PR, 'pq', [H(lambda v: v.p), P('q')], lambda v: im(im(v.p, v.q), v.q), doc='p |- (p -> q) -> q')
entry('dni_l', PR, 'pq', [P('p'), P('q')], lambda v: im(im(v.p, v.q), im(neg(neg(v.p)), v.q)), doc='(p -> q) -> (~~p -> q)')
entry('dni_l_i', PR, 'pq', [H(lambda v: im(v.p, v.q))], lambda v: im(neg(neg(v.p)), v.q), doc='p -> q |- ~~p -> q')
entry('dni_r', PR, 'pq', [P('p'), P('q')], lambda v: im(im(v.p, v.q), im(v.p, neg(neg(v.q)))), doc='(p -> q) -> (p -> ~~q)')
entry('dni_r_i', PR, 'pq', [H(lambda v: im(v.p, v.q))], lambda v: im(v.p, neg(neg(v.q))), doc='p -> q |- p -> ~~q')
entry('dne_l', PR, 'pq', [P('p'), P('q')], lambda v: im(im(neg(neg(v.p)), v.q), im(v.p, v.q)), doc='(~~p -> q) -> (p -> q)')
entry('dne_l_i', PR, 'pq', [H(lambda v: im(neg(neg(v.p)), v.q))], lambda v: im(v.p, v.q), doc='~~p -> q |- p -> q')
entry('dne_r', PR, 'pq', [P('p'), P('q')], lambda v: im(im(v.p, neg(neg(v.q))), im(v.p, v.q)), doc='(p -> ~~q) -> (p -> q)')
entry('dne_r_i', PR, 'pq', [H(lambda v: im(v.p, neg(neg(v.q))))], lambda v: im(v.p, v.q), doc='p -> ~~q |- p -> q')
entry('helper1', PR, 'pqr', [H(lambda v: v.p), H(lambda v: im(v.q, v.r))], lambda v: im(im(v.p, v.q), v.r), doc='p, q -> r |- (p -> q) -> r')
entry('a1d', PR, 'pqr', [H(lambda v: im(v.p, v.q)), P('r')], lambda v: im(v.p, im(v.r, v.q)), doc='p -> q |- p -> r -> q')
entry('con3', PR, 'pq', [P('p'), P('q')], lambda v: im(im(v.p, v.q), im(neg(v.q), neg(v.p))), doc='(p -> q) -> (~q -> ~p)')
entry('con3_i', PR, 'pq', [H(lambda v: im(v.p, v.q))], lambda v: im(neg(v.q), neg(v.p)), doc='p -> q |- ~q -> ~p')
entry('absurd2', PR, 'pqr', [H(lambda v: im(v.p, v.q)), P('r')], lambda v: im(neg(v.q), im(v.p, v.r)), doc='p -> q |- ~q -> p -> r')
entry('lemma1', PR, 'pq', [P('q'), H(lambda v: neg(v.p))], lambda v: im(im(v.q, v.p), neg(v.q)), doc='~p |- (q -> p) -> ~q')
entry('con1', PR, 'pq', [H(lambda v: im(neg(v.p), v.q))], lambda v: im(neg(v.q), v.p), doc='~p -> q |- ~q -> p')
entry('absurd3', PR, 'pqr', [H(lambda v: im(neg(v.p), v.q)), H(lambda v: neg(v.r))], lambda v: im(im(v.q, v.r), v.p), doc='~p -> q, ~r |- (q -> r) -> p')
entry('absurd4', PR, 'pqr', [H(lambda v: im(v.p, neg(v.q))), P('r')], lambda v: im(v.q, im(v.p, v.r)), doc='p -> ~q |- q -> p -> r')
entry('absurd_i', PR, 'pq', [H(lambda v: neg(v.p)), P('q')], lambda v: im(v.p, v.q), doc='~p |- p -> q')
entry('and_not_r_intro', PR, 'pq', [H(lambda v: v.p), H(lambda v: neg(v.q))], lambda v: neg(im(v.p, v.q)), doc='p, ~q |- ~(p -> q)')
entry('imim_l', PR, 'abc', [P('c'), H(lambda v: im(v.a, v.b))], lambda v: im(im(v.b, v.c), im(v.a, v.c)), doc='a -> b |- (b -> c) -> (a -> c)')
entry('imim', PR, 'abcd', [H(lambda v: im(v.a, v.b)), H(lambda v: im(v.c, v.d))], lambda v: im(im(v.b, v.c), im(v.a, v.d)), doc='a -> b, c -> d |- (b -> c) -> (a -> d)')
entry('imim_r', PR, 'abc', [P('c'), H(lambda v: im(v.a, v.b))], lambda v: im(im(v.c, v.a), im(v.c, v.b)), doc='a -> b |- (c -> a) -> (c -> b)')
entry('con2', PR, 'pq', [P('p'), P('q')], lambda v: im(im(v.p, neg(v.q)), im(v.q, neg(v.p))), 2, doc='(p -> ~q) -> (q -> ~p)')
entry('imim_nnr', PR, 'abcd', [H(lambda v: im(v.a, v.b)), H(lambda v: im(v.c, v.d))], lambda v: im(im(v.b, v.c), im(neg(neg(v.a)), v.d)), doc='a -> b, c -> d |- (b -> c) -> (~~a -> d)')
entry('imim_nnl', PR, 'abcd', [H(lambda v: im(v.a, v.b)), H(lambda v: im(v.c, v.d))], lambda v: im(im(neg(neg(v.b)), v.c), im(v.a, v.d)), doc='a -> b, c -> d |- (~~b -> c) -> (a -> d)')
entry('imim_or', PR, 'abcd', [H(lambda v: im(v.a, v.b)), H(lambda v: im(v.c, v.d))], lambda v: im(or_(v.a, v.c), or_(v.b, v.d)), doc='a -> b, c -> d |- a \\/ c -> b \\/ d')
entry('imim_and', PR, 'abcd', [H(lambda v: im(v.a, v.b)), H(lambda v: im(v.c, v.d))], lambda v: im(and_(v.a, v.c), and_(v.b, v.d)), doc='a -> b, c -> d |- a /\\ c -> b /\\ d')
entry('imim_and_r', PR, 'abc', [P('a'), H(lambda v: im(v.b, v.c))], lambda v: im(and_(v.a, v.b), and_(v.a, v.c)), doc='b -> c |- a /\\ b -> a /\\ c')
entry('imim_and_l', PR, 'abc', [P('c'), H(lambda v: im(v.a, v.b))], lambda v: im(and_(v.a, v.c), and_(v.b, v.c)), doc='a -> b |- a /\\ c -> b /\\ c')
entry('imim_or_r', PR, 'abc', [P('a'), H(lambda v: im(v.b, v.c))], lambda v: im(or_(v.a, v.b), or_(v.a, v.c)), doc='b -> c |- a \\/ b -> a \\/ c')
entry('imim_or_l', PR, 'abc', [P('c'), H(lambda v: im(v.a, v.b))], lambda v: im(or_(v.a, v.c), or_(v.b, v.c)), doc='a -> b |- a \\/ c -> b \\/ c')
entry('and_intro', PR, 'pq', [H(lambda v: v.p), H(lambda v: v.q)], lambda v: and_(v.p, v.q), doc='p, q |- p /\\ q')
entry('and_l_imp', PR, 'pq', [P('p'), P('q')], lambda v: im(and_(v.p, v.q), v.p), 2, doc='p /\\ q -> p')
entry('and_l', PR, 'pq', [H(lambda v: and_(v.p, v.q))], lambda v: v.p, doc='p /\\ q |- p')
entry('and_r_imp', PR, 'pq', [P('p'), P('q')], lambda v: im(and_(v.p, v.q), v.q), 2, doc='p /\\ q -> q')
entry('and_r', PR, 'pq', [H(lambda v: and_(v.p, v.q))], lambda v: v.q, doc='p /\\ q |- q')
entry('imp_to_and', PR, 'pqr', [H(lambda v: im(v.p, im(v.q, v.r)))], lambda v: im(and_(v.p, v.q), v.r), doc='p -> (q -> r) |- p /\\ q -> r')
entry('ian', PR, 'pq', [P('p'), P('q')], lambda v: im(v.p, im(v.q, and_(v.p, v.q))), doc='p -> (q -> p /\\ q)')
entry('sylc', PR, 'abcd', [H(lambda v: im(v.b, im(v.c, v.d))), H(lambda v: im(v.a, v.b)), H(lambda v: im(v.a, v.c))], lambda v: im(v.a, v.d), doc='b -> c -> d, a -> b, a -> c |- a -> d')
entry('iand', PR, 'pqr', [H(lambda v: im(v.p, v.q)), H(lambda v: im(v.p, v.r))], lambda v: im(v.p, and_(v.q, v.r)), doc='p -> q, p -> r |- p -> q /\\ r')

# ======================================================================= Tautology
TA = 'Tautology'


def _match(pat, inst_):
    """the matcher's answer, computed by O1's own one-way matcher"""
    s = tb.match1(pat, inst_)
    if s is None:
        raise tb.Undefined('schema precondition: no match')
    return s


def _draw_match(pattern_var, instance_var, others):
    """variables of the *_match* family: `pattern_var` is substitution-free and has metavariables,
    `instance_var` is an instantiation of it, the others are arbitrary."""
    def draw(G):
        v = V()
        b = G.sf_meta()
        sigma = {i: G.plug() for i in sorted(tb.metavar_ids(b))}
        v[pattern_var] = b
        v[instance_var] = tb.inst(b, sigma, 'naive')
        for o in others:
            v[o] = G.term()
        return v
    return draw


entry('imp_trans_match1', TA, 'abcd', [H(lambda v: im(v.a, v.b)), H(lambda v: im(v.c, v.d))],
      lambda v: im(tb.inst(v.a, _match(v.b, v.c), 'naive'), v.d), draw=_draw_match('b', 'c', 'ad'),
      doc='Same as imp_transitivity but h1 is instantiated to match h2: (a -> b)sigma, c -> d |- a sigma -> d with b sigma = c')
entry('imp_trans_match2', TA, 'abcd', [H(lambda v: im(v.a, v.b)), H(lambda v: im(v.c, v.d))],
      lambda v: im(v.a, tb.inst(v.d, _match(v.c, v.b), 'naive')), draw=_draw_match('c', 'b', 'ad'),
      doc='Same as imp_transitivity but h2 is instantiated to match h1')
entry('and_assoc_r', TA, 'abc', [P('a'), P('b'), P('c')], lambda v: im(and_(and_(v.a, v.b), v.c), and_(v.a, and_(v.b, v.c))), 3, doc='(a /\\ b) /\\ c -> a /\\ (b /\\ c)')
entry('and_assoc_l', TA, 'abc', [P('a'), P('b'), P('c')], lambda v: im(and_(v.a, and_(v.b, v.c)), and_(and_(v.a, v.b), v.c)), 3, doc='a /\\ (b /\\ c) -> (a /\\ b) /\\ c')
entry('or_assoc_r', TA, 'abc', [P('a'), P('b'), P('c')], lambda v: im(or_(or_(v.a, v.b), v.c), or_(v.a, or_(v.b, v.c))), 3, doc='(a \\/ b) \\/ c -> a \\/ (b \\/ c)')
entry('or_assoc_l', TA, 'abc', [P('a'), P('b'), P('c')], lambda v: im(or_(v.a, or_(v.b, v.c)), or_(or_(v.a, v.b), v.c)), 3, doc='a \\/ (b \\/ c) -> (a \\/ b) \\/ c')
entry('or_distr_r', TA, 'abc', [P('a'), P('b'), P('c')], lambda v: im(or_(and_(v.a, v.b), v.c), and_(or_(v.a, v.c), or_(v.b, v.c))), 3, doc='(a /\\ b) \\/ c -> (a \\/ c) /\\ (b \\/ c)')
entry('or_distr_r_rev', TA, 'abc', [P('a'), P('b'), P('c')], lambda v: im(and_(or_(v.a, v.c), or_(v.b, v.c)), or_(and_(v.a, v.b), v.c)), 3, doc='(a \\/ c) /\\ (b \\/ c) -> (a /\\ b) \\/ c')
entry('or_distr_l', TA, 'abc', [P('a'), P('b'), P('c')], lambda v: im(or_(v.a, and_(v.b, v.c)), and_(or_(v.a, v.b), or_(v.a, v.c))), 3, doc='a \\/ (b /\\ c) -> (a \\/ b) /\\ (a \\/ c)')
entry('or_distr_l_rev', TA, 'abc', [P('a'), P('b'), P('c')], lambda v: im(and_(or_(v.a, v.b), or_(v.a, v.c)), or_(v.a, and_(v.b, v.c))), 3, doc='(a \\/ b) /\\ (a \\/ c) -> a \\/ (b /\\ c)')
entry('and_assoc', TA, 'abc', [P('a'), P('b'), P('c')], lambda v: equiv(and_(v.a, and_(v.b, v.c)), and_(and_(v.a, v.b), v.c)), 3, doc='a /\\ (b /\\ c) <-> (a /\\ b) /\\ c')
entry('or_assoc', TA, 'abc', [P('a'), P('b'), P('c')], lambda v: equiv(or_(v.a, or_(v.b, v.c)), or_(or_(v.a, v.b), v.c)), 3, doc='a \\/ (b \\/ c) <-> (a \\/ b) \\/ c')
entry('and_comm_imp', TA, 'pq', [P('p'), P('q')], lambda v: im(and_(v.p, v.q), and_(v.q, v.p)), 2, doc='p /\\ q -> q /\\ p')
entry('and_comm', TA, 'pq', [P('p'), P('q')], lambda v: equiv(and_(v.p, v.q), and_(v.q, v.p)), 2, doc='p /\\ q <-> q /\\ p')
entry('or_comm_imp', TA, 'pq', [P('p'), P('q')], lambda v: im(or_(v.p, v.q), or_(v.q, v.p)), 2, doc='p \\/ q -> q \\/ p')
entry('or_comm', TA, 'pq', [P('p'), P('q')], lambda v: equiv(or_(v.p, v.q), or_(v.q, v.p)), 2, doc='p \\/ q <-> q \\/ p')
entry('or_l_imp', TA, 'pq', [P('p'), P('q')], lambda v: im(v.p, or_(v.p, v.q)), doc='p -> p \\/ q')
entry('or_r_imp', TA, 'pq', [P('p'), P('q')], lambda v: im(v.q, or_(v.p, v.q)), doc='q -> p \\/ q')
entry('or_l', TA, 'pq', [H(lambda v: v.p), P('q')], lambda v: or_(v.p, v.q), doc='p |- p \\/ q')
entry('or_r', TA, 'pq', [H(lambda v: v.q), P('p')], lambda v: or_(v.p, v.q), doc='q |- p \\/ q')
entry('equiv_refl', TA, 'p', [P('p')], lambda v: equiv(v.p, v.p), 1, doc='p <-> p')
entry('equiv_sym', TA, 'pq', [H(lambda v: equiv(v.p, v.q))], lambda v: equiv(v.q, v.p), doc='p <-> q |- q <-> p')
entry('equiv_transitivity', TA, 'pqr', [H(lambda v: equiv(v.p, v.q)), H(lambda v: equiv(v.q, v.r))], lambda v: equiv(v.p, v.r), doc='p <-> q, q <-> r |- p <-> r')
entry('equiv_match_l', TA, 'abp', [H(lambda v: equiv(v.a, v.b)), P('p')], lambda v: tb.inst(equiv(v.a, v.b), _match(v.a, v.p), 'naive'),
      draw=_draw_match('a', 'p', 'b'), doc='(no docstring; name) h: a <-> b instantiated so that its left side is p')
entry('equiv_match_r', TA, 'abp', [H(lambda v: equiv(v.a, v.b)), P('p')], lambda v: tb.inst(equiv(v.a, v.b), _match(v.b, v.p), 'naive'),
      draw=_draw_match('b', 'p', 'a'), doc='(no docstring; name) h: a <-> b instantiated so that its right side is p')
entry('equiv_trans_match1', TA, 'abcd', [H(lambda v: equiv(v.a, v.b)), H(lambda v: equiv(v.c, v.d))],
      lambda v: equiv(tb.inst(v.a, _match(v.b, v.c), 'naive'), v.d), draw=_draw_match('b', 'c', 'ad'),
      doc='Same as equiv_transitivity but h1 is instantiated to match h2')
entry('equiv_trans_match2', TA, 'abcd', [H(lambda v: equiv(v.a, v.b)), H(lambda v: equiv(v.c, v.d))],
      lambda v: equiv(v.a, tb.inst(v.d, _match(v.c, v.b), 'naive')), draw=_draw_match('c', 'b', 'ad'),
      doc='Same as equiv_transitivity but h2 is instantiated to match h1')
entry('and_cong', TA, 'abcd', [H(lambda v: equiv(v.a, v.b)), H(lambda v: equiv(v.c, v.d))], lambda v: equiv(and_(v.a, v.c), and_(v.b, v.d)),
      doc='(no docstring; the cong argument of ac_move_to_front) p <-> q, r <-> s |- p . r <-> q . s')
entry('or_cong', TA, 'abcd', [H(lambda v: equiv(v.a, v.b)), H(lambda v: equiv(v.c, v.d))], lambda v: equiv(or_(v.a, v.c), or_(v.b, v.d)),
      doc='(no docstring; the cong argument of ac_move_to_front)')
entry('resolution', TA, 'pab', [P('p'), P('a'), P('b')], lambda v: im(or_(neg(v.p), v.a), im(or_(v.p, v.b), or_(v.a, v.b))), 3, doc='~p \\/ a -> p \\/ b -> a \\/ b')
entry('resolution_r', TA, 'pb', [P('p'), P('b')], lambda v: im(neg(v.p), im(or_(v.p, v.b), v.b)), 2, doc='~p -> p \\/ b -> b')
entry('resolution_l', TA, 'pa', [P('p'), P('a')], lambda v: im(or_(neg(v.p), v.a), im(v.p, v.a)), 2, doc='~p \\/ a -> p -> a')
entry('resolution_base', TA, 'p', [P('p')], lambda v: im(neg(v.p), im(v.p, BOT)), 1, doc='~p -> p -> bot')
entry('resolution_step', TA, 'abcd', [H(lambda v: im(v.a, v.b)), H(lambda v: im(v.a, v.c)), H(lambda v: im(v.b, im(v.c, v.d)))], lambda v: im(v.a, v.d),
      doc='a -> b, a -> c, b -> c -> d |- a -> d')
entry('long_imp_trans', TA, 'abcd', [H(lambda v: im(v.a, im(v.b, v.c))), H(lambda v: im(v.c, v.d))], lambda v: im(v.a, im(v.b, v.d)), doc='a -> b -> c, c -> d |- a -> b -> d')


PH0 = 1000


def _split(op, term, n):
    """term = t0 op (t1 op (... op t_{n-1})) -> [t0..t_{n-1}] or None"""
    shape = op(tb.mv(PH0), tb.mv(PH0 + 1))
    out = []
    cur = term
    for _ in range(n - 1):
        s = tb.match1(shape, cur)
        if s is None:
            return None
        out.append(s[PH0])
        cur = s[PH0 + 1]
    return out + [cur]


def _derive_nth(a, E):
    term, n, l = a
    if not (isinstance(n, int) and isinstance(l, int) and 0 <= n < l):
        return None
    ts = _split(and_, E(term), l)
    return None if ts is None else V(ts=ts, n=n, l=l)


def _derive_move(a, E):
    pos, terms = a
    pos = list(pos)
    if pos != sorted(set(pos)) or not terms or any(not (0 <= i < len(terms)) for i in pos):
        return None
    return V(pos=pos, ts=[E(t) for t in terms])


def _derive_reduce_n(a, E):
    n, terms = a
    ts = [E(t) for t in terms]
    if not (0 <= n < len(ts)) or any(t != ts[0] for t in ts[:n + 1]):
        return None
    return V(n=n, ts=ts)


def _derive_merge(a, E):
    term_l, len_l, term_r = a
    if not (isinstance(len_l, int) and len_l >= 1):
        return None
    ls = _split(or_, E(term_l), len_l)
    return None if ls is None else V(ls=ls, r=E(term_r))


def _derive_simplify(a, E):
    cl, x = a
    if not cl or any(y == 0 for y in cl) or x == 0:
        return None
    return V(cl=list(cl), x=x)


def _derive_trivial(a, E):
    (cl,) = a
    if not any(-y in cl for y in cl) or any(y == 0 for y in cl):
        return None
    return V(cl=list(cl))


def _draw_nth(G):
    l = G.rng.choice((1, 2, 2, 3, 3, 4))
    return V(ts=G.terms(l), n=G.rng.randrange(l), l=l)


entry('conjunction_implies_nth', TA, (), [('pat', lambda v: foldr(and_, v.ts)), ('int', lambda v: v.n), ('int', lambda v: v.l)],
      lambda v: im(foldr(and_, v.ts), v.ts[v.n]), draw=_draw_nth, derive=_derive_nth, doc='p0 /\\ (p1 /\\ (... /\\ pl)) -> pn')


def _draw_move(G):
    l = G.rng.choice((1, 2, 2, 3, 3, 3, 4))
    k = G.rng.randint(0, min(l, 2))
    pos = sorted(G.rng.sample(range(l), k))
    return V(ts=G.terms(l), pos=pos)


def _moved(v):
    return [v.ts[i] for i in v.pos] + [t for i, t in enumerate(v.ts) if i not in v.pos]


entry('or_move_to_front', TA, (), [('ints', lambda v: list(v.pos)), ('pats', lambda v: list(v.ts))],
      lambda v: equiv(foldr(or_, v.ts), foldr(or_, _moved(v))), draw=_draw_move,
      derive=_derive_move, doc='ac_move_to_front: p0 . (p1 . (... pn)) <-> px1 . (px2 . (... (pxn . (rest in order)))), positions sorted and unique')
entry('and_move_to_front', TA, (), [('ints', lambda v: list(v.pos)), ('pats', lambda v: list(v.ts))],
      lambda v: equiv(foldr(and_, v.ts), foldr(and_, _moved(v))), draw=_draw_move, derive=_derive_move, doc='ac_move_to_front with /\\')
entry('or_idem', TA, 'p', [P('p')], lambda v: equiv(or_(v.p, v.p), v.p), 1, doc='p \\/ p <-> p')
entry('reduce_or_duplicates_at_front', TA, 'pq', [P('p'), P('q')], lambda v: equiv(or_(v.p, or_(v.p, v.q)), or_(v.p, v.q)), 2, doc='p \\/ (p \\/ q) <-> p \\/ q')


def _draw_reduce_n(G):
    n = G.rng.choice((0, 1, 1, 2, 3))
    rest = G.terms(G.rng.choice((0, 1, 1, 2)))
    if n == 0 and not rest:
        rest = G.terms(1)
    p = G.small()
    if n == 0 and G.rng.random() < 0.5:
        return V(n=0, ts=rest)
    return V(n=n, ts=[p] * (n + 1) + rest)


entry('reduce_n_or_duplicates_at_front', TA, (), [('int', lambda v: v.n), ('pats', lambda v: list(v.ts))],
      lambda v: equiv(foldr(or_, v.ts), foldr(or_, v.ts[v.n:])), draw=_draw_reduce_n,
      derive=_derive_reduce_n, doc='p \\/ (p ... (p \\/ q)) <-> p \\/ q  (the first n+1 terms are the same p; n of them are removed)')


def _draw_merge(G):
    k = G.rng.choice((1, 2, 2, 3, 4))
    return V(ls=G.terms(k), r=G.small())


entry('merge_clauses', TA, (), [('pat', lambda v: foldr(or_, v.ls)), ('int', lambda v: len(v.ls)), ('pat', lambda v: v.r)],
      lambda v: equiv(or_(foldr(or_, v.ls), v.r), foldr(or_, v.ls + [v.r])), draw=_draw_merge,
      derive=_derive_merge, doc='(no docstring; test_merge_clauses) (l1 \\/ (... \\/ lk)) \\/ r <-> l1 \\/ (... \\/ (lk \\/ r))')


def _draw_simplify(G):
    rng = G.rng
    k = rng.choice((1, 2, 2, 3, 3, 4))
    cl = [rng.choice((1, -1)) * rng.randint(1, 3) for _ in range(k)]
    if rng.random() < 0.75:
        x = rng.choice(cl)
    else:
        x = rng.choice((1, -1)) * rng.randint(1, 4)
    return V(cl=cl, x=x)


def simplified(cl, x):
    return ([x] + [y for y in cl if y != x]) if x in cl else list(cl)


entry('simplify_clause', TA, (), [('ints', lambda v: list(v.cl)), ('int', lambda v: v.x)],
      lambda v: equiv(clause(v.cl), clause(simplified(v.cl, v.x))), draw=_draw_simplify, ret=1,
      derive=_derive_simplify, doc='(no docstring; test_simplify_clause) clause(cl) <-> clause([x] + cl without x), cl itself when x does not occur; returns (new clause, proof)')


def _draw_trivial(G):
    rng = G.rng
    x = rng.choice((1, -1)) * rng.randint(1, 3)
    cl = [x, -x] + [rng.choice((1, -1)) * rng.randint(1, 3) for _ in range(rng.choice((0, 0, 1, 1, 2)))]
    rng.shuffle(cl)
    return V(cl=cl)


entry('prove_trivial_clause', TA, (), [('ints', lambda v: list(v.cl))], lambda v: clause(v.cl), draw=_draw_trivial,
      derive=_derive_trivial, doc='(no docstring; test_prove_trivial_clause) clause(cl) for a clause containing a complementary pair')

def derive_vars(e, call_args, E):
    """Recover the schema variables of entry e from the positional arguments of an observed call
    (patterns / thunks of the toolkit; E converts a toolkit pattern to a normalised O1 term).
    None = arguments not of the advertised shape (the call is not judged)."""
    if e.derive is not None:
        if len(call_args) != len(e.args):
            return None
        return e.derive(call_args, E)
    ph = V({n: tb.mv(PH0 + i) for i, n in enumerate(e.vars)})
    sigma = {}
    for i, (kind, f) in enumerate(e.args):
        if i < len(call_args):
            a = call_args[i]
            term = E(a.conc) if kind == 'prem' else E(a)
        elif kind == 'pat' and i >= len(e.args) - e.ndefault:
            term = tb.mv(i)
        else:
            return None
        sigma = tb.match1(f(ph), term, sigma)
        if sigma is None:
            return None
    if any(PH0 + i not in sigma for i in range(len(e.vars))):
        return None
    return V({n: sigma[PH0 + i] for i, n in enumerate(e.vars)})


# public ProofThunk-returning methods that are deliberately not table entries
INDIRECT = {
    'ac_move_to_front': 'takes the lemma callbacks as arguments; exercised through or_move_to_front / and_move_to_front',
}
OWNED_BY_C09 = {
    'to_conj_form', 'propag_neg', 'to_cnf', 'to_clauses', 'build_proof_from_hint', 'start_resolution_algorithm', 'prove_tautology',
}


def public_thunk_methods(classes):
    """[(class name, method name)] of public methods whose return annotation mentions ProofThunk, defined by the given classes"""
    out = []
    for c in classes:
        for name, f in vars(c).items():
            if name.startswith('_') or not callable(f):
                continue
            ann = getattr(f, '__annotations__', {}).get('return')
            if ann is not None and 'ProofThunk' in str(ann):
                out.append((c.__name__, name))
    return out


def unspecified(classes):
    known = set(BY_NAME) | set(INDIRECT) | OWNED_BY_C09
    return sorted(f'{c}.{n}' for c, n in public_thunk_methods(classes) if n not in known)


def selfcheck():
    """every schema is a theorem of propositional logic when its variables are atoms and its premises are assumed:
    checked by truth tables for the entries whose variables are plain patterns (premises -> conclusion is a tautology)."""
    from . import proptable as pt
    for e in ENTRIES:
        if e.draw is not None:
            continue
        v = V({n: tb.mv(i) for i, n in enumerate(e.vars)})
        prem = [f(v) for k, f in e.args if k == 'prem']
        goal = e.concl(v)
        for p in reversed(prem):
            goal = im(p, goal)
        assert pt.classify(goal) == 'tautology', e.name
    return len(ENTRIES)

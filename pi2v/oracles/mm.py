"""O6 - Metamath oracle: (a) Appendix-B compressed-proof codec, (b) a small Metamath verifier,
(c) the structural image of a Metamath term as an O1 pattern (tb tuples).

Written from the Metamath book (sections 4.2-4.4 and Appendix B) and, for (c), from what the
translator documents; it never imports proof_generation.

Decisions recorded for (c) (the intended image where the repository is silent or ambiguous):

 I1  `( \\imp a b )` is Implies(a', b'), `( \\app a b )` is App(a', b').  These two (with \\exists/\\mu, which
     the supported fragment does not use) are the only built-in constructors.
 I2  A constant `k` that has a `$a #Pattern k $.` / `$a #Symbol k $.` axiom, or no declaration at all
     except `$c`, is a Symbol.  Symbols are compared up to a bijection between Metamath constant names
     and the numeric symbol ids of the binary format (one bijection per translated module, shared by the
     claim and all axioms), because the binary format has no names.
 I3  A constructor `( f t1 ... tn )` that has only a `f-is-pattern $a #Pattern ( f x1 ... xn ) $.`
     axiom and *no* `#Notation` (the translator calls this a "missing declaration") is the curried
     application  App(...App(App(Symbol f, t1'), t2')..., tn')  with the arguments in the order in which
     they are *written in the term* (textual order), independent of which metavariable names the
     `-is-pattern` axiom happens to use and of the `$f` order.
 I4  A constructor with a `$a #Notation ( f x1 ... xn ) rhs $.` axiom is the image of `rhs` with xi
     replaced by the image of the i-th written argument (positional, simultaneous).  Notations may use
     other notations and undeclared constructors; they are expanded completely.  A nullary notation
     `$a #Notation k rhs $.` likewise.
 I5  A metavariable `v` with `l $f #Pattern v $.` is MetaVar(i) (no constraints) where i is the number
     of `#Pattern` floating statements that precede `l` in the database (so the first `$f #Pattern` is
     metavariable 0, whatever its name).
 I6  A rule `${ h1 $e |- H1 $. ... hk $e |- Hk $.  r $a |- C $. $}` is published as
     H1' -> (H2' -> ... (Hk' -> C')) (hypotheses in database order); the translator's own comment calls
     this treatment of essential hypotheses provisional ("for now, we treat EH's as antecedents").
 I7  Exported axioms are exactly the `$a |- ...` statements (plain or last statement of a block) whose
     label does not start with `proof-rule-`; they are published in database order.  Claims: every `$p |-`
     statement of the database, in database order (the translator publishes all lemmas as claims but
     proves only the target; the property speaks of "the published claim" of the target, and the G6
     databases contain exactly one `$p`).
"""
from __future__ import annotations

# ------------------------------------------------------------------------------------------------
# (a) Appendix B codec
# ------------------------------------------------------------------------------------------------
# "A through T represent 1 through 20; U through Y are higher-order base-5 digits 1..5":
#   A=1 ... T=20, UA=21 ... UT=40, VA=41 ... YT=120, UUA=121 ... YYT=620, UUUA=621 ...

Z = 'Z'


def encode(n: int) -> str:
    if n < 1:
        raise ValueError('step numbers start at 1')
    x = n - 1
    out = [chr(ord('A') + x % 20)]
    x //= 20
    while x > 0:
        x -= 1
        out.append(chr(ord('U') + x % 5))
        x //= 5
    return ''.join(reversed(out))


class CodecError(Exception):
    pass


def decode(stream: str) -> list:
    """Letters (whitespace ignored) -> list of ints and 'Z' marks."""
    out = []
    acc = 0
    pending = False
    for ch in stream:
        if ch in ' \t\n\r\f':
            continue
        if 'A' <= ch <= 'T':
            out.append(acc * 20 + (ord(ch) - ord('A') + 1))
            acc = 0
            pending = False
        elif 'U' <= ch <= 'Y':
            acc = acc * 5 + (ord(ch) - ord('U') + 1)
            pending = True
        elif ch == 'Z':
            if pending:
                raise CodecError('Z inside a number')
            if not out or out[-1] == Z:
                raise CodecError('Z does not follow a step')
            out.append(Z)
        elif ch == '?':
            if pending:
                raise CodecError('? inside a number')
            out.append('?')
        else:
            raise CodecError(f'bad character {ch!r}')
    if pending:
        raise CodecError('unterminated number')
    return out


def codec_selfcheck():
    book = {1: 'A', 2: 'B', 20: 'T', 21: 'UA', 22: 'UB', 40: 'UT', 41: 'VA', 42: 'VB', 120: 'YT', 121: 'UUA',
            620: 'YYT', 621: 'UUUA'}
    for n, s in book.items():
        if encode(n) != s or decode(s) != [n]:
            return f'codec disagrees with the book at {n}: {encode(n)} / {decode(s)}'
    for n in list(range(1, 4000)) + [3120, 3121, 15620, 15621, 78120, 78121, 10 ** 6, 5 ** 9 * 20]:
        if decode(encode(n)) != [n]:
            return f'codec round trip fails at {n}'
    # lengths: 1 letter up to 20, k+1 letters up to 20*(5+..+5^k)+20
    if [len(encode(n)) for n in (20, 21, 120, 121, 620, 621, 3120, 3121)] != [1, 2, 2, 3, 3, 4, 4, 5]:
        return 'codec lengths wrong'
    return None


# ------------------------------------------------------------------------------------------------
# (b) verifier
# ------------------------------------------------------------------------------------------------
class MMError(Exception):
    pass


def tokenize(text: str) -> list:
    toks = []
    it = iter(text.split())
    for t in it:
        if t == '$(':
            for u in it:
                if u == '$)':
                    break
            else:
                raise MMError('unterminated comment')
            continue
        if t.startswith('$(') or ('$)' in t):
            # the shipped files glue "$(" to nothing else; a token containing "$)" outside a comment is malformed
            raise MMError(f'malformed comment token {t!r}')
        toks.append(t)
    return toks


class Frame:
    __slots__ = ('c', 'v', 'd', 'f', 'e')

    def __init__(self):
        self.c = set()
        self.v = set()
        self.d = set()     # frozenset pairs
        self.f = []        # (label, typecode, var)
        self.e = []        # (label, stmt tuple)


class Assertion:
    __slots__ = ('label', 'kind', 'dvs', 'hyps', 'stmt', 'proof', 'index', 'depth')

    def __init__(self, label, kind, dvs, hyps, stmt, proof, index, depth):
        self.label = label
        self.kind = kind          # '$a' | '$p'
        self.dvs = dvs            # set of frozenset pairs over mandatory variables
        self.hyps = hyps          # [('$f', label, typecode, var) | ('$e', label, stmt)] in database order
        self.stmt = stmt
        self.proof = proof        # token list or None
        self.index = index
        self.depth = depth


class Database:
    """Reads a database text, checks declarations strictly, and verifies proofs on demand."""

    def __init__(self, text: str, verify=True, strict=True, only=None, keep_trees=False):
        self.strict = strict
        self.frames = [Frame()]
        self.labels = {}            # label -> ('$f', tc, var) | ('$e', stmt) | Assertion
        self.order = []             # labels of all labelled statements in order
        self.assertions = []
        self.f_order = []           # (label, typecode, var, depth) of every $f in database order
        self.constants_declared = []
        self.results = {}           # label -> None (verified) | 'incomplete'
        self.keep_trees = keep_trees
        self.trees = {}             # label -> proof tree (label, (children...)) when keep_trees
        self._tstack = None
        self._read(tokenize(text), verify, only)

    # ---- scope queries
    def _is_c(self, s):
        return any(s in fr.c for fr in self.frames)

    def _is_v(self, s):
        return any(s in fr.v for fr in self.frames)

    def _active_f(self, var):
        for fr in reversed(self.frames):
            for lab, tc, v in reversed(fr.f):
                if v == var:
                    return (lab, tc)
        return None

    def _check_stmt(self, stmt, where):
        if not stmt:
            raise MMError(f'{where}: empty statement')
        if not self._is_c(stmt[0]):
            raise MMError(f'{where}: first symbol {stmt[0]!r} is not a declared constant')
        for s in stmt[1:]:
            if self._is_c(s):
                continue
            if self._is_v(s):
                if self._active_f(s) is None:
                    raise MMError(f'{where}: variable {s!r} has no active $f')
                continue
            raise MMError(f'{where}: symbol {s!r} is not declared')

    def _new_label(self, lab):
        if lab in self.labels:
            raise MMError(f'label {lab!r} declared twice')
        if lab.startswith('$'):
            raise MMError(f'bad label {lab!r}')
        self.order.append(lab)

    def _make_assertion(self, label, kind, stmt, proof):
        e_hyps = [e for fr in self.frames for e in fr.e]
        mand = set()
        for s in stmt:
            if self._is_v(s):
                mand.add(s)
        for _, es in e_hyps:
            for s in es:
                if self._is_v(s):
                    mand.add(s)
        hyps = []
        # database order: frames are nested, so statements of outer frames that precede ... are NOT
        # necessarily earlier than those of inner frames only if interleaved; order by global index.
        items = []
        for fr in self.frames:
            for lab, tc, v in fr.f:
                if v in mand:
                    items.append((self._pos[lab], ('$f', lab, tc, v)))
            for lab, es in fr.e:
                items.append((self._pos[lab], ('$e', lab, es)))
        items.sort(key=lambda t: t[0])
        hyps = [h for _, h in items]
        dvs = set()
        for fr in self.frames:
            for p in fr.d:
                if p <= mand:
                    dvs.add(p)
        a = Assertion(label, kind, dvs, hyps, stmt, proof, len(self.assertions), len(self.frames) - 1)
        self.assertions.append(a)
        return a

    def _all_dvs(self):
        out = set()
        for fr in self.frames:
            out |= fr.d
        return out

    def _read(self, toks, verify, only):
        self._pos = {}
        i = 0
        n = len(toks)
        pending_label = None

        def until(end, start):
            nonlocal i
            j = start
            while j < n and toks[j] != end:
                if toks[j].startswith('$'):
                    raise MMError(f'unexpected {toks[j]} inside a statement')
                j += 1
            if j >= n:
                raise MMError(f'missing {end}')
            body = toks[start:j]
            i = j + 1
            return body

        while i < n:
            t = toks[i]
            if t == '${':
                if pending_label:
                    raise MMError('label before ${')
                self.frames.append(Frame())
                i += 1
            elif t == '$}':
                if pending_label:
                    raise MMError('label before $}')
                if len(self.frames) == 1:
                    raise MMError('unmatched $}')
                self.frames.pop()
                i += 1
            elif t == '$c':
                if pending_label:
                    raise MMError('label before $c')
                body = until('$.', i + 1)
                if len(self.frames) != 1 and self.strict:
                    raise MMError('$c inside a block')
                if not body:
                    raise MMError('empty $c')
                for s in body:
                    if self._is_c(s) or self._is_v(s):
                        raise MMError(f'constant {s!r} redeclared')
                    if '$' in s:
                        raise MMError(f'bad math symbol {s!r}')
                    self.frames[-1].c.add(s)
                    self.constants_declared.append(s)
            elif t == '$v':
                if pending_label:
                    raise MMError('label before $v')
                body = until('$.', i + 1)
                if not body:
                    raise MMError('empty $v')
                for s in body:
                    if self._is_c(s) or self._is_v(s):
                        raise MMError(f'variable {s!r} redeclared')
                    self.frames[-1].v.add(s)
            elif t == '$d':
                if pending_label:
                    raise MMError('label before $d')
                body = until('$.', i + 1)
                if len(body) < 2:
                    raise MMError('$d needs two variables')
                if len(set(body)) != len(body):
                    raise MMError('$d repeats a variable')
                for s in body:
                    if not self._is_v(s):
                        raise MMError(f'$d: {s!r} is not an active variable')
                for a in range(len(body)):
                    for b in range(a + 1, len(body)):
                        self.frames[-1].d.add(frozenset((body[a], body[b])))
            elif t in ('$f', '$e', '$a', '$p'):
                if not pending_label:
                    raise MMError(f'{t} without a label')
                lab = pending_label
                pending_label = None
                self._new_label(lab)
                self._pos[lab] = len(self._pos)
                if t == '$p':
                    stmt = tuple(until('$=', i + 1))
                    proof = until('$.', i)
                else:
                    stmt = tuple(until('$.', i + 1))
                    proof = None
                if t == '$f':
                    if len(stmt) != 2:
                        raise MMError(f'{lab}: $f needs a constant and a variable')
                    tc, v = stmt
                    if not self._is_c(tc):
                        raise MMError(f'{lab}: typecode {tc!r} is not a declared constant')
                    if not self._is_v(v):
                        raise MMError(f'{lab}: {v!r} is not an active variable')
                    if self._active_f(v) is not None:
                        raise MMError(f'{lab}: variable {v!r} already has an active $f')
                    self.frames[-1].f.append((lab, tc, v))
                    self.labels[lab] = ('$f', tc, v)
                    self.f_order.append((lab, tc, v, len(self.frames) - 1))
                elif t == '$e':
                    self._check_stmt(stmt, lab)
                    self.frames[-1].e.append((lab, stmt))
                    self.labels[lab] = ('$e', stmt)
                else:
                    self._check_stmt(stmt, lab)
                    a = self._make_assertion(lab, t, stmt, proof)
                    if t == '$p' and verify and (only is None or lab in only):
                        self.results[lab] = self._verify(a)
                    self.labels[lab] = a
            elif t.startswith('$'):
                raise MMError(f'unsupported keyword {t}')
            else:
                if pending_label:
                    raise MMError(f'two labels in a row: {pending_label} {t}')
                pending_label = t
                i += 1
        if pending_label:
            raise MMError('dangling label')
        if len(self.frames) != 1:
            raise MMError('unclosed ${')

    # ---- proofs
    def mandatory_labels(self, a: Assertion):
        return [h[1] for h in a.hyps]

    def _push_hyp(self, stack, h):
        if h[0] == '$f':
            stack.append((h[2], h[3]))
        else:
            stack.append(h[2])
        if self._tstack is not None:
            self._tstack.append((h[1], ()))

    def _apply(self, stack, a: Assertion, thm: Assertion, dvs_active, step):
        k = len(a.hyps)
        if len(stack) < k:
            raise MMError(f'{thm.label}: step {step} ({a.label}): stack underflow')
        args = stack[len(stack) - k:]
        del stack[len(stack) - k:]
        if self._tstack is not None:
            kids = tuple(self._tstack[len(self._tstack) - k:]) if k else ()
            del self._tstack[len(self._tstack) - k:]
            self._tstack.append((a.label, kids))
        sub = {}
        for h, arg in zip(a.hyps, args):
            if h[0] == '$f':
                if arg[0] != h[2]:
                    raise MMError(f'{thm.label}: step {step} ({a.label}): typecode mismatch for {h[3]}: {arg[0]} vs {h[2]}')
                sub[h[3]] = arg[1:]
            else:
                want = self._subst(h[2], sub)
                if want != arg:
                    raise MMError(f'{thm.label}: step {step} ({a.label}): hypothesis {h[1]} mismatch: '
                                  f'need {" ".join(want)} have {" ".join(arg)}')
        for p in a.dvs:
            x, y = tuple(p)
            vx = [s for s in sub[x] if self._is_v(s)]
            vy = [s for s in sub[y] if self._is_v(s)]
            for s in vx:
                for u in vy:
                    if s == u:
                        raise MMError(f'{thm.label}: step {step} ({a.label}): $d {x} {y} violated: both contain {s}')
                    if frozenset((s, u)) not in dvs_active:
                        raise MMError(f'{thm.label}: step {step} ({a.label}): $d {x} {y} needs $d {s} {u}')
        stack.append(self._subst(a.stmt, sub))

    @staticmethod
    def _subst(stmt, sub):
        out = []
        for s in stmt:
            r = sub.get(s)
            if r is None:
                out.append(s)
            else:
                out.extend(r)
        return tuple(out)

    def _verify(self, thm: Assertion):
        proof = thm.proof
        if not proof:
            raise MMError(f'{thm.label}: empty proof')
        if '?' in proof and proof[0] != '(':
            return 'incomplete'
        dvs_active = self._all_dvs()
        stack = []
        self._tstack = [] if self.keep_trees else None
        if proof[0] == '(':
            try:
                close = proof.index(')')
            except ValueError:
                raise MMError(f'{thm.label}: compressed proof without )')
            listed = proof[1:close]
            letters = ''.join(proof[close + 1:])
            try:
                steps = decode(letters)
            except CodecError as e:
                raise MMError(f'{thm.label}: {e}')
            if '?' in steps:
                return 'incomplete'
            mand = thm.hyps
            m = len(mand)
            for lab in listed:
                ent = self.labels.get(lab)
                if ent is None:
                    raise MMError(f'{thm.label}: unknown label {lab!r} in the label list')
                if self.strict and any(h[1] == lab for h in mand):
                    raise MMError(f'{thm.label}: mandatory hypothesis {lab!r} in the label list')
            saved = []
            tsaved = []
            for k, s in enumerate(steps):
                if s == Z:
                    if not stack:
                        raise MMError(f'{thm.label}: Z with empty stack')
                    saved.append(stack[-1])
                    if self._tstack is not None:
                        tsaved.append(self._tstack[-1])
                elif s <= m:
                    self._push_hyp(stack, mand[s - 1])
                elif s <= m + len(listed):
                    self._step_label(stack, listed[s - m - 1], thm, dvs_active, k)
                elif s <= m + len(listed) + len(saved):
                    stack.append(saved[s - m - len(listed) - 1])
                    if self._tstack is not None:
                        self._tstack.append(tsaved[s - m - len(listed) - 1])
                else:
                    raise MMError(f'{thm.label}: step number {s} out of range')
        else:
            for k, lab in enumerate(proof):
                self._step_label(stack, lab, thm, dvs_active, k)
        if len(stack) != 1:
            raise MMError(f'{thm.label}: proof leaves {len(stack)} entries on the stack')
        if stack[0] != thm.stmt:
            raise MMError(f'{thm.label}: proved {" ".join(stack[0])} instead of {" ".join(thm.stmt)}')
        if self._tstack is not None:
            self.trees[thm.label] = self._tstack[0]
        return None

    def _step_label(self, stack, lab, thm, dvs_active, k):
        ent = self.labels.get(lab)
        if ent is None:
            raise MMError(f'{thm.label}: step {k}: unknown label {lab!r}')
        if isinstance(ent, Assertion):
            if ent.index >= thm.index:
                raise MMError(f'{thm.label}: step {k}: {lab} is not an earlier assertion')
            self._apply(stack, ent, thm, dvs_active, k)
        elif ent[0] == '$f':
            # must be active
            act = self._active_f(ent[2])
            if act is None or act[0] != lab:
                raise MMError(f'{thm.label}: step {k}: hypothesis {lab} is not active')
            stack.append((ent[1], ent[2]))
            if self._tstack is not None:
                self._tstack.append((lab, ()))
        else:
            if not any(l == lab for fr in self.frames for l, _ in fr.e):
                raise MMError(f'{thm.label}: step {k}: hypothesis {lab} is not active')
            stack.append(ent[1])
            if self._tstack is not None:
                self._tstack.append((lab, ()))


def verify_text(text: str, strict=True, only=None):
    """Returns (Database, None) or (None, error string)."""
    try:
        return Database(text, verify=True, strict=strict, only=only), None
    except MMError as e:
        return None, str(e)
    except RecursionError:
        return None, 'recursion'


# ------------------------------------------------------------------------------------------------
# (c) structural image of Metamath terms as O1 patterns (decisions I1-I7 at the top of this file)
# ------------------------------------------------------------------------------------------------
class Unsupported(Exception):
    """the statement is outside the fragment whose image is documented"""


def parse_sexpr(tokens, is_var):
    """tokens of ONE term -> tree: variable = str, application = (symbol, args...)"""
    pos = 0

    def term():
        nonlocal pos
        if pos >= len(tokens):
            raise Unsupported('truncated term')
        t = tokens[pos]
        pos += 1
        if t == '(':
            if pos >= len(tokens):
                raise Unsupported('truncated term')
            sym = tokens[pos]
            pos += 1
            args = []
            while pos < len(tokens) and tokens[pos] != ')':
                args.append(term())
            if pos >= len(tokens):
                raise Unsupported('unbalanced term')
            pos += 1
            return (sym,) + tuple(args)
        if t == ')':
            raise Unsupported('unbalanced term')
        return t if is_var(t) else (t,)

    out = []
    while pos < len(tokens):
        out.append(term())
    return out


class Imager:
    def __init__(self, db: Database):
        from . import tb
        self.tb = tb
        self.db = db
        self.variables = set()
        self.mv_index = {}
        self.other_vars = set()
        for lab, tc, v, depth in db.f_order:
            self.variables.add(v)
            if tc == '#Pattern':
                if v not in self.mv_index:
                    self.mv_index[v] = len(self.mv_index)
            else:
                self.other_vars.add(v)
        self.notations = {}
        for a in db.assertions:
            if a.kind == '$a' and a.stmt[0] == '#Notation' and not any(h[0] == '$e' for h in a.hyps):
                try:
                    ts = parse_sexpr(list(a.stmt[1:]), self.variables.__contains__)
                except Unsupported:
                    continue
                if len(ts) != 2 or isinstance(ts[0], str):
                    continue
                lhs, rhs = ts
                if not isinstance(rhs, str) and rhs[0] == lhs[0]:
                    continue        # the converter ignores `#Notation ( f .. ) ( f .. )` congruence statements
                if not all(isinstance(p, str) for p in lhs[1:]):
                    continue
                self.notations.setdefault(lhs[0], (lhs[1:], rhs))

    def image(self, t, env=None):
        tb = self.tb
        if isinstance(t, str):
            if env is not None and t in env:
                return env[t]
            if t in self.mv_index:
                return tb.mv(self.mv_index[t])
            raise Unsupported(f'variable {t} is not a #Pattern metavariable')
        sym, args = t[0], t[1:]
        if sym == '\\imp' and len(args) == 2:
            return tb.im(self.image(args[0], env), self.image(args[1], env))
        if sym == '\\app' and len(args) == 2:
            return tb.ap(self.image(args[0], env), self.image(args[1], env))
        if sym in ('\\exists', '\\mu'):
            raise Unsupported('binders are outside the documented fragment')
        if sym in self.notations:
            params, rhs = self.notations[sym]
            if len(params) != len(args):
                raise Unsupported(f'notation {sym} used with {len(args)} arguments')
            return self.image(rhs, {p: self.image(a, env) for p, a in zip(params, args)})
        out = ('sy', sym)
        for a in args:
            out = tb.ap(out, self.image(a, env))
        return out

    def statement_image(self, stmt):
        if stmt[0] != '|-':
            raise Unsupported(f'typecode {stmt[0]}')
        ts = parse_sexpr(list(stmt[1:]), self.variables.__contains__)
        if len(ts) != 1:
            raise Unsupported('statement is not one term')
        return self.image(ts[0])

    def assertion_image(self, a: Assertion):
        if a.dvs:
            raise Unsupported('$d')
        concl = self.statement_image(a.stmt)
        hyps = []
        for h in a.hyps:
            if h[0] == '$e':
                hyps.append(self.statement_image(h[2]))
        out = concl
        for h in reversed(hyps):
            out = self.tb.im(h, out)
        return out

    def exported_axioms(self):
        """[(label, image | Unsupported instance)] in database order"""
        out = []
        for a in self.db.assertions:
            if a.kind == '$a' and a.stmt[0] == '|-' and not a.label.startswith('proof-rule-'):
                try:
                    out.append((a.label, self.assertion_image(a)))
                except Unsupported as e:
                    out.append((a.label, e))
        return out

    def claims(self):
        out = []
        for a in self.db.assertions:
            if a.kind == '$p' and a.stmt[0] == '|-':
                try:
                    out.append((a.label, self.assertion_image(a)))
                except Unsupported as e:
                    out.append((a.label, e))
        return out


def match_up_to_symbols(expected, got, fwd, bwd):
    """expected: O6(c) image with ('sy', name); got: decoded term with ('sy', int).  Extends the bijection."""
    from . import tb
    f2, b2 = dict(fwd), dict(bwd)
    if tb.match_symbols(expected, got, f2, b2):
        fwd.clear(); fwd.update(f2)
        bwd.clear(); bwd.update(b2)
        return True
    return False

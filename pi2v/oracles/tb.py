"""O1 - textbook matching-logic pattern algebra.

Written from the definitions in docs/proof-language.md and the usual
matching-logic textbook definitions.  Never imports proof_generation (the
conversion `of_repo` only looks at class *names* and dataclass fields).

Terms are immutable tuples:
  ('ev', n) ('sv', n) ('sy', name) ('im', a, b) ('ap', a, b)
  ('ex', n, a) ('mu', n, a)
  ('mv', n, ef, sf, pos, neg, holes)     constraint lists as tuples of ints
  ('es', pat, n, plug) ('ss', pat, n, plug)   deferred substitutions
"""
from __future__ import annotations

import sys

sys.setrecursionlimit(100000)


class Undefined(Exception):
    """Operation undefined on these arguments (e.g. capture in the partial substitution)."""


class Capture(Undefined):
    pass


class ConstraintViolation(Undefined):
    pass


# ---------------------------------------------------------------- constructors
def ev(n): return ('ev', n)
def sv(n): return ('sv', n)
def sy(n): return ('sy', n)
def im(a, b): return ('im', a, b)
def ap(a, b): return ('ap', a, b)
def ex(n, a): return ('ex', n, a)
def mu(n, a): return ('mu', n, a)
def mv(n, ef=(), sf=(), pos=(), neg=(), holes=()): return ('mv', n, tuple(ef), tuple(sf), tuple(pos), tuple(neg), tuple(holes))
def es(p, n, plug): return ('es', p, n, plug)
def ss(p, n, plug): return ('ss', p, n, plug)


BOT = mu(0, sv(0))
def neg(a): return im(a, BOT)
TOP = neg(BOT)
def and_(a, b): return neg(im(a, neg(b)))
def or_(a, b): return im(neg(a), b)
def equiv(a, b): return and_(im(a, b), im(b, a))


def size(t) -> int:
    k = t[0]
    if k in ('ev', 'sv', 'sy', 'mv'):
        return 1
    if k in ('im', 'ap'):
        return 1 + size(t[1]) + size(t[2])
    if k in ('ex', 'mu'):
        return 1 + size(t[2])
    return 1 + size(t[1]) + size(t[3])


def is_concrete(t) -> bool:
    k = t[0]
    if k in ('ev', 'sv', 'sy'):
        return True
    if k in ('mv', 'es', 'ss'):
        return False
    if k in ('im', 'ap'):
        return is_concrete(t[1]) and is_concrete(t[2])
    return is_concrete(t[2])


def metavars(t, acc=None) -> dict:
    """id -> set of distinct metavariable nodes with that id (constraint lists may differ)."""
    if acc is None:
        acc = {}
    k = t[0]
    if k == 'mv':
        acc.setdefault(t[1], set()).add(t)
    elif k in ('im', 'ap'):
        metavars(t[1], acc); metavars(t[2], acc)
    elif k in ('ex', 'mu'):
        metavars(t[2], acc)
    elif k in ('es', 'ss'):
        metavars(t[1], acc); metavars(t[3], acc)
    return acc


def metavar_ids(t) -> set:
    return set(metavars(t).keys())


def symbols(t, acc=None) -> set:
    if acc is None:
        acc = set()
    k = t[0]
    if k == 'sy':
        acc.add(t[1])
    elif k in ('im', 'ap'):
        symbols(t[1], acc); symbols(t[2], acc)
    elif k in ('ex', 'mu'):
        symbols(t[2], acc)
    elif k in ('es', 'ss'):
        symbols(t[1], acc); symbols(t[3], acc)
    return acc


def all_evars(t, acc=None) -> set:
    """every element-variable id mentioned anywhere (free, bound, binder, constraint, subst var)."""
    if acc is None:
        acc = set()
    k = t[0]
    if k == 'ev':
        acc.add(t[1])
    elif k in ('im', 'ap'):
        all_evars(t[1], acc); all_evars(t[2], acc)
    elif k == 'ex':
        acc.add(t[1]); all_evars(t[2], acc)
    elif k == 'mu':
        all_evars(t[2], acc)
    elif k == 'mv':
        acc.update(t[2]); acc.update(t[6])
    elif k == 'es':
        acc.add(t[2]); all_evars(t[1], acc); all_evars(t[3], acc)
    elif k == 'ss':
        all_evars(t[1], acc); all_evars(t[3], acc)
    return acc


def all_svars(t, acc=None) -> set:
    if acc is None:
        acc = set()
    k = t[0]
    if k == 'sv':
        acc.add(t[1])
    elif k in ('im', 'ap'):
        all_svars(t[1], acc); all_svars(t[2], acc)
    elif k == 'mu':
        acc.add(t[1]); all_svars(t[2], acc)
    elif k == 'ex':
        all_svars(t[2], acc)
    elif k == 'mv':
        acc.update(t[3]); acc.update(t[4]); acc.update(t[5])
    elif k == 'ss':
        acc.add(t[2]); all_svars(t[1], acc); all_svars(t[3], acc)
    elif k == 'es':
        all_svars(t[1], acc); all_svars(t[3], acc)
    return acc


# ------------------------------------------------- concrete patterns: FV, polarity
def fv_e(t) -> frozenset:
    k = t[0]
    if k == 'ev':
        return frozenset((t[1],))
    if k in ('sv', 'sy'):
        return frozenset()
    if k in ('im', 'ap'):
        return fv_e(t[1]) | fv_e(t[2])
    if k == 'ex':
        return fv_e(t[2]) - {t[1]}
    if k == 'mu':
        return fv_e(t[2])
    raise Undefined('fv_e on meta-pattern')


def fv_s(t) -> frozenset:
    k = t[0]
    if k == 'sv':
        return frozenset((t[1],))
    if k in ('ev', 'sy'):
        return frozenset()
    if k in ('im', 'ap'):
        return fv_s(t[1]) | fv_s(t[2])
    if k == 'mu':
        return fv_s(t[2]) - {t[1]}
    if k == 'ex':
        return fv_s(t[2])
    raise Undefined('fv_s on meta-pattern')


def occurs_polarity(t, X, sign=1, acc=None) -> set:
    """set of signs (+1/-1) with which the set variable X occurs free in concrete t."""
    if acc is None:
        acc = set()
    k = t[0]
    if k == 'sv':
        if t[1] == X:
            acc.add(sign)
    elif k == 'im':
        occurs_polarity(t[1], X, -sign, acc); occurs_polarity(t[2], X, sign, acc)
    elif k == 'ap':
        occurs_polarity(t[1], X, sign, acc); occurs_polarity(t[2], X, sign, acc)
    elif k == 'ex':
        occurs_polarity(t[2], X, sign, acc)
    elif k == 'mu':
        if t[1] != X:
            occurs_polarity(t[2], X, sign, acc)
    elif k in ('ev', 'sy'):
        pass
    else:
        raise Undefined('polarity on meta-pattern')
    return acc


def positive_conc(t, X) -> bool:
    return -1 not in occurs_polarity(t, X)


def negative_conc(t, X) -> bool:
    return 1 not in occurs_polarity(t, X)


def wf_conc(t) -> bool:
    """well-formed concrete pattern: every mu binds a variable that occurs only positively."""
    k = t[0]
    if k in ('ev', 'sv', 'sy'):
        return True
    if k in ('im', 'ap'):
        return wf_conc(t[1]) and wf_conc(t[2])
    if k == 'ex':
        return wf_conc(t[2])
    if k == 'mu':
        return wf_conc(t[2]) and positive_conc(t[2], t[1])
    raise Undefined('wf_conc on meta-pattern')


# -------------------------------- the document's meta-level judgements (proof-language.md, Terms)
def d_e_fresh(t, x) -> bool:
    k = t[0]
    if k == 'ev':
        return t[1] != x
    if k in ('sv', 'sy'):
        return True
    if k == 'mv':
        return x in t[2]
    if k in ('im', 'ap'):
        return d_e_fresh(t[1], x) and d_e_fresh(t[2], x)
    if k == 'ex':
        return x == t[1] or d_e_fresh(t[2], x)
    if k == 'mu':
        return d_e_fresh(t[2], x)
    if k == 'es':
        if x == t[2]:
            return d_e_fresh(t[3], x)
        return d_e_fresh(t[1], x) and d_e_fresh(t[3], x)
    if k == 'ss':
        return d_e_fresh(t[1], x) and d_e_fresh(t[3], x)
    raise AssertionError(k)


def d_s_fresh(t, X) -> bool:
    k = t[0]
    if k == 'sv':
        return t[1] != X
    if k in ('ev', 'sy'):
        return True
    if k == 'mv':
        return X in t[3]
    if k in ('im', 'ap'):
        return d_s_fresh(t[1], X) and d_s_fresh(t[2], X)
    if k == 'ex':
        return d_s_fresh(t[2], X)
    if k == 'mu':
        return X == t[1] or d_s_fresh(t[2], X)
    if k == 'es':
        return d_s_fresh(t[1], X) and d_s_fresh(t[3], X)
    if k == 'ss':
        if X == t[2]:
            return d_s_fresh(t[3], X)
        return d_s_fresh(t[1], X) and d_s_fresh(t[3], X)
    raise AssertionError(k)


def d_positive(t, X) -> bool:
    k = t[0]
    if k in ('ev', 'sv', 'sy'):
        return True
    if k == 'mv':
        return X in t[4]
    if k == 'im':
        return d_negative(t[1], X) and d_positive(t[2], X)
    if k == 'ap':
        return d_positive(t[1], X) and d_positive(t[2], X)
    if k == 'ex':
        return d_positive(t[2], X)
    if k == 'mu':
        return X == t[1] or d_positive(t[2], X)
    if k == 'es':
        return d_positive(t[1], X) and d_s_fresh(t[3], X)
    if k == 'ss':
        pat, var, plug = t[1], t[2], t[3]
        pp = d_s_fresh(plug, X) or (d_positive(pat, var) and d_positive(plug, X)) or (d_negative(pat, var) and d_negative(plug, X))
        if X == var:
            return pp
        return d_positive(pat, X) and pp
    raise AssertionError(k)


def d_negative(t, X) -> bool:
    k = t[0]
    if k in ('ev', 'sy'):
        return True
    if k == 'sv':
        return t[1] != X
    if k == 'mv':
        return X in t[5]
    if k == 'im':
        return d_positive(t[1], X) and d_negative(t[2], X)
    if k == 'ap':
        return d_negative(t[1], X) and d_negative(t[2], X)
    if k == 'ex':
        return d_negative(t[2], X)
    if k == 'mu':
        return X == t[1] or d_negative(t[2], X)
    if k == 'es':
        return d_negative(t[1], X) and d_s_fresh(t[3], X)
    if k == 'ss':
        pat, var, plug = t[1], t[2], t[3]
        pn = d_s_fresh(plug, X) or (d_positive(pat, var) and d_negative(plug, X)) or (d_negative(pat, var) and d_positive(plug, X))
        if X == var:
            return pn
        return d_negative(pat, X) and pn
    raise AssertionError(k)


# ------------------------------------------------------------------ substitution
def _fresh_id(avoid) -> int:
    n = 0
    while n in avoid:
        n += 1
    return n


def subst_e(t, x, plug, mode='partial'):
    """t[plug/x] for an element variable.

    mode 'strict' : raise Capture at every binder whose variable is not fresh in the plug, whether or
                    not the substituted variable occurs below it (what a binder-by-binder checker does).
    mode 'partial': raise Capture if a free variable of plug would be captured by a binder
                    (element variable under Exists, set variable under Mu); judged with the
                    document's freshness judgement so it is defined for meta plugs too.
    mode 'alpha'  : rename the binder (concrete plugs only).
    mode 'naive'  : no capture handling at all.
    On metavariables and deferred substitutions the substitution is deferred.
    """
    k = t[0]
    if k == 'ev':
        return plug if t[1] == x else t
    if k in ('sv', 'sy'):
        return t
    if k in ('im', 'ap'):
        return (k, subst_e(t[1], x, plug, mode), subst_e(t[2], x, plug, mode))
    if k == 'ex':
        if t[1] == x:
            return t
        if mode == 'strict':
            if not d_e_fresh(plug, t[1]):
                raise Capture(f'evar {t[1]}')
        elif mode == 'partial':
            if not d_e_fresh(plug, t[1]) and not _e_absent(t[2], x):
                raise Capture(f'evar {t[1]}')
            if not d_e_fresh(plug, t[1]):
                return t  # x does not occur below: nothing is replaced, nothing captured
        elif mode == 'alpha':
            if t[1] in fv_e(plug) and x in fv_e(t[2]):
                z = _fresh_id(all_evars(t[2]) | all_evars(plug) | {x})
                body = subst_e(t[2], t[1], ev(z), 'alpha')
                return ('ex', z, subst_e(body, x, plug, 'alpha'))
        return ('ex', t[1], subst_e(t[2], x, plug, mode))
    if k == 'mu':
        if mode == 'strict':
            if not d_s_fresh(plug, t[1]):
                raise Capture(f'svar {t[1]}')
        elif mode == 'partial':
            if not d_s_fresh(plug, t[1]) and not _e_absent(t[2], x):
                raise Capture(f'svar {t[1]}')
            if not d_s_fresh(plug, t[1]):
                return t
        elif mode == 'alpha':
            if t[1] in fv_s(plug) and x in fv_e(t[2]):
                Z = _fresh_id(all_svars(t[2]) | all_svars(plug))
                body = subst_s(t[2], t[1], sv(Z), 'alpha')
                return ('mu', Z, subst_e(body, x, plug, 'alpha'))
        return ('mu', t[1], subst_e(t[2], x, plug, mode))
    if k == 'mv' and x in t[2]:
        return t          # A10: the metavariable declares x fresh - nothing is substituted (a wrapped term would be a redundant ESubst)
    return ('es', t, x, plug)


def subst_s(t, X, plug, mode='partial'):
    k = t[0]
    if k == 'sv':
        return plug if t[1] == X else t
    if k in ('ev', 'sy'):
        return t
    if k in ('im', 'ap'):
        return (k, subst_s(t[1], X, plug, mode), subst_s(t[2], X, plug, mode))
    if k == 'mu':
        if t[1] == X:
            return t
        if mode == 'strict':
            if not d_s_fresh(plug, t[1]):
                raise Capture(f'svar {t[1]}')
        elif mode == 'partial':
            if not d_s_fresh(plug, t[1]) and not _s_absent(t[2], X):
                raise Capture(f'svar {t[1]}')
            if not d_s_fresh(plug, t[1]):
                return t
        elif mode == 'alpha':
            if t[1] in fv_s(plug) and X in fv_s(t[2]):
                Z = _fresh_id(all_svars(t[2]) | all_svars(plug) | {X})
                body = subst_s(t[2], t[1], sv(Z), 'alpha')
                return ('mu', Z, subst_s(body, X, plug, 'alpha'))
        return ('mu', t[1], subst_s(t[2], X, plug, mode))
    if k == 'ex':
        if mode == 'strict':
            if not d_e_fresh(plug, t[1]):
                raise Capture(f'evar {t[1]}')
        elif mode == 'partial':
            if not d_e_fresh(plug, t[1]) and not _s_absent(t[2], X):
                raise Capture(f'evar {t[1]}')
            if not d_e_fresh(plug, t[1]):
                return t
        elif mode == 'alpha':
            if t[1] in fv_e(plug) and X in fv_s(t[2]):
                z = _fresh_id(all_evars(t[2]) | all_evars(plug))
                body = subst_e(t[2], t[1], ev(z), 'alpha')
                return ('ex', z, subst_s(body, X, plug, 'alpha'))
        return ('ex', t[1], subst_s(t[2], X, plug, mode))
    if k == 'mv' and X in t[3]:
        return t          # A10, as for element variables
    return ('ss', t, X, plug)


def _e_absent(t, x) -> bool:
    """x certainly does not occur free in t (syntactically: no free occurrence and no metavariable
    or deferred substitution that could hide one)."""
    k = t[0]
    if k == 'ev':
        return t[1] != x
    if k in ('sv', 'sy'):
        return True
    if k in ('im', 'ap'):
        return _e_absent(t[1], x) and _e_absent(t[2], x)
    if k == 'ex':
        return t[1] == x or _e_absent(t[2], x)
    if k == 'mu':
        return _e_absent(t[2], x)
    return False


def _s_absent(t, X) -> bool:
    k = t[0]
    if k == 'sv':
        return t[1] != X
    if k in ('ev', 'sy'):
        return True
    if k in ('im', 'ap'):
        return _s_absent(t[1], X) and _s_absent(t[2], X)
    if k == 'mu':
        return t[1] == X or _s_absent(t[2], X)
    if k == 'ex':
        return _s_absent(t[2], X)
    return False


def capture_strict(t, var, plug, kind) -> bool:
    """Would a *binder-by-binder* checker (one that asserts freshness of the plug at every binder
    it descends through, whether or not the variable occurs below) refuse t[plug/var]?"""
    k = t[0]
    if k in ('ev', 'sv', 'sy', 'mv', 'es', 'ss'):
        return False
    if k in ('im', 'ap'):
        return capture_strict(t[1], var, plug, kind) or capture_strict(t[2], var, plug, kind)
    if k == 'ex':
        if kind == 'e' and t[1] == var:
            return False
        return (not d_e_fresh(plug, t[1])) or capture_strict(t[2], var, plug, kind)
    if k == 'mu':
        if kind == 's' and t[1] == var:
            return False
        return (not d_s_fresh(plug, t[1])) or capture_strict(t[2], var, plug, kind)
    raise AssertionError(k)


# ---------------------------------------------------- metavariable instantiation
def check_constraints_doc(m, plug) -> str | None:
    """The document's InstantiateSchema.well_formed for one replaced occurrence m := plug.
    Returns the violated family or None.  (app_ctx_holes: A11, not checked.)"""
    for x in m[2]:
        if not d_e_fresh(plug, x):
            return 'e_fresh'
    for X in m[3]:
        if not d_s_fresh(plug, X):
            return 's_fresh'
    for X in m[4]:
        if not d_positive(plug, X):
            return 'positive'
    for X in m[5]:
        if not d_negative(plug, X):
            return 'negative'
    return None


def check_constraints_conc(m, plug) -> bool:
    """Concrete plug respects the constraints of metavariable node m (real FV / polarity)."""
    fe = fv_e(plug); fs = fv_s(plug)
    if any(x in fe for x in m[2]):
        return False
    if any(X in fs for X in m[3]):
        return False
    if any(not positive_conc(plug, X) for X in m[4]):
        return False
    if any(not negative_conc(plug, X) for X in m[5]):
        return False
    return True


def inst(t, delta, mode='partial', check=None):
    """Simultaneous instantiation of metavariables.  delta: id -> term.
    check: None | 'doc' (raise ConstraintViolation per the document's judgements).
    Deferred substitutions whose parts changed are re-applied with subst_*(mode)."""
    k = t[0]
    if k in ('ev', 'sv', 'sy'):
        return t
    if k == 'mv':
        if t[1] in delta:
            plug = delta[t[1]]
            if check == 'doc':
                fam = check_constraints_doc(t, plug)
                if fam:
                    raise ConstraintViolation(fam)
            return plug
        return t
    if k in ('im', 'ap'):
        return (k, inst(t[1], delta, mode, check), inst(t[2], delta, mode, check))
    if k in ('ex', 'mu'):
        return (k, t[1], inst(t[2], delta, mode, check))
    p = inst(t[1], delta, mode, check)
    g = inst(t[3], delta, mode, check)
    if p is t[1] and g is t[3]:
        return t
    if p == t[1] and g == t[3]:
        return t
    if k == 'es':
        return subst_e(p, t[2], g, mode)
    return subst_s(p, t[2], g, mode)


def compose(d1, d2, mode='partial'):
    """Map d such that t.inst(d1).inst(d2) == t.inst(d) (textbook): d = {k: v.inst(d2) for d1} + d2 on the rest."""
    d = {k: inst(v, d2, mode) for k, v in d1.items()}
    for k, v in d2.items():
        if k not in d:
            d[k] = v
    return d


def resolve(t, mode='alpha'):
    """Carry out every deferred substitution whose base became non-meta (concrete results only)."""
    k = t[0]
    if k in ('ev', 'sv', 'sy', 'mv'):
        return t
    if k in ('im', 'ap'):
        return (k, resolve(t[1], mode), resolve(t[2], mode))
    if k in ('ex', 'mu'):
        return (k, t[1], resolve(t[2], mode))
    p = resolve(t[1], mode); g = resolve(t[3], mode)
    if k == 'es':
        return subst_e(p, t[2], g, mode)
    return subst_s(p, t[2], g, mode)


# --------------------------------------------------------- normal forms / equality
def norm_py(t, deep=False):
    """A10: the Python toolkit drops a substitution applied directly to a metavariable that declares
    the variable fresh.  Normalise that away so both spellings compare equal (also when the metavariable sits under further
    pending substitutions none of whose plugs re-introduces the variable)."""
    k = t[0]
    if k in ('ev', 'sv', 'sy', 'mv'):
        return t
    if k in ('im', 'ap'):
        return (k, norm_py(t[1], deep), norm_py(t[2], deep))
    if k in ('ex', 'mu'):
        return (k, t[1], norm_py(t[2], deep))
    p = norm_py(t[1], deep); g = norm_py(t[3], deep)
    if p[0] == 'mv':
        if k == 'es' and t[2] in p[2]:
            return p
        if k == 'ss' and t[2] in p[3]:
            return p
    elif deep and p[0] in ('es', 'ss'):
        # the same identification one level up: a substitution for a variable that the document's judgement calls fresh in the
        # whole pending chain below it (metavariable declares it fresh, no plug brings it back) is redundant; whether it is still
        # spelled out depends only on the order in which two instantiations were composed
        if k == 'es' and d_e_fresh(p, t[2]):
            return p
        if k == 'ss' and d_s_fresh(p, t[2]):
            return p
    return (k, p, t[2], g)


def norm_eq(t):
    """norm_py plus: redundant substitutions on a whole pending chain are dropped too.  For COMPARING results of instantiations only
    (never for building inputs: the toolkit's own judgements are conservative on the spelled-out form)."""
    return norm_py(t, deep=True)


def canon_constraints(t):
    """A5: constraint lists as sets (sorted, duplicate-free)."""
    k = t[0]
    if k in ('ev', 'sv', 'sy'):
        return t
    if k == 'mv':
        return ('mv', t[1]) + tuple(tuple(sorted(set(l))) for l in t[2:7])
    if k in ('im', 'ap'):
        return (k, canon_constraints(t[1]), canon_constraints(t[2]))
    if k in ('ex', 'mu'):
        return (k, t[1], canon_constraints(t[2]))
    return (k, canon_constraints(t[1]), t[2], canon_constraints(t[3]))


def rename_symbols(t, f):
    k = t[0]
    if k == 'sy':
        return ('sy', f(t[1]))
    if k in ('ev', 'sv', 'mv'):
        return t
    if k in ('im', 'ap'):
        return (k, rename_symbols(t[1], f), rename_symbols(t[2], f))
    if k in ('ex', 'mu'):
        return (k, t[1], rename_symbols(t[2], f))
    return (k, rename_symbols(t[1], f), t[2], rename_symbols(t[3], f))


def match_symbols(a, b, fwd, bwd) -> bool:
    """Structural equality of a and b up to a symbol bijection extended in place (fwd: a->b, bwd: b->a)."""
    if a[0] != b[0]:
        return False
    k = a[0]
    if k == 'sy':
        x, y = a[1], b[1]
        if x in fwd:
            return fwd[x] == y
        if y in bwd:
            return False
        fwd[x] = y; bwd[y] = x
        return True
    if k in ('ev', 'sv'):
        return a[1] == b[1]
    if k == 'mv':
        return a == b
    if k in ('im', 'ap'):
        return match_symbols(a[1], b[1], fwd, bwd) and match_symbols(a[2], b[2], fwd, bwd)
    if k in ('ex', 'mu'):
        return a[1] == b[1] and match_symbols(a[2], b[2], fwd, bwd)
    return a[2] == b[2] and match_symbols(a[1], b[1], fwd, bwd) and match_symbols(a[3], b[3], fwd, bwd)


# ------------------------------------------------------------- one-way matcher
def match1(pat, inst_, sigma=None):
    """Textbook one-way matching of a substitution-free pattern; returns dict or None."""
    sigma = {} if sigma is None else dict(sigma)
    def go(p, i):
        k = p[0]
        if k == 'mv':
            if p[1] in sigma:
                return sigma[p[1]] == i
            sigma[p[1]] = i
            return True
        if k != i[0]:
            return False
        if k in ('ev', 'sv', 'sy'):
            return p[1] == i[1]
        if k in ('im', 'ap'):
            return go(p[1], i[1]) and go(p[2], i[2])
        if k in ('ex', 'mu'):
            return p[1] == i[1] and go(p[2], i[2])
        raise Undefined('matching through a deferred substitution')
    return sigma if go(pat, inst_) else None


# --------------------------------------------------------------- printing (wire grammar)
def show(t) -> str:
    k = t[0]
    if k in ('ev', 'sv', 'sy'):
        return f'({k} {t[1]})'
    if k in ('im', 'ap'):
        return f'({k} {show(t[1])} {show(t[2])})'
    if k in ('ex', 'mu'):
        return f'({k} {t[1]} {show(t[2])})'
    if k == 'mv':
        ls = ' '.join('(' + ' '.join(str(i) for i in l) + ')' for l in t[2:7])
        return f'(mv {t[1]} {ls})'
    return f'({k} {show(t[1])} {t[2]} {show(t[3])})'


def parse(s: str):
    toks = s.replace('(', ' ( ').replace(')', ' ) ').split()
    pos = 0
    def rd():
        nonlocal pos
        assert toks[pos] == '(', toks[pos:pos+5]
        pos += 1
        k = toks[pos]; pos += 1
        if k in ('ev', 'sv'):
            r = (k, int(toks[pos])); pos += 1
        elif k == 'sy':
            v = toks[pos]; pos += 1
            r = (k, int(v) if v.lstrip('-').isdigit() else v)
        elif k in ('im', 'ap'):
            a = rd(); b = rd(); r = (k, a, b)
        elif k in ('ex', 'mu'):
            n = int(toks[pos]); pos += 1
            r = (k, n, rd())
        elif k == 'mv':
            n = int(toks[pos]); pos += 1
            ls = []
            for _ in range(5):
                assert toks[pos] == '('; pos += 1
                l = []
                while toks[pos] != ')':
                    l.append(int(toks[pos])); pos += 1
                pos += 1
                ls.append(tuple(l))
            r = ('mv', n, *ls)
        elif k in ('es', 'ss'):
            a = rd(); n = int(toks[pos]); pos += 1; b = rd(); r = (k, a, n, b)
        else:
            raise ValueError(k)
        assert toks[pos] == ')'
        pos += 1
        return r
    r = rd()
    assert pos == len(toks)
    return r


def pretty(t) -> str:
    k = t[0]
    if k == 'ev': return f'x{t[1]}'
    if k == 'sv': return f'X{t[1]}'
    if k == 'sy': return f's{t[1]}' if isinstance(t[1], int) else str(t[1])
    if k == 'im': return f'({pretty(t[1])} -> {pretty(t[2])})'
    if k == 'ap': return f'({pretty(t[1])} . {pretty(t[2])})'
    if k == 'ex': return f'(E x{t[1]}. {pretty(t[2])})'
    if k == 'mu': return f'(mu X{t[1]}. {pretty(t[2])})'
    if k == 'mv':
        c = ''.join(f';{n}={list(l)}' for n, l in zip(('ef', 'sf', 'pos', 'neg', 'holes'), t[2:7]) if l)
        return f'phi{t[1]}' + (f'{{{c[1:]}}}' if c else '')
    v = 'x' if k == 'es' else 'X'
    return f'{pretty(t[1])}[{pretty(t[3])}/{v}{t[2]}]'


# --------------------------------------------------- conversion from the repo's classes
def of_repo(p, mode='naive'):
    """Repo Pattern -> O1 term with notation fully expanded.

    `Instantiate(P, inst)` means: P with the metavariables in inst replaced simultaneously, pending
    substitutions on replaced metavariables carried out (mode: how capture is treated while doing so;
    'naive' mirrors a nameful implementation without a check, 'partial' raises Capture)."""
    cn = type(p).__name__
    if cn == 'EVar':
        return ('ev', p.name)
    if cn == 'SVar':
        return ('sv', p.name)
    if cn == 'Symbol':
        return ('sy', p.name)
    if cn == 'Implies':
        return ('im', of_repo(p.left, mode), of_repo(p.right, mode))
    if cn == 'App':
        return ('ap', of_repo(p.left, mode), of_repo(p.right, mode))
    if cn == 'Exists':
        return ('ex', p.var, of_repo(p.subpattern, mode))
    if cn == 'Mu':
        return ('mu', p.var, of_repo(p.subpattern, mode))
    if cn == 'MetaVar':
        return ('mv', p.name, tuple(v.name for v in p.e_fresh), tuple(v.name for v in p.s_fresh),
                tuple(v.name for v in p.positive), tuple(v.name for v in p.negative),
                tuple(v.name for v in p.app_ctx_holes))
    if cn == 'ESubst':
        return ('es', of_repo(p.pattern, mode), p.var.name, of_repo(p.plug, mode))
    if cn == 'SSubst':
        return ('ss', of_repo(p.pattern, mode), p.var.name, of_repo(p.plug, mode))
    if cn == 'Instantiate':
        base = of_repo(p.pattern, mode)
        d = {k: of_repo(v, mode) for k, v in p.inst.items()}
        return inst(base, d, mode)
    raise TypeError(cn)


def fresh_name(n):
    """an equal but NOT identical str object (names read from files or built at run time are not interned): comparing symbol names
    by identity instead of equality must not go unnoticed.  (One-character strings are singletons in CPython; longer ones are not.)"""
    return ''.join(list(n)) if isinstance(n, str) and len(n) > 1 else n


def to_repo(t, P):
    """O1 term -> notation-free repo pattern.  P: the repo's pattern module (passed in; not imported here)."""
    k = t[0]
    if k == 'ev': return P.EVar(t[1])
    if k == 'sv': return P.SVar(t[1])
    if k == 'sy': return P.Symbol(fresh_name(t[1]))
    if k == 'im': return P.Implies(to_repo(t[1], P), to_repo(t[2], P))
    if k == 'ap': return P.App(to_repo(t[1], P), to_repo(t[2], P))
    if k == 'ex': return P.Exists(t[1], to_repo(t[2], P))
    if k == 'mu': return P.Mu(t[1], to_repo(t[2], P))
    if k == 'mv':
        return P.MetaVar(t[1], tuple(P.EVar(i) for i in t[2]), tuple(P.SVar(i) for i in t[3]),
                         tuple(P.SVar(i) for i in t[4]), tuple(P.SVar(i) for i in t[5]),
                         tuple(P.EVar(i) for i in t[6]))
    if k == 'es': return P.ESubst(to_repo(t[1], P), P.EVar(t[2]), to_repo(t[3], P))
    if k == 'ss': return P.SSubst(to_repo(t[1], P), P.SVar(t[2]), to_repo(t[3], P))
    raise TypeError(k)


# ------------------------------------------------ definite (syntactic) capture, for nameful implementations
def syn_free_e(t, x) -> bool:
    """x occurs free as an actual EVar node, looking only through concrete constructors"""
    k = t[0]
    if k == 'ev':
        return t[1] == x
    if k in ('im', 'ap'):
        return syn_free_e(t[1], x) or syn_free_e(t[2], x)
    if k == 'ex':
        return t[1] != x and syn_free_e(t[2], x)
    if k == 'mu':
        return syn_free_e(t[2], x)
    return False


def syn_free_s(t, X) -> bool:
    k = t[0]
    if k == 'sv':
        return t[1] == X
    if k in ('im', 'ap'):
        return syn_free_s(t[1], X) or syn_free_s(t[2], X)
    if k == 'mu':
        return t[1] != X and syn_free_s(t[2], X)
    if k == 'ex':
        return syn_free_s(t[2], X)
    return False


def definite_capture(t, var, plug, kind):
    """'ex' / 'mu' if replacing the free occurrences of var in t by plug certainly moves a free
    variable of plug under a binder of that kind (no metavariable involved in the judgement), else None."""
    occ = syn_free_e if kind == 'e' else syn_free_s
    k = t[0]
    if k in ('im', 'ap'):
        return definite_capture(t[1], var, plug, kind) or definite_capture(t[2], var, plug, kind)
    if k == 'ex':
        if kind == 'e' and t[1] == var:
            return None
        if syn_free_e(plug, t[1]) and occ(t[2], var):
            return 'ex'
        return definite_capture(t[2], var, plug, kind)
    if k == 'mu':
        if kind == 's' and t[1] == var:
            return None
        if syn_free_s(plug, t[1]) and occ(t[2], var):
            return 'mu'
        return definite_capture(t[2], var, plug, kind)
    return None

"""O3 - finite-model semantics of matching logic for concrete O1 patterns.

Carrier {0..n-1}; subsets are bitmasks.  Model = (n, sym: name->mask, app: n x n table of masks).
"""
from __future__ import annotations

import itertools
import random

from . import tb


class IllFormed(Exception):
    pass


class Model:
    __slots__ = ('n', 'full', 'sym', 'app', 'default_sym')

    def __init__(self, n, sym, app, default_sym=0):
        self.n = n
        self.full = (1 << n) - 1
        self.sym = sym
        self.app = app
        self.default_sym = default_sym

    def describe(self):
        return {'n': self.n, 'sym': {str(k): v for k, v in self.sym.items()}, 'app': self.app}


def random_model(rng: random.Random, n: int, syms) -> Model:
    full = (1 << n) - 1
    sym = {s: rng.randint(0, full) for s in syms}
    app = [[rng.randint(0, full) for _ in range(n)] for _ in range(n)]
    return Model(n, sym, app)


def all_models(n: int, syms, with_app: bool):
    """every model of carrier n over syms (and every application table if with_app)."""
    full = (1 << n) - 1
    syms = list(syms)
    app_choices = itertools.product(range(full + 1), repeat=n * n) if with_app else [tuple([0] * (n * n))]
    for appv in app_choices:
        app = [list(appv[i * n:(i + 1) * n]) for i in range(n)]
        for vals in itertools.product(range(full + 1), repeat=len(syms)):
            yield Model(n, dict(zip(syms, vals)), app)


def evaluate(t, M: Model, re: dict, rs: dict) -> int:
    k = t[0]
    if k == 'ev':
        return 1 << re[t[1]]
    if k == 'sv':
        return rs[t[1]]
    if k == 'sy':
        return M.sym.get(t[1], M.default_sym)
    if k == 'im':
        return ((~evaluate(t[1], M, re, rs)) | evaluate(t[2], M, re, rs)) & M.full
    if k == 'ap':
        a = evaluate(t[1], M, re, rs)
        b = evaluate(t[2], M, re, rs)
        if a == 0 or b == 0:
            return 0
        r = 0
        for i in range(M.n):
            if a >> i & 1:
                row = M.app[i]
                for j in range(M.n):
                    if b >> j & 1:
                        r |= row[j]
        return r
    if k == 'ex':
        x = t[1]
        old = re.get(x)
        r = 0
        for i in range(M.n):
            re[x] = i
            r |= evaluate(t[2], M, re, rs)
        if old is None:
            del re[x]
        else:
            re[x] = old
        return r
    if k == 'mu':
        X = t[1]
        old = rs.get(X)
        cur = 0
        for _ in range((1 << M.n) + 2):
            rs[X] = cur
            nxt = evaluate(t[2], M, re, rs)
            if nxt == cur:
                break
            if nxt & cur != cur:
                # not monotone along the iteration: the body is not positive in X
                if old is None:
                    del rs[X]
                else:
                    rs[X] = old
                raise IllFormed('non-monotone mu body')
            cur = nxt
        else:
            if old is None:
                del rs[X]
            else:
                rs[X] = old
            raise IllFormed('mu iteration did not converge')
        if old is None:
            del rs[X]
        else:
            rs[X] = old
        return cur
    raise tb.Undefined(f'evaluate on meta-pattern {k}')


def valuations(M: Model, evs, svs, rng: random.Random | None = None, limit: int | None = None):
    evs = sorted(evs); svs = sorted(svs)
    total = (M.n ** len(evs)) * ((M.full + 1) ** len(svs))
    if limit is None or total <= limit:
        for ee in itertools.product(range(M.n), repeat=len(evs)):
            for sse in itertools.product(range(M.full + 1), repeat=len(svs)):
                yield dict(zip(evs, ee)), dict(zip(svs, sse))
    else:
        for _ in range(limit):
            yield ({x: rng.randrange(M.n) for x in evs}, {X: rng.randint(0, M.full) for X in svs})


def find_countermodel(t, models, rng=None, val_limit=None):
    """t concrete & well-formed.  Return (model, re, rs, value) with value != full, or None."""
    evs = tb.fv_e(t); svs = tb.fv_s(t)
    for M in models:
        for re, rs in valuations(M, evs, svs, rng, val_limit):
            v = evaluate(t, M, dict(re), dict(rs))
            if v != M.full:
                return (M, re, rs, v)
    return None

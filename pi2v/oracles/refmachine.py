"""O2 - the stack machine of docs/proof-language.md over O1 terms (see DESIGN.md Appendix B).

Decisions A1..A11 of DESIGN.md section 2 are implemented here and nowhere else.
"""
from __future__ import annotations

from . import tb

GAMMA, CLAIM, PROOF = 0, 1, 2
PHASE_NAMES = {GAMMA: 'gamma', CLAIM: 'claim', PROOF: 'proof'}

OP = {
    'EVar': 2, 'SVar': 3, 'Symbol': 4, 'Implies': 5, 'App': 6, 'Mu': 7, 'Exists': 8,
    'MetaVar': 9, 'ESubst': 10, 'SSubst': 11, 'Prop1': 12, 'Prop2': 13, 'Prop3': 14,
    'Quantifier': 15, 'PropagationOr': 16, 'PropagationExists': 17, 'PreFixpoint': 18,
    'Existence': 19, 'Singleton': 20, 'ModusPonens': 21, 'Generalization': 22, 'Frame': 23,
    'Substitution': 24, 'KnasterTarski': 25, 'Instantiate': 26, 'Pop': 27, 'Save': 28,
    'Load': 29, 'Publish': 30, 'CleanMetaVar': 137,
}
NAME = {v: k for k, v in OP.items()}
UNSUPPORTED = {16, 17, 18, 20, 23, 25}

_p0, _p1, _p2 = tb.mv(0), tb.mv(1), tb.mv(2)
PROP1 = tb.im(_p0, tb.im(_p1, _p0))
PROP2 = tb.im(tb.im(_p0, tb.im(_p1, _p2)), tb.im(tb.im(_p0, _p1), tb.im(_p0, _p2)))
PROP3 = tb.im(tb.neg(tb.neg(_p0)), _p0)
QUANTIFIER = tb.im(tb.es(_p0, 0, tb.ev(1)), tb.ex(0, _p0))
EXISTENCE = tb.ex(0, tb.ev(0))


class Reject(Exception):
    def __init__(self, cls, detail=''):
        super().__init__(f'{cls}: {detail}')
        self.cls = cls
        self.detail = detail


def PAT(t): return ('pat', t)
def PRF(t): return ('prf', t)


class Machine:
    """State persists across phases (A3).  constraint_mode 'seq' | 'set' (A5)."""

    def __init__(self, constraint_mode='seq', capture_mode='strict'):
        self.stack = []
        self.memory = []
        self.claims = []
        self.phase = GAMMA
        self.journal = {'axioms': [], 'claims': [], 'discharged': []}
        self.constraint_mode = constraint_mode
        self.capture_mode = capture_mode
        self.executed = []       # opcode names executed (for coverage counters)
        self.proved_pushed = []  # every term ever marked proved
        self.last_op = None

    # -- helpers
    def _eq(self, a, b):
        if self.constraint_mode == 'set':
            return tb.canon_constraints(a) == tb.canon_constraints(b)
        return a == b

    def _pop(self):
        if not self.stack:
            raise Reject('underflow')
        return self.stack.pop()

    def _pop_pat(self):
        t = self._pop()
        if t[0] != 'pat':
            raise Reject('type_confusion', 'expected pattern')
        return t[1]

    def _pop_prf(self):
        t = self._pop()
        if t[0] != 'prf':
            raise Reject('type_confusion', 'expected proved')
        return t[1]

    def _push_prf(self, t):
        self.stack.append(PRF(t))
        self.proved_pushed.append(t)

    def next_phase(self):
        self.stack = []
        self.phase += 1

    def finish(self):
        if self.claims:
            raise Reject('unproved_claims')

    # -- one instruction; buf[pos] is the opcode; returns new pos
    def step(self, buf, pos):
        def operand():
            nonlocal pos
            if pos >= len(buf):
                raise Reject('truncated')
            v = buf[pos]
            pos += 1
            return v

        op = buf[pos]
        self.last_op = op
        pos += 1
        if op not in NAME:
            raise Reject('unknown_opcode', str(op))
        name = NAME[op]
        st = self.stack
        if op == 2:
            st.append(PAT(tb.ev(operand())))
        elif op == 3:
            st.append(PAT(tb.sv(operand())))
        elif op == 4:
            st.append(PAT(tb.sy(operand())))
        elif op in (5, 6):
            r = self._pop_pat(); l = self._pop_pat()
            st.append(PAT(('im' if op == 5 else 'ap', l, r)))
        elif op == 7:
            X = operand()
            s = self._pop_pat()
            if not tb.d_positive(s, X):
                raise Reject('ill_formed', 'mu not positive')
            st.append(PAT(tb.mu(X, s)))
        elif op == 8:
            x = operand()
            s = self._pop_pat()
            st.append(PAT(tb.ex(x, s)))
        elif op == 9:
            i = operand()
            lists = []
            for _ in range(5):
                n = operand()
                lists.append(tuple(operand() for _ in range(n)))
            m = ('mv', i, *lists)
            if set(lists[4]) & set(lists[0]):
                raise Reject('ill_formed', 'holes not disjoint from e_fresh')
            st.append(PAT(m))
        elif op == 137:
            st.append(PAT(tb.mv(operand())))
        elif op in (10, 11):
            v = operand()
            phi = self._pop_pat(); psi = self._pop_pat()
            if phi[0] not in ('mv', 'es', 'ss'):
                raise Reject('ill_formed', 'substitution on a non-meta pattern')
            if op == 10:
                if psi == tb.ev(v) or tb.d_e_fresh(phi, v):
                    raise Reject('ill_formed', 'redundant esubst')
                st.append(PAT(tb.es(phi, v, psi)))
            else:
                if psi == tb.sv(v) or tb.d_s_fresh(phi, v):
                    raise Reject('ill_formed', 'redundant ssubst')
                st.append(PAT(tb.ss(phi, v, psi)))
        elif op == 12:
            self._push_prf(PROP1)
        elif op == 13:
            self._push_prf(PROP2)
        elif op == 14:
            self._push_prf(PROP3)
        elif op == 15:
            self._push_prf(QUANTIFIER)
        elif op == 19:
            self._push_prf(EXISTENCE)
        elif op in UNSUPPORTED:
            raise Reject('unsupported', name)
        elif op == 21:
            b = self._pop_prf(); a = self._pop_prf()
            if a[0] != 'im':
                raise Reject('rule', 'mp: not an implication')
            if not self._eq(a[1], b):
                raise Reject('rule', 'mp: antecedent mismatch')
            self._push_prf(a[2])
        elif op == 22:
            a = self._pop_prf()
            if a[0] != 'im':
                raise Reject('rule', 'gen: not an implication')
            x = operand()
            if not tb.d_e_fresh(a[2], x):
                raise Reject('side_condition', 'gen: variable not fresh in consequent')
            self._push_prf(tb.im(tb.ex(x, a[1]), a[2]))
        elif op == 24:
            X = operand()
            phi = self._pop_prf(); psi = self._pop_pat()
            try:
                self._push_prf(tb.subst_s(phi, X, psi, self.capture_mode))
            except tb.Capture as e:
                raise Reject('capture', str(e))
        elif op == 26:
            n = operand()
            t = self._pop()
            ids = [operand() for _ in range(n)]
            plugs = [self._pop_pat() for _ in range(n)]
            delta = {}
            for i, p in zip(ids, plugs):
                if i not in delta:
                    delta[i] = p
            try:
                r = tb.inst(t[1], delta, self.capture_mode, check='doc')
            except tb.ConstraintViolation as e:
                raise Reject('constraint', str(e))
            except tb.Capture as e:
                raise Reject('capture', str(e))
            if t[0] == 'prf':
                self._push_prf(r)
            else:
                st.append(PAT(r))
        elif op == 27:
            self._pop()
        elif op == 28:
            if not st:
                raise Reject('underflow')
            self.memory.append(st[-1])
        elif op == 29:
            i = operand()
            if i >= len(self.memory):
                raise Reject('bad_index')
            t = self.memory[i]
            st.append(t)
            if t[0] == 'prf':
                self.proved_pushed.append(t[1])
        elif op == 30:
            if self.phase == GAMMA:
                a = self._pop_pat()
                self.memory.append(PRF(a))
                self.journal['axioms'].append(a)
            elif self.phase == CLAIM:
                c = self._pop_pat()
                self.claims.append(c)
                self.journal['claims'].append(c)
            else:
                if not self.claims:
                    raise Reject('claim_mismatch', 'no claims left')
                c = self.claims.pop()
                t = self._pop_prf()
                if not self._eq(c, t):
                    raise Reject('claim_mismatch', 'theorem differs from claim')
                self.journal['discharged'].append(c)
        else:
            raise Reject('unknown_opcode', str(op))
        self.executed.append(name)
        return pos

    def run_phase(self, buf):
        pos = 0
        n = len(buf)
        while pos < n:
            pos = self.step(buf, pos)

    def state_strings(self):
        def sh(t): return f'({t[0]} {tb.show(t[1])})'
        return ('[' + ' '.join(sh(t) for t in self.stack) + ']',
                '[' + ' '.join(sh(t) for t in self.memory) + ']',
                '[' + ' '.join(tb.show(c) for c in self.claims) + ']')


def run_triple(gamma: bytes, claim: bytes, proof: bytes, constraint_mode='seq', capture_mode='strict'):
    """Returns ('ACCEPT', machine) or ('REJECT', cls, detail, phase, machine)."""
    m = Machine(constraint_mode, capture_mode)
    try:
        m.run_phase(gamma)
        m.next_phase()
        m.run_phase(claim)
        m.next_phase()
        m.run_phase(proof)
        m.finish()
    except Reject as r:
        return ('REJECT', r.cls, r.detail, m.phase, m)
    except RecursionError:
        return ('REJECT', 'resource', 'recursion', m.phase, m)
    return ('ACCEPT', m)


def decode(buf: bytes):
    """Instruction list [(name, operands...)] of a byte string; raises Reject on malformed input."""
    out = []
    pos = 0
    def operand():
        nonlocal pos
        if pos >= len(buf):
            raise Reject('truncated')
        v = buf[pos]; pos += 1
        return v
    while pos < len(buf):
        op = buf[pos]; pos += 1
        if op not in NAME:
            raise Reject('unknown_opcode', str(op))
        name = NAME[op]
        if op in (2, 3, 4, 7, 8, 10, 11, 22, 24, 29, 137):
            out.append((name, operand()))
        elif op == 9:
            i = operand()
            lists = []
            for _ in range(5):
                n = operand()
                lists.append(tuple(operand() for _ in range(n)))
            out.append((name, i, *lists))
        elif op == 26:
            n = operand()
            out.append((name, tuple(operand() for _ in range(n))))
        else:
            out.append((name,))
    return out

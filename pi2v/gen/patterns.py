"""G1 - seeded random and bounded-exhaustive generators of O1 terms."""
from __future__ import annotations

import itertools
import random

from ..oracles import tb

EV = (0, 1, 2)
SV = (0, 1, 2)
SY = (0, 1)
MV = (0, 1, 2, 3)


def rand_concrete(rng: random.Random, depth: int, evs=EV, svs=SV, syms=SY, binders=True, wf=True):
    """random concrete pattern; with wf=True every mu is positive (rejection on the body)."""
    def go(d):
        if d <= 0 or rng.random() < 0.25:
            r = rng.random()
            if r < 0.4:
                return tb.ev(rng.choice(evs))
            if r < 0.7:
                return tb.sv(rng.choice(svs))
            return tb.sy(rng.choice(syms))
        r = rng.random()
        if r < 0.35:
            return tb.im(go(d - 1), go(d - 1))
        if r < 0.6:
            return tb.ap(go(d - 1), go(d - 1))
        if not binders:
            return tb.im(go(d - 1), go(d - 1))
        if r < 0.82:
            return tb.ex(rng.choice(evs), go(d - 1))
        X = rng.choice(svs)
        for _ in range(6):
            b = go(d - 1)
            if not wf or tb.positive_conc(b, X):
                return tb.mu(X, b)
        return tb.mu(X, tb.sv(X))
    return go(depth)


def rand_constraints(rng, evs=EV, svs=SV, p=0.35):
    """canonical (sorted, duplicate-free) constraint lists; holes left empty (A11)."""
    def sub(u):
        return tuple(sorted(v for v in u if rng.random() < p))
    return sub(evs), sub(svs), sub(svs), sub(svs), ()


def rand_mv(rng, mvs=MV, evs=EV, svs=SV, constrained=0.5):
    i = rng.choice(mvs)
    if rng.random() < constrained:
        return tb.mv(i, *rand_constraints(rng, evs, svs))
    return tb.mv(i)


def rand_meta(rng: random.Random, depth: int, evs=EV, svs=SV, syms=SY, mvs=MV, constrained=0.5,
              substs=True, wf=True, consistent=True):
    """random meta-pattern.  consistent: every occurrence of one metavariable id carries the same
    constraint lists (as the toolkit's patterns do).  wf: mu positive by the document's judgement and
    deferred substitutions well-formed (non-redundant, on meta base)."""
    table = {}

    def mvar():
        m = rand_mv(rng, mvs, evs, svs, constrained)
        if consistent:
            return table.setdefault(m[1], m)
        return m

    def go(d):
        if d <= 0 or rng.random() < 0.22:
            r = rng.random()
            if r < 0.25:
                return tb.ev(rng.choice(evs))
            if r < 0.45:
                return tb.sv(rng.choice(svs))
            if r < 0.6:
                return tb.sy(rng.choice(syms))
            return mvar()
        r = rng.random()
        if r < 0.3:
            return tb.im(go(d - 1), go(d - 1))
        if r < 0.5:
            return tb.ap(go(d - 1), go(d - 1))
        if r < 0.65:
            return tb.ex(rng.choice(evs), go(d - 1))
        if r < 0.78:
            X = rng.choice(svs)
            for _ in range(6):
                b = go(d - 1)
                if not wf or tb.d_positive(b, X):
                    return tb.mu(X, b)
            return tb.mu(X, tb.sv(X))
        if not substs:
            return tb.im(go(d - 1), go(d - 1))
        # deferred substitution on a meta base
        base = mvar()
        for _ in range(rng.choice((1, 1, 2))):
            plug = go(max(0, d - 2))
            if rng.random() < 0.5:
                x = rng.choice(evs)
                if wf and (plug == tb.ev(x) or tb.d_e_fresh(base, x)):
                    continue
                base = tb.es(base, x, plug)
            else:
                X = rng.choice(svs)
                if wf and (plug == tb.sv(X) or tb.d_s_fresh(base, X)):
                    continue
                base = tb.ss(base, X, plug)
        return base
    return go(depth)


def enum_concrete(maxnodes: int, evs=(0, 1), svs=(0, 1), syms=(0,), binders=True, wf=True):
    """all concrete patterns with at most maxnodes nodes (memoised by size)."""
    by = {1: [tb.ev(i) for i in evs] + [tb.sv(i) for i in svs] + [tb.sy(s) for s in syms]}
    for n in range(2, maxnodes + 1):
        cur = []
        if binders:
            for b in by[n - 1]:
                for x in evs:
                    cur.append(tb.ex(x, b))
                for X in svs:
                    if not wf or tb.positive_conc(b, X):
                        cur.append(tb.mu(X, b))
        for k in range(1, n - 1):
            for a in by[k]:
                for b in by[n - 1 - k]:
                    cur.append(tb.im(a, b))
                    cur.append(tb.ap(a, b))
        by[n] = cur
    out = []
    for n in range(1, maxnodes + 1):
        out.extend(by[n])
    return out


def enum_meta(maxnodes: int, evs=(0, 1), svs=(0,), syms=(0,), mvars=None, binders=True, substs=True, wf=True):
    """all meta-patterns with at most maxnodes nodes over the given leaf metavariable nodes."""
    if mvars is None:
        mvars = [tb.mv(0), tb.mv(1, (0,), (), (), (), ())]
    leaves = [tb.ev(i) for i in evs] + [tb.sv(i) for i in svs] + [tb.sy(s) for s in syms] + list(mvars)
    by = {1: leaves}
    for n in range(2, maxnodes + 1):
        cur = []
        if binders:
            for b in by[n - 1]:
                for x in evs:
                    cur.append(tb.ex(x, b))
                for X in svs:
                    if not wf or tb.d_positive(b, X):
                        cur.append(tb.mu(X, b))
        for k in range(1, n - 1):
            for a in by[k]:
                for b in by[n - 1 - k]:
                    cur.append(tb.im(a, b))
                    cur.append(tb.ap(a, b))
                    if substs and a[0] in ('mv', 'es', 'ss'):
                        for x in evs:
                            if not wf or not (b == tb.ev(x) or tb.d_e_fresh(a, x)):
                                cur.append(tb.es(a, x, b))
                        for X in svs:
                            if not wf or not (b == tb.sv(X) or tb.d_s_fresh(a, X)):
                                cur.append(tb.ss(a, X, b))
        by[n] = cur
    out = []
    for n in range(1, maxnodes + 1):
        out.extend(by[n])
    return out


def admissible_plug(rng, m, pool, tries=40):
    """a concrete pattern from pool that respects metavariable node m's constraints (O1 concrete check)."""
    for _ in range(tries):
        p = rng.choice(pool)
        if tb.check_constraints_conc(m, p):
            return p
    return None


def admissible_instance(rng, t, pool, bias_vars=True):
    """theta: metavariable id -> concrete plug respecting the constraints of *every* node with that id.
    Returns None if none was found."""
    theta = {}
    for i, nodes in tb.metavars(t).items():
        for _ in range(60):
            p = rng.choice(pool)
            if all(tb.check_constraints_conc(m, p) for m in nodes):
                theta[i] = p
                break
        else:
            return None
    return theta


def concrete_pool(rng, n=400, depth=3, evs=EV, svs=SV, syms=SY):
    pool = [tb.ev(i) for i in evs] + [tb.sv(i) for i in svs] + [tb.sy(s) for s in syms]
    pool += [tb.BOT, tb.TOP, tb.ex(0, tb.ev(0)), tb.ex(1, tb.ev(0)), tb.im(tb.ev(0), tb.ev(1)),
             tb.mu(0, tb.ap(tb.sy(0), tb.sv(0))), tb.neg(tb.sv(0)), tb.neg(tb.sv(1)), tb.neg(tb.ev(0)),
             tb.ap(tb.sy(0), tb.ev(0)), tb.ap(tb.sy(0), tb.ev(1)), tb.ex(0, tb.ap(tb.ev(0), tb.ev(1)))]
    seen = set(pool)
    while len(pool) < n:
        p = rand_concrete(rng, rng.randint(1, depth), evs, svs, syms)
        if p not in seen:
            seen.add(p)
            pool.append(p)
    return pool

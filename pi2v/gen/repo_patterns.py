"""G1 (repo side): repo Pattern objects with nested notation, each paired with its O1 expansion.

The expansion is never computed by the repo's code: a notation application N(a1..an) expands to
tb.inst(E(N.definition), {i: E(ai)}), with E = tb.of_repo.
"""
from __future__ import annotations

import random

from .. import repo
from ..oracles import tb
from . import patterns as gp


class NotationTable:
    def __init__(self, which='all'):
        alln = repo.all_notations() if which == 'all' else repo.notations()
        self.items = []   # (key, Notation, family, expanded definition, substitution_free)
        for key, (n, fam) in alln.items():
            e = tb.of_repo(n.definition)
            self.items.append((key, n, fam, e, '(es ' not in tb.show(e) and '(ss ' not in tb.show(e)))
        self.by_key = {k: (n, fam, e) for k, n, fam, e, _ in self.items}


_TABLE = None


def table() -> NotationTable:
    global _TABLE
    if _TABLE is None:
        _TABLE = NotationTable()
    return _TABLE


SYMS = ('a', 'b', 'fn', 'g', 'inhabitant', '⌈_⌉', 'kore_next')


def rand_term(rng: random.Random, depth: int, meta=True, notation=0.35, substs=True, evs=(0, 1, 2), svs=(0, 1, 2),
              syms=SYMS[:4], mvs=(0, 1, 2, 3), constrained=0.3, mvtable=None):
    """O1 term that contains notation expansions (so that fold() finds something to fold)."""
    T = table()
    mvtable = {} if mvtable is None else mvtable

    def mvar():
        m = gp.rand_mv(rng, mvs, evs, svs, constrained)
        return mvtable.setdefault(m[1], m)

    def go(d):
        if d <= 0 or rng.random() < 0.2:
            r = rng.random()
            if r < 0.25:
                return tb.ev(rng.choice(evs))
            if r < 0.4:
                return tb.sv(rng.choice(svs))
            if r < 0.6 or not meta:
                return tb.sy(rng.choice(syms))
            return mvar()
        r = rng.random()
        if r < notation:
            key, n, fam, e, sf = rng.choice(T.items)
            args = {i: go(d - 1) for i in range(n.arity)}
            return tb.inst(e, args, 'naive')
        r = rng.random()
        if r < 0.35:
            return tb.im(go(d - 1), go(d - 1))
        if r < 0.6:
            return tb.ap(go(d - 1), go(d - 1))
        if r < 0.75:
            return tb.ex(rng.choice(evs), go(d - 1))
        if r < 0.85:
            return tb.mu(rng.choice(svs), go(d - 1))
        if meta and substs:
            base = mvar()
            plug = go(max(0, d - 2))
            if rng.random() < 0.5:
                x = rng.choice(evs)
                if x in base[2]:
                    return base
                return tb.es(base, x, plug)
            X = rng.choice(svs)
            if X in base[3]:
                return base
            return tb.ss(base, X, plug)
        return tb.im(go(d - 1), go(d - 1))
    return go(depth)


UNSORTED_KEYS = 0.12
IDENTITY_WRAP = 0.0       # share of nodes (leaves included) spelled through an identity-like notation; checks opt in (rp.IDENTITY_WRAP = 0.03 in their shard)


def fold(e, rng: random.Random, p=0.7, max_layers=4, _layer=0, stats=None):
    """A repo pattern whose expansion is exactly e, spelled with (randomly chosen) notation where the
    expansion of a notation definition matches structurally."""
    P = repo.P()
    T = table()
    if p > 0 and _layer < max_layers and e[0] not in ('es', 'ss') and rng.random() < IDENTITY_WRAP:
        # an identity-like notation (its definition is a bare, unconstrained metavariable) applied to e: the application expands to e,
        # whatever e is - a metavariable, a variable, a symbol or a compound pattern
        ident = [n for key, n, fam, de, sf in T.items if de == tb.mv(0) and n.arity == 1]
        if ident:
            if stats is not None:
                stats['identity_wrap'] = stats.get('identity_wrap', 0) + 1
            return rng.choice(ident)(fold(e, rng, p, max_layers, _layer + 1, stats))
    if _layer < max_layers and rng.random() < p and e[0] not in ('ev', 'sv', 'sy', 'mv', 'es', 'ss'):
        items = T.items[:]
        rng.shuffle(items)
        for key, n, fam, de, sf in items:
            if not sf or de[0] != e[0]:
                continue
            try:
                sigma = tb.match1(de, e)
            except tb.Undefined:
                continue
            if sigma is None:
                continue
            # only admissible applications: the arguments respect the constraints of the definition's metavariables
            # (functional(x0) would instantiate a metavariable that declares x0 fresh with x0)
            if any(tb.check_constraints_doc(m, sigma[i]) for i, nodes in tb.metavars(de).items() if i in sigma for m in nodes):
                continue
            # the match must rebuild e exactly (it does for substitution-free definitions)
            args = []
            for i in range(n.arity):
                if i in sigma:
                    args.append(fold(sigma[i], rng, p, max_layers, _layer + 1, stats))
                else:
                    # position the definition does not depend on: anything goes
                    args.append(fold(gp.rand_concrete(rng, 1, syms=('a', 'b')), rng, 0.0))
            if stats is not None:
                stats[fam] = stats.get(fam, 0) + 1
                stats['depth'] = max(stats.get('depth', 0), _layer + 1)
            if n.arity >= 2 and rng.random() < UNSORTED_KEYS:
                # the same application with its map keyed in another insertion order (what Instantiate.instantiate leaves behind
                # when it completes a node that had parameters open)
                from frozendict import frozendict
                order = list(range(n.arity))
                rng.shuffle(order)
                return P.Instantiate(n.definition, frozendict({i: args[i] for i in order}))
            return n(*args)
    k = e[0]
    if k == 'ev':
        return P.EVar(e[1])
    if k == 'sv':
        return P.SVar(e[1])
    if k == 'sy':
        return P.Symbol(tb.fresh_name(e[1]))
    if k == 'mv':
        return tb.to_repo(e, P)
    if k == 'im':
        return P.Implies(fold(e[1], rng, p, max_layers, _layer, stats), fold(e[2], rng, p, max_layers, _layer, stats))
    if k == 'ap':
        return P.App(fold(e[1], rng, p, max_layers, _layer, stats), fold(e[2], rng, p, max_layers, _layer, stats))
    if k == 'ex':
        return P.Exists(e[1], fold(e[2], rng, p, max_layers, _layer, stats))
    if k == 'mu':
        return P.Mu(e[1], fold(e[2], rng, p, max_layers, _layer, stats))
    if k == 'es':
        return P.ESubst(fold_meta_base(e[1], rng, p), P.EVar(e[2]), fold(e[3], rng, p, max_layers, _layer, stats))
    if k == 'ss':
        return P.SSubst(fold_meta_base(e[1], rng, p), P.SVar(e[2]), fold(e[3], rng, p, max_layers, _layer, stats))
    raise TypeError(k)


def fold_meta_base(e, rng, p):
    """base of a deferred substitution: MetaVar | ESubst | SSubst, plugs may still be folded"""
    P = repo.P()
    if e[0] == 'mv':
        return tb.to_repo(e, P)
    if e[0] == 'es':
        return P.ESubst(fold_meta_base(e[1], rng, p), P.EVar(e[2]), fold(e[3], rng, p))
    if e[0] == 'ss':
        return P.SSubst(fold_meta_base(e[1], rng, p), P.SVar(e[2]), fold(e[3], rng, p))
    raise TypeError(e[0])


def notation_depth(rp) -> int:
    cn = type(rp).__name__
    if cn == 'Instantiate':
        return 1 + max([notation_depth(rp.pattern)] + [notation_depth(v) for v in rp.inst.values()] + [0])
    if cn in ('Implies', 'App'):
        return max(notation_depth(rp.left), notation_depth(rp.right))
    if cn in ('Exists', 'Mu'):
        return notation_depth(rp.subpattern)
    if cn in ('ESubst', 'SSubst'):
        return max(notation_depth(rp.pattern), notation_depth(rp.plug))
    return 0


def arg_layers(rp) -> int:
    """nesting depth of notation applications through arguments only (what a reader sees)"""
    cn = type(rp).__name__
    if cn == 'Instantiate':
        return 1 + max([arg_layers(v) for v in rp.inst.values()] + [0])
    if cn in ('Implies', 'App'):
        return max(arg_layers(rp.left), arg_layers(rp.right))
    if cn in ('Exists', 'Mu'):
        return arg_layers(rp.subpattern)
    if cn in ('ESubst', 'SSubst'):
        return max(arg_layers(rp.pattern), arg_layers(rp.plug))
    return 0


def perturb(e, rng: random.Random):
    """near miss: change one leaf"""
    k = e[0]
    if k == 'ev':
        return tb.ev((e[1] + 1) % 3)
    if k == 'sv':
        return tb.sv((e[1] + 1) % 3)
    if k == 'sy':
        return tb.sy('b' if e[1] != 'b' else 'a')
    if k == 'mv':
        return tb.mv((e[1] + 1) % 4, *e[2:7])
    if k in ('im', 'ap'):
        if rng.random() < 0.5:
            return (k, perturb(e[1], rng), e[2])
        return (k, e[1], perturb(e[2], rng))
    if k in ('ex', 'mu'):
        if rng.random() < 0.3:
            return (k, (e[1] + 1) % 3, e[2])
        return (k, e[1], perturb(e[2], rng))
    if rng.random() < 0.5:
        return (k, e[1], e[2], perturb(e[3], rng))
    return (k, e[1], (e[2] + 1) % 3, e[3])

"""G5 - sequences of raw Interpreter calls accepted by the stateful interpreter, chosen by looking at its stack."""
from __future__ import annotations

import io
import random

from .. import repo
from ..oracles import tb
from . import patterns as gp
from . import repo_patterns as rp


class Recorder:
    """journal of (method, printable args) performed through drive()"""

    def __init__(self):
        self.journal = []


def new_serializer(claims, phase=None):
    I = repo.mod('interpreter')
    S = repo.mod('serializing_interpreter')
    Claim = repo.mod('claim').Claim
    sinks = [KeepBytesIO(), KeepBytesIO(), KeepBytesIO()]
    it = S.SerializingInterpreter(phase=phase or I.ExecutionPhase.Gamma, out=sinks[0], claims=[Claim(c) for c in claims],
                                  claim_out=sinks[1], proof_out=sinks[2])
    return it, sinks


class KeepBytesIO(io.BytesIO):
    """BytesIO whose content survives close() (IOInterpreter closes its sinks between phases)"""

    def close(self):
        self.final = self.getvalue()
        super().close()

    def value(self):
        return self.final if self.closed else self.getvalue()


class Driver:
    """Performs random valid call sequences on `it` (any Interpreter whose innermost tracker is `tracker`)."""

    def __init__(self, rng: random.Random, it, tracker, journal=None, hostile=0.05):
        self.rng = rng
        self.it = it
        self.tr = tracker
        self.P = repo.P()
        self.Proved = repo.mod('proved').Proved
        self.journal = journal if journal is not None else []
        self.hostile = hostile       # rate of calls the machine cannot apply (non-positive mu, redundant subst, ...)
        self.counts = {}
        self.is_residue = None   # optional predicate: index of tracker stack -> bool

    def c(self, k):
        self.counts[k] = self.counts.get(k, 0) + 1

    def call(self, name, *args):
        self.journal.append((name, args))
        self.c('call:' + name)
        return getattr(self.it, name)(*args)

    # ------------------------------------------------------------ pattern construction by raw calls
    def leaf(self):
        rng = self.rng
        r = rng.random()
        if r < 0.25:
            return self.call('evar', rng.choice((0, 1, 2)))
        if r < 0.45:
            return self.call('svar', rng.choice((0, 1, 2)))
        if r < 0.65:
            return self.call('symbol', rng.choice(('a', 'b', 'c', 'f')))
        if r < 0.85:
            return self.call('metavar', rng.choice((0, 1, 2)))
        ef, sf, pos, neg, holes = gp.rand_constraints(rng)
        P = self.P
        r2 = rng.random()
        if r2 < 0.15:
            ef, sf, pos, neg = (), (), (), ()          # application-context holes as the only constraint
            holes = tuple(sorted(rng.sample((0, 1, 2, 3), rng.randint(1, 2))))
        elif r2 < 0.3:
            holes = tuple(v for v in (3, 4) if rng.random() < 0.6 and v not in ef)
        return self.call('metavar', rng.choice((0, 1, 2)), tuple(P.EVar(i) for i in ef), tuple(P.SVar(i) for i in sf),
                         tuple(P.SVar(i) for i in pos), tuple(P.SVar(i) for i in neg), tuple(P.EVar(i) for i in holes))

    def build(self, depth):
        """push one random pattern using raw calls only; returns it"""
        rng = self.rng
        if depth <= 0 or rng.random() < 0.25:
            return self.leaf()
        r = rng.random()
        if r < 0.3:
            l = self.build(depth - 1); rr = self.build(depth - 1)
            return self.call('implies', l, rr)
        if r < 0.5:
            l = self.build(depth - 1); rr = self.build(depth - 1)
            return self.call('app', l, rr)
        if r < 0.62:
            s = self.build(depth - 1)
            return self.call('exists', rng.choice((0, 1, 2)), s)
        if r < 0.72:
            s = self.build(depth - 1)
            X = rng.choice((0, 1, 2))
            if not tb.d_positive(tb.of_repo(s), X) and rng.random() > self.hostile:
                cands = [Y for Y in (0, 1, 2, 3) if tb.d_positive(tb.of_repo(s), Y)]
                if not cands:
                    return s
                X = rng.choice(cands)
            return self.call('mu', X, s)
        if r < 0.86:
            # deferred substitution: plug below, meta pattern on top
            plug = self.build(max(0, depth - 2))
            base = self.call('metavar', rng.choice((0, 1, 2)))
            kind = rng.choice('es')
            var = rng.choice((0, 1, 2))
            pe, ge = tb.of_repo(base), tb.of_repo(plug)
            red = (ge == tb.ev(var)) if kind == 'e' else (ge == tb.sv(var))
            if red and rng.random() > self.hostile:
                var = (var + 1) % 3
            return self.call('esubst' if kind == 'e' else 'ssubst', var, base, plug)
        # notation application through instantiate_pattern: plugs first, then the definition
        T = rp.table()
        key, N_, fam, de, sf_ = rng.choice(T.items)
        if N_.arity == 0:
            d = self.it.pattern(N_.definition)
            self.journal.append(('pattern', (N_.definition,)))
            return self.call('instantiate_pattern', d, {})
        keys = list(range(N_.arity))
        if rng.random() < 0.3:
            rng.shuffle(keys)          # the map's key order is arbitrary (partial nodes instantiated again come out unsorted)
            if keys != sorted(keys):
                self.c('instantiate_pattern_unsorted_keys')
        args = [self.build(max(0, depth - 2)) for _ in keys]     # plugs are pushed in the map's key order
        d = self.it.pattern(N_.definition)
        self.journal.append(('pattern', (N_.definition,)))
        return self.call('instantiate_pattern', d, dict(zip(keys, args)))

    # ------------------------------------------------------------ proofs by raw calls
    def inst_axiom(self, which=None):
        """plugs, axiom schema, instantiate with the keys in a random order"""
        rng = self.rng
        which = which or rng.choice(('prop1', 'prop2', 'prop3', 'exists_quantifier'))
        ids = {'prop1': [0, 1], 'prop2': [0, 1, 2], 'prop3': [0], 'exists_quantifier': [0]}[which]
        ids = [i for i in ids if rng.random() < 0.8] or ids[:1]
        if rng.random() < 0.12:
            ids.append(rng.choice((3, 4, 7)))      # a metavariable that does not occur in the schema: its plug is consumed all the same
            self.c('instantiate_key_absent_from_premise')
        rng.shuffle(ids)
        if len(ids) >= 2 and ids != sorted(ids):
            self.c('instantiate_unsorted_keys')
        plugs = []
        for i in ids:
            for _ in range(8):
                n0 = len(self.tr.stack)
                p = self.build(rng.randint(0, 2))
                if which == 'exists_quantifier' and not self._quantifier_plug_ok(p):
                    self.call('pop', p)
                    continue
                break
            else:
                p = self.call('symbol', 'a')
            plugs.append(p)
        ax = self.call(which)
        delta = dict(zip(ids, plugs))
        if rng.random() < self.hostile * 0.5 and len(self.tr.stack) == len(plugs) + 1:
            # hostile: one more id than plugs were constructed (the map names a pattern that was never pushed); the tracker has to
            # refuse - the machine would run out of stack
            delta[rng.choice((5, 6))] = self.P.Symbol('never_pushed')
            self.c('hostile:instantiate_with_missing_plug')
        return self.call('instantiate', ax, delta)

    def _quantifier_plug_ok(self, p):
        # phi0[x1/x0] must be resolvable without capture and without tripping over a binder of x1
        try:
            tb.subst_e(tb.of_repo(p), 0, tb.ev(1), 'strict')
            return True
        except tb.Undefined:
            return False

    def imp_refl(self):
        """p -> p by prop2/prop1/MP, entirely through raw calls"""
        p0 = self.build(1)
        pe = tb.of_repo(p0)
        P = self.P

        def push(e):
            return self.it.pattern(tb.to_repo(e, P))
        q = tb.sy('b')
        qp = tb.im(q, pe)
        a = push(pe); b = push(qp); c_ = push(pe)
        self.journal.append(('pattern*3', ()))
        pr2 = self.call('prop2')
        s2 = self.call('instantiate', pr2, {2: a, 1: b, 0: c_})
        b2 = push(qp); a2 = push(pe)
        pr1 = self.call('prop1')
        s1 = self.call('instantiate', pr1, {1: b2, 0: a2})
        m1 = self.call('modus_ponens', s2, s1)
        b3 = push(q); a3 = push(pe)
        pr1b = self.call('prop1')
        s1b = self.call('instantiate', pr1b, {1: b3, 0: a3})
        self.c('imp_refl')
        return self.call('modus_ponens', m1, s1b)

    def pending_then_binder(self):
        """a schema instantiated with a pending substitution phi_k[plug/v]; then phi_k instantiated with an exists-pattern. When the
        binder is a variable free in the plug the machine refuses to push the plug under it whether or not v occurs below (its capture
        check comes first), so the tracker has to refuse as well; with any other binder both accept and agree on the result"""
        rng = self.rng
        P = self.P
        k = rng.choice((1, 2)); x = rng.choice((0, 1, 2)); kind = rng.choice('es'); v = rng.choice((0, 1))
        if kind == 'e' and v == x:
            v = (x + 1) % 3
        plug_e = rng.choice((tb.ev(x), tb.ap(tb.sy('a'), tb.ev(x))))
        pend_e = (tb.es if kind == 'e' else tb.ss)(tb.mv(k), v, plug_e)
        binder = rng.choice((x, x, (x + 1) % 3))
        var_e = tb.ev(v) if kind == 'e' else tb.sv(v)
        body = rng.choice((var_e, tb.ap(tb.sy('b'), var_e), tb.sy('b'), tb.ev(binder), tb.ap(tb.sy('b'), tb.ev(binder))))
        q_e = tb.ex(binder, body)
        q = self.it.pattern(tb.to_repo(q_e, P))          # (plugs go below the proved term they are plugged into)
        self.journal.append(('pattern', (q,)))
        pend = self.it.pattern(tb.to_repo(pend_e, P))
        self.journal.append(('pattern', (pend,)))
        t1 = self.call('instantiate', self.call('prop1'), {0: pend})
        self.c('pending_then_binder')
        if binder == x and not (kind == 'e' and binder == v):
            self.c('pending_then_binder:binder_free_in_plug')
            if var_e not in (body, body[2] if body[0] == 'ap' else None):
                self.c('pending_then_binder:nothing_to_substitute_below')
        return self.call('instantiate', t1, {k: q})

    def twins(self):
        """two nodes over the SAME notation definition whose maps are keyed differently (same values under other keys, or a partial
        map), both saved; then the later one is loaded: the Load must address the slot that holds it"""
        rng = self.rng
        T = rp.table()
        cands = [it_ for it_ in T.items if it_[1].arity == 2 and it_[1].definition.metavars() == {0, 1}]
        if not cands:
            return
        N_ = rng.choice(cands)[1]
        a0 = self.build(rng.randint(0, 1)); self.call('pop', a0)
        b0 = self.build(rng.randint(0, 1)); self.call('pop', b0)
        if tb.of_repo(a0) == tb.of_repo(b0):
            return
        full = {0: a0, 1: b0}
        other = rng.choice(({1: a0, 0: b0}, {0: a0}, {1: b0}, {1: a0}, {1: b0, 0: a0}))
        first, second = (other, full) if rng.random() < 0.6 else (full, other)
        nodes = []
        for m in (first, second):
            for v in m.values():
                self.it.pattern(v)
                self.journal.append(('pattern', (v,)))
            d = self.it.pattern(N_.definition)
            self.journal.append(('pattern', (N_.definition,)))
            node = self.call('instantiate_pattern', d, dict(m))
            self.call('save', str(len(self.tr.memory)), node)
            self.call('pop', node)
            nodes.append(node)
        self.c('twin_notation_nodes')
        for node in (nodes[1], nodes[0]):
            self.call('load', 'twin', node)
            self.call('pop', node)

    def junk(self):
        """stack/memory traffic: build, save, load, pop"""
        rng = self.rng
        r = rng.random()
        if rng.random() < 0.06:
            return self.twins()
        if rng.random() < 0.05:
            # x, y, x on the stack (equal entries with another one in between), then everything popped from the top
            x = self.build(rng.randint(0, 1))
            y = self.build(rng.randint(0, 1))
            if tb.of_repo(x) != tb.of_repo(y):
                x2 = self.it.pattern(x)
                self.journal.append(('pattern', (x,)))
                self.c('equal_entries_sandwich')
                self.call('pop', x2)
            self.call('pop', y)
            self.call('pop', x)
            return
        if r < 0.4:
            p = self.build(rng.randint(0, 2))
            if rng.random() < 0.5:
                self.call('save', str(len(self.tr.memory)), p)
            self.call('pop', p)
        elif r < 0.7 and self.tr.memory:
            t = rng.choice(self.tr.memory)
            self.call('load', 'm', t)
            self.call('pop', t)
        elif self.tr.stack and not (self.is_residue and self.is_residue(len(self.tr.stack) - 1)):
            # (never act on an entry the machine has already consumed: publish_* leaves its operand on the tracker stack)
            t = self.tr.stack[-1]
            self.call('save', str(len(self.tr.memory)), t)

    def generalize(self, proved):
        """exists_generalization on an implication with a variable the toolkit itself judges fresh"""
        P = self.P
        l_r = P.Implies.unwrap(proved.conclusion)
        if not l_r:
            return proved
        cands = [x for x in (0, 1, 2, 3) if l_r[1].evar_is_free(x)]
        if not cands:
            return proved
        self.c('generalization')
        return self.call('exists_generalization', proved, P.EVar(self.rng.choice(cands)))


def random_module_plan(rng: random.Random):
    """axioms and claims (O1 terms) with a recipe per claim"""
    n_ax = rng.randint(0, 4)
    axioms = []
    for _ in range(n_ax):
        axioms.append(rp.rand_term(rng, rng.randint(0, 2), meta=rng.random() < 0.3, notation=0.3, substs=False, syms=('a', 'b', 'c', 'f'), constrained=0.2))
    # make an MP pair available sometimes
    if rng.random() < 0.6:
        A = rp.rand_term(rng, 1, meta=False, notation=0.3, syms=('a', 'b', 'c'))
        B = rp.rand_term(rng, 1, meta=False, notation=0.3, syms=('a', 'b', 'c'))
        axioms += [tb.im(A, B), A]
    # dedupe by expansion (ProofExp.add_axiom dedupes by ==)
    seen = []
    for a in axioms:
        if tb.norm_py(a) not in [tb.norm_py(x) for x in seen]:
            seen.append(a)
    return seen

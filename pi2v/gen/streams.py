"""G2 - instruction streams.

emit(t): postfix byte encoding of an O1 term.
CheckerSession: drives the real checker (harness STEP mode) one instruction group at a time and keeps a
parsed copy of *its* state, so generation is directed by what the checker actually holds.
"""
from __future__ import annotations

import random

from ..oracles import tb
from ..oracles import refmachine as rm
from . import patterns as gp


def emit(t) -> bytes:
    k = t[0]
    if k == 'ev':
        return bytes([2, t[1]])
    if k == 'sv':
        return bytes([3, t[1]])
    if k == 'sy':
        return bytes([4, t[1]])
    if k == 'im':
        return emit(t[1]) + emit(t[2]) + b'\x05'
    if k == 'ap':
        return emit(t[1]) + emit(t[2]) + b'\x06'
    if k == 'ex':
        return emit(t[2]) + bytes([8, t[1]])
    if k == 'mu':
        return emit(t[2]) + bytes([7, t[1]])
    if k == 'mv':
        if not any(t[2:7]):
            return bytes([137, t[1]])
        out = bytes([9, t[1]])
        for l in t[2:7]:
            out += bytes([len(l), *l])
        return out
    if k == 'es':
        return emit(t[3]) + emit(t[1]) + bytes([10, t[2]])
    if k == 'ss':
        return emit(t[3]) + emit(t[1]) + bytes([11, t[2]])
    raise TypeError(k)


def parse_term_list(s: str):
    """'[ (pat ...) (prf ...) ]' -> list of (tag, term);  '[ (im ..) ]' (claims) -> list of terms"""
    s = s.strip()
    assert s[0] == '[' and s[-1] == ']', s[:50]
    body = s[1:-1].strip()
    out = []
    depth = 0
    start = None
    for i, c in enumerate(body):
        if c == '(':
            if depth == 0:
                start = i
            depth += 1
        elif c == ')':
            depth -= 1
            if depth == 0:
                out.append(body[start:i + 1])
    res = []
    for item in out:
        if item.startswith('(pat ') or item.startswith('(prf '):
            res.append((item[1:4], tb.parse(item[5:-1])))
        else:
            res.append(tb.parse(item))
    return res


def split_state(s: str):
    """'[..] [..] [..]' -> three bracket strings"""
    parts = []
    depth = 0
    start = None
    for i, c in enumerate(s):
        if c == '[':
            if depth == 0:
                start = i
            depth += 1
        elif c == ']':
            depth -= 1
            if depth == 0:
                parts.append(s[start:i + 1])
    return parts


class CheckerSession:
    def __init__(self, hx, phase=2):
        self.hx = hx
        self.trace = bytearray()      # bytes accepted so far in the current phase
        self.stack = []
        self.memory = []
        self.claims = []
        self.dead = False
        self.last_panic = None
        self.pre_phases = []          # [(phase, bytes)] executed before the current phase (for recover)
        r = hx.batch(['NEW', f'PHASE {phase}'])
        assert r == ['OK', 'OK'], r
        self.phase = phase

    def step(self, code: bytes) -> bool:
        """execute code (one or more whole instructions); returns False if the checker rejected"""
        assert not self.dead
        top, state = self.hx.batch([f'STEP {code.hex()}', 'DUMP'])
        if not top.startswith('TOP'):
            self.dead = True
            self.last_panic = top
            return False
        self.trace += code
        st, mem, cl = split_state(state[6:])
        self.stack = parse_term_list(st)
        self.memory = parse_term_list(mem)
        self.claims = parse_term_list(cl)
        return True

    def recover(self) -> bool:
        """after a rejected step: rebuild the checker's state by replaying the accepted trace"""
        r = self.hx.batch(['NEW', f'PHASE {self.phase}'])
        if self.pre_phases:
            for ph, code in self.pre_phases:
                self.hx.batch([f'PHASE {ph}', f'STEP {code.hex()}'])
            self.hx.batch([f'PHASE {self.phase}'])
        self.dead = False
        tr = bytes(self.trace)
        self.trace = bytearray()
        if not tr:
            self.stack = []
            return True
        return self.step(tr)


# ----------------------------------------------------------------------- directed generation
AXIOM_OPS = (12, 13, 14, 15, 19)


class Director:
    """Chooses the next instruction group from the checker's own state.  `hostile` biases plugs and
    variable ids toward the variables named in binders and constraints of the terms in play."""

    def __init__(self, rng: random.Random, hostile=0.6, evs=(0, 1, 2), svs=(0, 1, 2), syms=(0, 1)):
        self.rng = rng
        self.hostile = hostile
        self.evs = evs
        self.svs = svs
        self.syms = syms

    # -- small pattern sources
    def small_pattern(self, ctx_term=None, meta=0.3, depth=2):
        rng = self.rng
        if ctx_term is not None and rng.random() < self.hostile:
            # mention exactly the variables that matter in ctx_term
            es_ = sorted(tb.all_evars(ctx_term)) or list(self.evs)
            ss_ = sorted(tb.all_svars(ctx_term)) or list(self.svs)
            r = rng.random()
            if r < 0.2:
                # capture-discriminating shapes: a variable both outside and inside the scope of another binder,
                # under application (whose interpretation is arbitrary), e.g. x0 . (E x1. x0)
                a, b = rng.choice(es_), rng.choice(es_ + [(max(es_) + 1) % 3])
                X = rng.choice(ss_)
                s = tb.sy(rng.choice(self.syms))
                return rng.choice((
                    tb.ap(tb.ev(a), tb.ex(b, tb.ev(a))), tb.ap(tb.ex(b, tb.ev(a)), tb.ev(a)),
                    tb.ap(tb.ev(a), tb.ex(b, tb.ap(tb.ev(a), tb.ev(b)))), tb.ap(tb.sv(X), tb.ex(b, tb.sv(X))),
                    tb.ap(tb.sv(X), tb.mu((X + 1) % 3, tb.sv(X))), tb.ap(tb.ev(a), tb.mu(X, tb.ap(tb.ev(a), tb.sv(X)))),
                    tb.ap(s, tb.ex(b, tb.ap(tb.ev(a), tb.ev(b)))), tb.ex(b, tb.ap(tb.ev(a), tb.ev(b))),
                    tb.ap(tb.sv(X), tb.ex(b, tb.ap(tb.sv(X), tb.ev(b)))),
                ))
            if r < 0.26:
                # positivity traps: the checker must refuse to build these (non-positive mu); if it does not, they end up inside theorems
                X = rng.choice(ss_)
                Y = (X + 1) % 3
                s = tb.sy(rng.choice(self.syms))
                return rng.choice((
                    tb.mu(X, tb.neg(tb.sv(X))), tb.mu(X, tb.im(tb.sv(X), s)), tb.mu(X, tb.ap(s, tb.neg(tb.sv(X)))),
                    tb.mu(X, tb.im(tb.im(s, tb.sv(X)), tb.sv(X))), tb.mu(X, tb.mu(Y, tb.im(tb.sv(X), tb.sv(Y)))),
                    tb.mu(X, tb.ex(rng.choice(es_), tb.neg(tb.sv(X)))),
                ))
            if r < 0.34:
                return gp.rand_concrete(rng, rng.randint(2, 3), tuple(es_), tuple(ss_), self.syms, wf=rng.random() < 0.6)
            if r < 0.5:
                return tb.ev(rng.choice(es_))
            if r < 0.6:
                return tb.sv(rng.choice(ss_))
            if r < 0.75:
                return tb.ap(tb.sy(rng.choice(self.syms)), tb.ev(rng.choice(es_)))
            if r < 0.85:
                return tb.im(tb.sv(rng.choice(ss_)), tb.BOT)
            if r < 0.93:
                return tb.ex(rng.choice(es_), tb.ap(tb.ev(rng.choice(es_)), tb.sv(rng.choice(ss_))))
            return tb.im(tb.ev(rng.choice(es_)), tb.sv(rng.choice(ss_)))
        if rng.random() < meta:
            return gp.rand_meta(rng, rng.randint(0, depth), self.evs, self.svs, self.syms, mvs=(0, 1, 2), constrained=0.6)
        return gp.rand_concrete(rng, rng.randint(0, depth), self.evs, self.svs, self.syms)

    def proved_slots(self, sess):
        return [i for i, (tag, _) in enumerate(sess.memory) if tag == 'prf']

    def pick_proved_source(self, sess):
        """returns (code that pushes a Proved, its term) - an axiom schema or a Load of a proved slot"""
        rng = self.rng
        slots = self.proved_slots(sess)
        if slots and rng.random() < 0.65:
            i = rng.choice(slots[-12:])
            if i < 256:
                return bytes([29, i]), sess.memory[i][1]
        op = rng.choice(AXIOM_OPS)
        term = {12: rm.PROP1, 13: rm.PROP2, 14: rm.PROP3, 15: rm.QUANTIFIER, 19: rm.EXISTENCE}[op]
        return bytes([op]), term

    def next(self, sess) -> tuple[str, bytes]:
        rng = self.rng
        top = sess.stack[-1] if sess.stack else None
        r = rng.random()
        # keep proved results around
        if top and top[0] == 'prf' and r < 0.35 and len(sess.memory) < 200:
            return 'save', b'\x1c'
        if top and r < 0.45 and len(sess.stack) > 3:
            return 'pop', b'\x1b'
        kind = rng.choices(
            ['inst', 'weaken', 'gen', 'subst', 'mp_search', 'inst_pat', 'push', 'axiom', 'mp_raw', 'gen_raw', 'imp_refl', 'distribute',
             'pending_gen', 'pending_mu'],
            [22, 14, 14, 14, 8, 5, 5, 6, 3, 3, 4, 6, 6, 4])[0]
        if kind == 'pending_gen':
            # freshness THROUGH a pending substitution, then instantiation INTO it:
            #   E = phi_i[g/x];  Prop1[phi0:=E, phi1:=s]  =  E -> (s -> E);  Generalization x;  Instantiate phi_i := q
            i = rng.choice((0, 1, 2, 3))
            x = rng.choice(self.evs)
            base = tb.mv(i, *gp.rand_constraints(rng, self.evs, self.svs, p=0.3)) if rng.random() < 0.4 else tb.mv(i)
            g = rng.choice((tb.sy(rng.choice(self.syms)), tb.ev((x + 1) % 3), tb.ap(tb.ev(x), tb.sy(rng.choice(self.syms))),
                            tb.im(tb.ev((x + 1) % 3), tb.ev(x)), tb.sv(rng.choice(self.svs))))
            E = tb.es(base, x, g)
            s_ = tb.sy(rng.choice(self.syms))
            q = rng.choice((tb.ev(x), tb.ap(tb.sy(rng.choice(self.syms)), tb.ev(x)), tb.ex((x + 1) % 3, tb.ev(x)),
                            tb.mv((i + 1) % 4, *gp.rand_constraints(rng, self.evs, self.svs, p=0.4)), tb.mv((i + 1) % 4),
                            self.small_pattern(E, meta=0.3)))
            code = emit(s_) + emit(E) + bytes([12, 26, 2, 0, 1, 22, x]) + emit(q) + bytes([27])   # build q, pop it (keeps the stream shape simple)
            two_step = rng.random() < 0.3 and len(sess.memory) < 240
            if two_step:
                # ... instantiation INTO it in two steps: first a metavariable that declares x fresh, itself under a pending substitution
                # whose plug brings x back; then that metavariable
                j = (i + 1) % 4
                y = (x + 1) % 3
                t = rng.choice((tb.ap(tb.ev(x), tb.sy(rng.choice(self.syms))), tb.ev(x), tb.im(tb.ev(x), tb.ev(y))))
                q = tb.es(tb.mv(j, ef=(x,)), y, t)
                q2 = rng.choice((tb.ev(y), tb.ap(tb.sy(rng.choice(self.syms)), tb.ev(y)), tb.im(tb.ev(y), tb.ev(y))))
            code = emit(s_) + emit(E) + bytes([12, 26, 2, 0, 1, 22, x, 28, 27]) + emit(q) + bytes([29, len(sess.memory), 26, 1, i]) if len(sess.memory) < 250 else code
            if two_step:
                code += bytes([28, 27]) + emit(q2) + bytes([29, len(sess.memory) + 1, 26, 1, j])
                return 'pending_gen_two_step', code
            return 'pending_gen', code
        if kind == 'pending_mu':
            # positivity THROUGH a pending substitution: P = mu X . (phi_i{constraints}[g/Y]) built as a pattern, used as a plug, then phi_i instantiated
            i = rng.choice((0, 1, 2))
            X, Y = rng.sample(list(self.svs), 2)
            cons = gp.rand_constraints(rng, self.evs, self.svs, p=0.45)
            base = tb.mv(i, *cons)
            g = rng.choice((tb.sv(X), tb.neg(tb.sv(X)), tb.ap(tb.sy(rng.choice(self.syms)), tb.sv(X)), tb.sy(rng.choice(self.syms)), tb.im(tb.sv(X), tb.sv(Y))))
            inner = tb.ss(base, Y, g) if rng.random() < 0.6 else tb.es(base, rng.choice(self.evs), g)
            body = rng.choice((inner, tb.neg(inner), tb.ap(tb.sy(rng.choice(self.syms)), inner), tb.neg(tb.neg(inner))))
            Pm = tb.mu(X, body)
            q = rng.choice((tb.sv(Y), tb.neg(tb.sv(Y)), tb.sv(X), tb.neg(tb.sv(X)), tb.ap(tb.sv(X), tb.sv(Y)), self.small_pattern(Pm, meta=0.2)))
            if len(sess.memory) >= 250:
                return 'axiom', bytes([rng.choice(AXIOM_OPS)])
            code = emit(tb.sy(rng.choice(self.syms))) + emit(Pm) + bytes([12, 26, 2, 0, 1, 28, 27]) + emit(q) + bytes([29, len(sess.memory), 26, 1, i])
            return 'pending_mu', code
        if kind == 'imp_refl':
            p = self.small_pattern(top[1] if top else None, meta=0.4)
            q = self.small_pattern(None, meta=0.3, depth=1)
            qp = tb.im(q, p)
            # prop2[p, q->p, p] ; prop1[p, q->p] ; MP ; prop1[p, q] ; MP   ==>  p -> p
            code = (emit(p) + emit(qp) + emit(p) + bytes([13, 26, 3, 0, 1, 2]) +
                    emit(qp) + emit(p) + bytes([12, 26, 2, 0, 1, 21]) +
                    emit(q) + emit(p) + bytes([12, 26, 2, 0, 1, 21]))
            return 'imp_refl', code
        if kind == 'distribute':
            # from A->B (slot i) and psi:  (psi->A)->(psi->B)  via weaken + prop2 + MP
            cands = [i for i in self.proved_slots(sess) if sess.memory[i][1][0] == 'im' and i < 256 and tb.size(sess.memory[i][1]) < 40]
            if not cands:
                return 'axiom', bytes([rng.choice(AXIOM_OPS)])
            i = rng.choice(cands[-12:])
            T = sess.memory[i][1]
            A, B = T[1], T[2]
            psi = self.small_pattern(T, meta=0.3)
            code = (emit(B) + emit(A) + emit(psi) + bytes([13, 26, 3, 0, 1, 2]) +      # (psi->(A->B)) -> ((psi->A)->(psi->B))
                    emit(psi) + emit(T) + bytes([12, 26, 2, 0, 1, 29, i, 21]) +          # psi -> (A->B)
                    bytes([21]))
            return 'distribute', code
        if kind == 'axiom':
            code, _ = self.pick_proved_source(sess)
            return 'axiom', code
        if kind == 'push':
            return 'push', emit(self.small_pattern())
        if kind == 'inst':
            code, term = self.pick_proved_source(sess)
            ids = sorted(tb.metavar_ids(term))
            if not ids:
                return 'axiom', code
            rng.shuffle(ids)
            ids = ids[:rng.randint(1, len(ids))]
            if rng.random() < 0.1:
                ids.append(rng.choice((0, 1, 2, 3)))   # duplicate / absent id
            plugs = [self.small_pattern(term, meta=0.4) for _ in ids]
            pre = b''.join(emit(p) for p in reversed(plugs))
            return 'inst', pre + code + bytes([26, len(ids), *ids])
        if kind == 'inst_pat':
            base = gp.rand_meta(rng, 2, self.evs, self.svs, self.syms, mvs=(0, 1), constrained=0.6)
            ids = sorted(tb.metavar_ids(base))
            if not ids:
                return 'push', emit(base)
            plugs = [self.small_pattern(base, meta=0.3) for _ in ids]
            pre = b''.join(emit(p) for p in reversed(plugs))
            return 'inst_pat', pre + emit(base) + bytes([26, len(ids), *ids])
        if kind == 'weaken':
            # psi -> T  from  T : Prop1[phi0:=T, phi1:=psi], MP with T
            slots = self.proved_slots(sess)
            if not slots:
                return 'axiom', bytes([rng.choice(AXIOM_OPS)])
            i = rng.choice(slots[-12:])
            T = sess.memory[i][1]
            if tb.size(T) > 60 or i > 255:
                return 'axiom', bytes([rng.choice(AXIOM_OPS)])
            psi = self.small_pattern(T, meta=0.3)
            return 'weaken', emit(psi) + emit(T) + bytes([12, 26, 2, 0, 1, 29, i, 21])
        if kind == 'gen':
            # generalize an implication (top if it is one, else a loaded one)
            cands = [i for i in self.proved_slots(sess) if sess.memory[i][1][0] == 'im' and i < 256]
            if top and top[0] == 'prf' and top[1][0] == 'im' and rng.random() < 0.5:
                T = top[1]
                pre = b''
            elif cands:
                i = rng.choice(cands[-12:])
                T = sess.memory[i][1]
                pre = bytes([29, i])
            else:
                return 'axiom', bytes([rng.choice(AXIOM_OPS)])
            vs = sorted(tb.all_evars(T)) or list(self.evs)
            x = rng.choice(vs) if rng.random() < 0.8 else rng.choice(self.evs)
            if rng.random() < 0.7 and not tb.d_e_fresh(T[2], x):
                # guidance only: prefer a variable the document's judgement calls fresh in the consequent
                ok = [v for v in list(vs) + list(self.evs) if tb.d_e_fresh(T[2], v)]
                if ok:
                    x = rng.choice(ok)
            return 'gen', pre + bytes([22, x])
        if kind == 'subst':
            slots = self.proved_slots(sess)
            if not slots:
                return 'axiom', bytes([rng.choice(AXIOM_OPS)])
            i = rng.choice(slots[-12:])
            if i > 255:
                return 'axiom', bytes([rng.choice(AXIOM_OPS)])
            T = sess.memory[i][1]
            Xs = sorted(tb.all_svars(T)) or list(self.svs)
            X = rng.choice(Xs) if rng.random() < 0.8 else rng.choice(self.svs)
            plug = self.small_pattern(T, meta=0.25)
            return 'subst', emit(plug) + bytes([29, i, 24, X])
        if kind == 'mp_search':
            ps = [(i, sess.memory[i][1]) for i in self.proved_slots(sess) if i < 256]
            imps = [(i, t) for i, t in ps if t[0] == 'im']
            rng.shuffle(imps)
            for i, t in imps[:20]:
                for j, u in ps:
                    if t[1] == u:
                        return 'mp', bytes([29, i, 29, j, 21])
            return 'axiom', bytes([rng.choice(AXIOM_OPS)])
        if kind == 'mp_raw':
            # near-miss modus ponens between arbitrary proved entries
            ps = [i for i in self.proved_slots(sess) if i < 256]
            if len(ps) < 2:
                return 'axiom', bytes([rng.choice(AXIOM_OPS)])
            return 'mp_raw', bytes([29, rng.choice(ps), 29, rng.choice(ps), 21])
        if kind == 'gen_raw':
            if top and top[0] == 'prf':
                return 'gen_raw', bytes([22, rng.choice(self.evs)])
            return 'axiom', bytes([rng.choice(AXIOM_OPS)])
        return 'axiom', bytes([rng.choice(AXIOM_OPS)])


# ------------------------------------------------------------------- byte-level mutations (G2b)
def mutate(rng: random.Random, buf: bytes, n=None) -> bytes:
    b = bytearray(buf)
    for _ in range(n or rng.randint(1, 3)):
        r = rng.random()
        if not b:
            b.append(rng.randrange(256))
            continue
        i = rng.randrange(len(b))
        if r < 0.4:
            b[i] = rng.choice((rng.randrange(256), rng.randrange(2, 31), b[i] ^ 1, 0, 1, 2))
        elif r < 0.6:
            b.insert(i, rng.choice((rng.randrange(2, 31), rng.randrange(256), 0, 1, 27, 28)))
        elif r < 0.85:
            del b[i]
        else:
            del b[i:]
    return bytes(b)

"""G6 - synthetic Metamath databases in the fragment the translator supports (DESIGN.md section 3).

Terms: a variable is a `str`; an application is a tuple `(symbol, arg1, ..., argn)` (nullary: `(symbol,)`).
Proof trees: `(label, (child, ...))`, children in mandatory-hypothesis order of `label`.
Every proof produced here is checked by O6(b) (pi2v.oracles.mm) before it is handed to a check.
"""
from __future__ import annotations

import sys

from ..oracles import mm

sys.setrecursionlimit(max(sys.getrecursionlimit(), 20000))

WS_CHOICES = [' ', ' ', ' ', '\n', '\t', '  ', ' \n  ', '\r\n', ' \f ', '\n\n']


# ------------------------------------------------------------------------------------------- terms
def t_text(t) -> str:
    if isinstance(t, str):
        return t
    if len(t) == 1:
        return t[0]
    return '( ' + t[0] + ' ' + ' '.join(t_text(a) for a in t[1:]) + ' )'


def t_vars(t, acc=None):
    if acc is None:
        acc = []
    if isinstance(t, str):
        if t not in acc:
            acc.append(t)
    else:
        for a in t[1:]:
            t_vars(a, acc)
    return acc


def t_subst(t, s):
    if isinstance(t, str):
        return s.get(t, t)
    if len(t) == 1:
        return t
    return (t[0],) + tuple(t_subst(a, s) for a in t[1:])


def t_size(t) -> int:
    if isinstance(t, str):
        return 1
    return 1 + sum(t_size(a) for a in t[1:])


def t_match(pat, t, s):
    """one-way matching, extends s in place; False on failure (s may be partially extended)"""
    if isinstance(pat, str):
        if pat in s:
            return s[pat] == t
        s[pat] = t
        return True
    if isinstance(t, str) or t[0] != pat[0] or len(t) != len(pat):
        return False
    return all(t_match(p, a, s) for p, a in zip(pat[1:], t[1:]))


IMP = '\\imp'
APP = '\\app'


def imp(a, b):
    return (IMP, a, b)


# ------------------------------------------------------------------------------------------ theory
class Assertion:
    def __init__(self, label, concl, hyps=(), dvs=(), typecode='|-', kind='a', shape='plain'):
        self.label = label
        self.concl = concl            # term
        self.hyps = list(hyps)        # [(label, term)]   (all |- hypotheses)
        self.dvs = [tuple(p) for p in dvs]   # pairs of variable names
        self.typecode = typecode
        self.kind = kind              # 'a' | 'p'
        self.shape = shape            # 'plain' | 'block' | 'nested' | 'twin'
        self.proof = None             # text after $= for lemmas
        self.twin = None              # for shape 'twin': the sibling Assertion sharing the outer block
        self.gdvs = []                # $d inherited from top-level $d statements (not rendered in the block)
        vs = []
        for _, h in self.hyps:
            t_vars(h, vs)
        t_vars(concl, vs)
        self.vars = vs


class Theory:
    def __init__(self):
        self.pvars = []        # pattern variable names (declared)
        self.evars = []        # element variable names (declared)
        self.f_order = []      # all variables in $f order
        self.f_label = {}
        self.f_tc = {}
        self.consts = []       # [(sym, label)]
        self.symbols = []      # [(sym, label)]  $a #Symbol, used only inside notation bodies
        self.ctors = {}        # sym -> (label, params)   every symbol that has a -is-pattern axiom
        self.notations = {}    # sym -> (label, params, rhs)
        self.rules = {}        # 'prop1' | 'prop2' | 'mp' -> Assertion
        self.axioms = []       # Assertions ($a |- ...) in database order (without proof rules)
        self.lemmas = []       # Assertions ($p) in database order
        self.global_dvs = []
        self.items = []        # rendering order: ('c', syms) ('v', vars) ('f', var) ('ctor', sym) ('sym', sym)
                               # ('notation', sym) ('ax', Assertion) ('d', vars) ('comment', text)
        self.roles = None      # the three variables used by the built-in rules, in role order
        self.features = set()

    def f_index(self, v):
        return self._fi[v]

    def finish_f(self):
        self._fi = {v: i for i, v in enumerate(self.f_order)}

    def all_constants(self):
        out = ['#Pattern', '|-', '(', ')', IMP]
        if self.evars:
            out.append('#ElementVariable')
        if self.notations:
            out.append('#Notation')
        if self.symbols:
            out.append('#Symbol')
        for s in self.ctors:
            if s not in out:
                out.append(s)
        for s, _ in self.consts + self.symbols:
            if s not in out:
                out.append(s)
        return out

    def gdvs_for(self, vars_):
        return [p for p in self.global_dvs if p[0] in vars_ and p[1] in vars_]

    def by_label(self, label):
        for a in list(self.rules.values()) + self.axioms + self.lemmas:
            if a.label == label:
                return a
            if a.twin is not None and a.twin.label == label:
                return a.twin
        return None


def stem(sym):
    return sym.lstrip('\\').strip('"')


def rand_term(rng, th, vars_, depth, atoms_only_p=0.0, binders=True):
    """random #Pattern term over the given pattern variables"""
    atoms = list(vars_) + [(c,) for c, _ in th.consts]
    if depth <= 0 or (atoms and rng.random() < 0.25 + atoms_only_p):
        if not atoms:
            return (th.consts[0][0],)
        return rng.choice(atoms)
    syms = [s for s in th.ctors if len(th.ctors[s][1]) > 0]
    w = [3 if s == IMP else 1 for s in syms]
    s = rng.choices(syms, w)[0]
    params = th.ctors[s][1]
    args = []
    for p in params:
        if p in th.evars:
            if not binders:
                return rand_term(rng, th, vars_, depth - 1, atoms_only_p, binders)
            args.append(p if rng.random() < 0.5 else rng.choice(th.evars))
        else:
            args.append(rand_term(rng, th, vars_, depth - 1, atoms_only_p, binders))
    return (s,) + tuple(args)


def gen_theory(rng, profile='c16'):
    """profile 'c16': translator fragment.  'c17': additionally element variables, $d, nested blocks."""
    th = Theory()
    c17 = profile == 'c17'
    nv = rng.randint(3, 6)
    style = rng.random()
    if style < 0.7:
        th.pvars = [f'ph{i}' for i in range(nv)]
    elif style < 0.85:
        th.pvars = ['ph0', 'ph1', 'ph2'] + [f'th{i}' for i in range(nv - 3)]
    else:
        th.pvars = ['ph0', 'ph1', 'ph2'] + [f'ptn{i}' for i in range(nv - 3)]
    if c17 and rng.random() < 0.8:
        th.evars = ['x', 'y', 'z'][:rng.randint(1, 3)]
        th.features.add('element_vars')
    # $f order
    order = list(th.pvars)
    r = rng.random()
    if r < 0.45:
        th.features.add('f_name_order')
    else:
        rng.shuffle(order)
        if order == sorted(order):
            th.features.add('f_name_order')
        else:
            th.features.add('f_permuted')
    th.f_order = order + list(th.evars)
    if th.evars and rng.random() < 0.5:
        rng.shuffle(th.f_order)
    for v in th.pvars:
        th.f_label[v] = f'{v}-is-pattern'
        th.f_tc[v] = '#Pattern'
    for v in th.evars:
        th.f_label[v] = f'{v}-is-element-var'
        th.f_tc[v] = '#ElementVariable'
    th.finish_f()
    # roles of the built-in rules: by default the first three pattern variables in $f order, so that the
    # mandatory-hypothesis order coincides with the role order (as in every shipped database)
    ordered_p = [v for v in th.f_order if v in th.pvars]
    th.roles = ordered_p[:3]
    if 'f_permuted' in th.features and rng.random() < 0.12:
        th.roles = ['ph0', 'ph1', 'ph2']
        if [v for v in ordered_p if v in th.roles] != th.roles:
            th.features.add('builtin_roles_not_in_f_order')
    a, b, c = th.roles
    # constants
    for i in range(rng.randint(1, 3)):
        if rng.random() < 0.15:
            sym = f'"{rng.choice(["0", "1", "12", "ab", "x"])}{i}"'
            th.features.add('domain_value')
            th.consts.append((sym, f'string-literal-{i}-is-pattern'))
        else:
            sym = '\\' + rng.choice(['c', 'k', 'bot', 'top', 'nil'])+ str(i)
            th.consts.append((sym, f'{stem(sym)}-is-pattern'))
    th.ctors[IMP] = ('imp-is-pattern', (a, b))
    if rng.random() < 0.5:
        th.ctors[APP] = ('app-is-pattern', (a, b))
        th.features.add('app')
    for sym, lab in th.consts:
        th.ctors[sym] = (lab, ())
    # symbols for notation bodies
    for i in range(rng.randint(0, 2)):
        sym = '\\' + rng.choice(['sg', 'definedness', 'inh']) + str(i)
        th.symbols.append((sym, f'{stem(sym)}-is-symbol'))
    # constructors without notation
    for i in range(rng.randint(0, 3)):
        ar = rng.choice([1, 1, 2, 2, 3, 4])
        sym = '\\' + rng.choice(['f', 'g', 'h', 'kore-f', 'cell']) + str(i)
        if ar > len(th.pvars):
            ar = len(th.pvars)
        params = tuple(rng.sample(th.pvars, ar))
        th.ctors[sym] = (f'{stem(sym)}-is-pattern', params)
        th.features.add('nary_constructor')
        if ar >= 2 and [th.f_index(p) for p in params] != sorted(th.f_index(p) for p in params):
            th.features.add('ctor_args_permuted')
    if th.evars:
        sym = '\\exists'
        th.ctors[sym] = ('exists-is-pattern', (th.evars[0], a))
    th.items.append(('c', None))
    th.items.append(('v', None))
    for v in th.f_order:
        th.items.append(('f', v))
    for s in th.ctors:
        th.items.append(('ctor', s))
    for s, _ in th.symbols:
        th.items.append(('sym', s))
    # notations (bodies may use anything declared so far, including earlier notations)
    for i in range(rng.randint(0, 3)):
        ar = rng.choice([0, 1, 1, 2, 2, 3])
        ar = min(ar, len(th.pvars))
        sym = '\\' + rng.choice(['not', 'or', 'and', 'n', 'ceil', 'sugar']) + str(i)
        params = tuple(rng.sample(th.pvars, ar))
        bin_syms = [s_ for s_ in ('\\imp', '\\app') if s_ in th.ctors and len(th.ctors[s_][1]) == 2]
        if ar == 2 and bin_syms and rng.random() < 0.3:
            # sugar that IS an implication / application of its two parameters, in either order (e.g. a reversed implication)
            a_, b_ = params if rng.random() < 0.5 else params[::-1]
            body = (rng.choice(bin_syms), a_, b_)
            th.features.add('notation_plain_binary_of_its_parameters')
        else:
            for _ in range(20):
                body = _notation_body(rng, th, params)
                if isinstance(body, str) or body[0] == sym:
                    continue
                used = t_vars(body)
                if all(p in used for p in params) or rng.random() < 0.08:
                    break
            else:
                continue
        if isinstance(body, str):
            continue
        th.notations[sym] = (f'{stem(sym)}-is-sugar', params, body)
        th.ctors[sym] = (f'{stem(sym)}-is-pattern', params)
        th.items.append(('ctor', sym))
        th.items.append(('notation', sym))
        th.features.add('notation')
        if ar == 0:
            th.features.add('nullary_notation')
    # proof rules
    th.rules['prop1'] = Assertion('proof-rule-prop-1', imp(a, imp(b, a)))
    th.rules['prop2'] = Assertion('proof-rule-prop-2', imp(imp(a, imp(b, c)), imp(imp(a, b), imp(a, c))))
    th.rules['mp'] = Assertion('proof-rule-mp', b, [('proof-rule-mp.0', imp(a, b)), ('proof-rule-mp.1', a)], shape='block')
    for k in ('prop1', 'prop2', 'mp'):
        th.items.append(('ax', th.rules[k]))
    # axioms and rules
    seen = set()
    nax = rng.randint(1, 4)
    for i in range(nax):
        vs = rng.sample(th.pvars, rng.randint(0, min(3, len(th.pvars))))
        t = rand_term(rng, th, vs, rng.randint(1, 3), binders=c17)
        if rng.random() < 0.6:
            t = imp(rand_term(rng, th, vs, 2, 0.3, binders=c17), t)
        if isinstance(t, str) or t_text(t) in seen:
            continue
        seen.add(t_text(t))
        ax = Assertion(f'ax-{i}', t)
        _add_dvs(rng, th, ax, c17)
        th.axioms.append(ax)
        th.items.append(('ax', ax))
    for i in range(rng.randint(0, 3)):
        vs = rng.sample(th.pvars, rng.randint(1, min(3, len(th.pvars))))
        nh = rng.randint(1, 3)
        hyps = []
        for j in range(nh):
            r = rng.random()
            if r < 0.3:
                h = rng.choice(vs)
            elif r < 0.65:
                h = imp(rng.choice(vs), rng.choice(vs))
            else:
                h = rand_term(rng, th, vs, 2, binders=c17)
            hyps.append((f'rule-{i}.{j}', h))
        concl = rand_term(rng, th, vs, 2, binders=c17)
        if isinstance(concl, str) and rng.random() < 0.7:
            concl = imp(rng.choice(vs), concl)
        key = ' & '.join(t_text(h) for _, h in hyps) + ' => ' + t_text(concl)
        if key in seen:
            continue
        seen.add(key)
        shape = 'block'
        if c17:
            shape = rng.choice(['block', 'block', 'nested', 'twin'])
        ax = Assertion(f'rule-{i}', concl, hyps, shape=shape)
        _add_dvs(rng, th, ax, c17)
        if shape == 'twin':
            c2 = rand_term(rng, th, vs, 2, binders=c17)
            if rng.random() < 0.4:
                # both assertions in ONE flat block, sharing all its hypotheses; the second may mention variables nothing else mentions
                tw = Assertion(f'rule-{i}b', c2, list(hyps), shape='twin')
                ax.flat_twin = True
                th.features.add('flat_block_with_two_assertions')
            else:
                tw = Assertion(f'rule-{i}b', c2, hyps[:1] + [(f'rule-{i}b.0', rand_term(rng, th, vs, 1, binders=c17))], shape='twin')
            tw.dvs = [p for p in ax.dvs if p[0] in tw.vars and p[1] in tw.vars]
            ax.twin = tw
            th.features.add('twin_blocks')
        if shape == 'nested' and not ax.dvs and len(hyps) < 2:
            shape = ax.shape = 'block'      # `${ ${ ... $} $}` with an empty outer block is not a shape anybody writes
        if shape == 'nested':
            th.features.add('nested_blocks')
            if ax.dvs:
                th.features.add('outer_block_with_only_dv')
        for j, (_, h) in enumerate(hyps):
            if not isinstance(h, str) and t_text(h) not in seen and rng.random() < 0.75:
                seen.add(t_text(h))
                fd = Assertion(f'ax-r{i}{j}', h if rng.random() < 0.6 else t_subst(h, {v: rand_term(rng, th, vs, 1, binders=False) for v in t_vars(h) if v in th.pvars}))
                th.axioms.append(fd)
                th.items.append(('ax', fd))
        th.axioms.append(ax)
        th.items.append(('ax', ax))
        th.features.add('rule_with_hyps')
    if c17 and th.evars and rng.random() < 0.4:
        vs = [rng.choice(th.evars), rng.choice(th.pvars)]
        # a top-level $d constrains every later assertion that mentions both variables; keep the syntax
        # axioms free of it
        if not any(vs[0] in ps and vs[1] in ps for _, ps in th.ctors.values()):
            th.global_dvs.append(tuple(vs))
            th.features.add('global_dv')
            if rng.random() < 0.5:
                th.items.insert(2, ('d', tuple(vs)))
                for ax in th.axioms:
                    for x in (ax, ax.twin):
                        if x is not None:
                            x.gdvs = th.gdvs_for(x.vars)
            else:
                # the $d comes AFTER the axioms: it constrains the lemmas that follow, not the axioms declared before it
                # (a later lemma may instantiate such an axiom with non-disjoint terms)
                th.items.append(('d', tuple(vs)))
                th.features.add('global_dv_after_axioms')
    # interleave some $f later in the file (as the shipped slices do), keeping relative order
    if rng.random() < 0.3:
        fs = [it for it in th.items if it[0] == 'f']
        late = fs[-1]
        if late[1] not in th.roles and all(late[1] not in _item_vars(th, it) for it in th.items if it[0] in ('ctor', 'notation')):
            th.items.remove(late)
            pos = max(i for i, it in enumerate(th.items) if it[0] in ('ctor', 'notation', 'sym')) + 1
            th.items.insert(pos, late)
            th.features.add('late_f')
    return th


def _item_vars(th, it):
    if it[0] == 'ctor':
        return th.ctors[it[1]][1]
    if it[0] == 'notation':
        return th.notations[it[1]][1]
    return ()


def _notation_body(rng, th, params):
    atoms = list(params) + [(c,) for c, _ in th.consts] + [(s,) for s, _ in th.symbols]
    def go(d):
        if d <= 0 or rng.random() < 0.3:
            return rng.choice(atoms)
        syms = [s for s in th.ctors if len(th.ctors[s][1]) > 0 and not any(p in th.evars for p in th.ctors[s][1])]
        s = rng.choice(syms)
        return (s,) + tuple(go(d - 1) for _ in th.ctors[s][1])
    return go(rng.randint(1, 3))


def _add_dvs(rng, th, ax, c17):
    if not c17 or not th.evars or rng.random() < 0.3:
        return
    vs = ax.vars
    ev = [v for v in vs if v in th.evars]
    pv = [v for v in vs if v in th.pvars]
    if ev and pv:
        ax.dvs.append((rng.choice(ev), rng.choice(pv)))
        if ax.shape == 'plain':
            ax.shape = 'block'
        th.features.add('dv')
    if len(ev) >= 2 and rng.random() < 0.5:
        ax.dvs.append((ev[0], ev[1]))
        if ax.shape == 'plain':
            ax.shape = 'block'


# ------------------------------------------------------------------------------------- proof trees
class Prover:
    """Builds proof trees over a theory; hash-conses nodes."""

    def __init__(self, th: Theory):
        self.th = th
        self._wf = {}

    def wf(self, t):
        r = self._wf.get(t)
        if r is not None:
            return r
        th = self.th
        if isinstance(t, str):
            r = (th.f_label[t], ())
        else:
            label, params = th.ctors[t[0]]
            order = sorted(range(len(params)), key=lambda i: th.f_index(params[i]))
            r = (label, tuple(self.wf(t[1 + i]) for i in order))
        self._wf[t] = r
        return r

    def apply(self, ax: Assertion, sigma, hyp_trees):
        th = self.th
        mand = sorted(ax.vars, key=th.f_index)
        kids = [self.wf(sigma[v]) for v in mand] + list(hyp_trees)
        return (ax.label, tuple(kids))


def flatten(tree):
    out = []
    stack = [(tree, False)]
    while stack:
        node, done = stack.pop()
        if done or not node[1]:
            out.append(node[0])
            continue
        stack.append((node, True))
        for k in reversed(node[1]):
            stack.append((k, False))
    return out


def tree_size(tree, memo=None):
    if memo is None:
        memo = {}
    k = id(tree)
    if k in memo:
        return memo[k]
    n = 1 + sum(tree_size(c, memo) for c in tree[1])
    memo[k] = n
    return n


def compress(tree, mand_labels, rng, layout='none'):
    """(listed labels, step list of ints and 'Z') for a proof tree.  layout: none | max | random"""
    # in-degree of every distinct subtree in the DAG
    indeg = {}
    seen = set()
    stack = [tree]
    indeg[tree] = 1
    while stack:
        n = stack.pop()
        if n in seen:
            continue
        seen.add(n)
        for c in n[1]:
            indeg[c] = indeg.get(c, 0) + 1
            stack.append(c)
    used = []
    for lab in flatten(tree):
        if lab not in mand_labels and lab not in used:
            used.append(lab)
    listed = list(used)
    rng.shuffle(listed)
    m = len(mand_labels)
    num = {lab: i + 1 for i, lab in enumerate(mand_labels)}
    for i, lab in enumerate(listed):
        num[lab] = m + i + 1
    base = m + len(listed)
    saved = {}
    steps = []

    def emit(n):
        if n in saved:
            steps.append(base + saved[n] + 1)
            return
        for c in n[1]:
            emit(c)
        steps.append(num[n[0]])
        mark = False
        if layout == 'max':
            mark = indeg[n] >= 2 and bool(n[1])
        elif layout == 'random':
            if indeg[n] >= 2:
                mark = rng.random() < (0.55 if n[1] else 0.15)
            else:
                mark = rng.random() < 0.08      # a mark nobody refers to is legal and still takes a number
        if mark:
            steps.append('Z')
            saved[n] = len(saved)

    emit(tree)
    return listed, steps


def letters(steps):
    return ''.join('Z' if s == 'Z' else mm.encode(s) for s in steps)


def break_letters(rng, s, style=None):
    """whitespace inside the letter stream, as a .mm file allows"""
    style = style or rng.choice(['one', 'lines', 'random'])
    if style == 'one' or len(s) < 2:
        return s
    if style == 'lines':
        w = rng.choice([20, 60, 79])
        return '\n  '.join(s[i:i + w] for i in range(0, len(s), w))
    out = []
    i = 0
    while i < len(s):
        j = i + rng.randint(1, 12)
        out.append(s[i:j])
        i = j
    return ''.join(p + rng.choice(WS_CHOICES) for p in out).rstrip()


# -------------------------------------------------------------------------------------- derivations
class Fact:
    __slots__ = ('term', 'tree', 'dv', 'depth', 'rule')

    def __init__(self, term, tree, dv=frozenset(), depth=0, rule=False):
        self.term = term
        self.tree = tree
        self.dv = dv
        self.depth = depth
        self.rule = rule          # the derivation applies a rule with essential hypotheses (other than mp)


class Deriver:
    def __init__(self, rng, th: Theory, prover: Prover, pvars, evars=(), pool=None, maxsize=60):
        self.rng = rng
        self.th = th
        self.pr = prover
        self.pvars = list(pvars)     # pattern variables that may occur in facts
        self.evars = list(evars)
        self.pool = list(pool if pool is not None else th.axioms)
        for a in list(self.pool):
            if a.twin is not None:
                self.pool.append(a.twin)
        self.maxsize = maxsize
        self.facts = []
        self.index = {}
        self.kinds = []

    def term(self, depth=2):
        return rand_term(self.rng, self.th, self.pvars, depth, binders=bool(self.evars))

    def add(self, f, kind):
        if f is None:
            return None
        if f.term in self.index:
            return None
        self.index[f.term] = f
        self.facts.append(f)
        self.kinds.append(kind)
        return f

    def apply(self, ax: Assertion, sigma, hyp_facts):
        """instantiate an assertion; None if a $d is violated or the result is too large"""
        th = self.th
        for v in ax.vars:
            if v not in sigma:
                if v in th.evars:
                    if not self.evars:
                        return None
                    sigma[v] = self.rng.choice(self.evars)
                else:
                    sigma[v] = self.term(self.rng.randint(0, 2))
        for v in ax.vars:
            if v in th.evars and not (isinstance(sigma[v], str) and sigma[v] in th.evars):
                return None
        concl = t_subst(ax.concl, sigma)
        if t_size(concl) > self.maxsize:
            return None
        dv = set()
        for f in hyp_facts:
            dv |= f.dv
        for x, y in list(ax.dvs) + list(ax.gdvs):
            for s in t_vars(sigma[x]):
                for u in t_vars(sigma[y]):
                    if s == u:
                        return None
                    dv.add(frozenset((s, u)))
        tree = self.pr.apply(ax, sigma, [f.tree for f in hyp_facts])
        d = 1 + max([f.depth for f in hyp_facts], default=0)
        rule = any(f.rule for f in hyp_facts) or (bool(ax.hyps) and ax is not self.th.rules['mp'])
        return Fact(concl, tree, frozenset(dv), d, rule)

    def pick(self, cands):
        return self.rng.choices(cands, [1 + f.depth * f.depth for f in cands])[0]

    def mp(self, fimp, fa):
        a, b, _ = self.th.roles
        t = fimp.term
        return self.apply(self.th.rules['mp'], {a: t[1], b: t[2]}, [fimp, fa])

    def step(self):
        rng = self.rng
        th = self.th
        a, b, c = th.roles
        if len(self.facts) < 2:
            kinds = ['axiom', 'axiom', 'prop1', 'prop2', 'lemma', 'rule']
        else:
            kinds = ['axiom', 'prop1', 'prop2', 'lemma', 'weaken', 'weaken', 'mp', 'mp', 'mp', 'rule', 'rule', 'rule',
                     'distribute', 'distribute']
        k = rng.choice(kinds)
        if k == 'axiom' or (k == 'lemma'):
            cands = [x for x in self.pool if not x.hyps and (x.kind == 'p') == (k == 'lemma')]
            if not cands:
                return
            ax = rng.choice(cands)
            sigma = {}
            # bias: instantiate with terms of existing facts so that mp / rules find partners
            for v in ax.vars:
                if v in th.pvars and self.facts and rng.random() < 0.4:
                    sigma[v] = rng.choice(self.facts).term
            self.add(self.apply(ax, sigma, []), k)
        elif k == 'prop1':
            A = rng.choice(self.facts).term if self.facts and rng.random() < 0.5 else self.term()
            self.add(self.apply(th.rules['prop1'], {a: A, b: self.term()}, []), k)
        elif k == 'prop2':
            self.add(self.apply(th.rules['prop2'], {a: self.term(1), b: self.term(1), c: self.term(1)}, []), k)
        elif k == 'weaken':
            if not self.facts:
                return
            f = self.pick(self.facts)
            X = self.term(1)
            p1 = self.apply(th.rules['prop1'], {a: f.term, b: X}, [])
            if p1 is None:
                return
            p1 = self.index.get(p1.term) or self.add(p1, 'prop1') or p1
            self.add(self.mp(p1, f), 'mp')
        elif k == 'distribute':
            cands = [f for f in self.facts if not isinstance(f.term, str) and f.term[0] == IMP
                     and not isinstance(f.term[2], str) and f.term[2][0] == IMP]
            if not cands:
                return
            f = self.pick(cands)
            X, Y, Zt = f.term[1], f.term[2][1], f.term[2][2]
            p2 = self.apply(th.rules['prop2'], {a: X, b: Y, c: Zt}, [])
            if p2 is None:
                return
            p2 = self.index.get(p2.term) or self.add(p2, 'prop2') or p2
            self.add(self.mp(p2, f), 'mp')
        elif k == 'mp':
            cands = [f for f in self.facts if not isinstance(f.term, str) and f.term[0] == IMP and f.term[1] in self.index]
            if not cands:
                return
            f = self.pick(cands)
            self.add(self.mp(f, self.index[f.term[1]]), 'mp')
        elif k == 'rule':
            cands = [x for x in self.pool if x.hyps]
            if not cands or not self.facts:
                return
            ax = rng.choice(cands)
            got = self._match_hyps(ax) if rng.random() < 0.5 else None
            if got is None:
                got = self._satisfy_hyps(ax)
            if got is None:
                return
            sigma, hf = got
            self.add(self.apply(ax, sigma, hf), 'rule' if ax.kind == 'a' else 'lemma')

    def _match_hyps(self, ax):
        rng = self.rng
        facts = self.facts
        budget = [200]

        def go(i, sigma, acc):
            if i == len(ax.hyps):
                return sigma, acc
            order = list(range(len(facts)))
            rng.shuffle(order)
            for j in order[:25]:
                budget[0] -= 1
                if budget[0] < 0:
                    return None
                s2 = dict(sigma)
                if t_match(ax.hyps[i][1], facts[j].term, s2):
                    if any(v in self.th.evars and not (isinstance(s2[v], str) and s2[v] in self.th.evars) for v in s2):
                        continue
                    r = go(i + 1, s2, acc + [facts[j]])
                    if r is not None:
                        return r
            return None

        return go(0, {}, [])

    def _satisfy_hyps(self, ax):
        """hypothesis by hypothesis: an existing fact that matches, else an axiom instance proving it"""
        rng = self.rng
        th = self.th
        sigma = {}
        acc = []
        for _, h in ax.hyps:
            found = None
            order = list(range(len(self.facts)))
            rng.shuffle(order)
            for j in order[:30]:
                s2 = dict(sigma)
                if t_match(h, self.facts[j].term, s2) and not any(
                        v in th.evars and not (isinstance(s2[v], str) and s2[v] in th.evars) for v in s2):
                    found = (s2, self.facts[j])
                    break
            if found is None:
                s2 = dict(sigma)
                for v in t_vars(h):
                    if v not in s2:
                        if v in th.evars:
                            if not self.evars:
                                return None
                            s2[v] = rng.choice(self.evars)
                        else:
                            s2[v] = self.term(rng.randint(0, 1))
                inst = t_subst(h, s2)
                f = self.index.get(inst)
                if f is None:
                    feeders = [x for x in self.pool if not x.hyps]
                    rng.shuffle(feeders)
                    for x in feeders:
                        s3 = {}
                        if t_match(x.concl, inst, s3):
                            f = self.apply(x, s3, [])
                            if f is not None:
                                f = self.add(f, 'axiom' if x.kind == 'a' else 'lemma') or self.index.get(f.term)
                                break
                if f is None:
                    return None
                found = (s2, f)
            sigma, f = found
            acc.append(f)
        return sigma, acc

    def run(self, nsteps):
        tries = 0
        while len(self.facts) < nsteps and tries < nsteps * 12:
            tries += 1
            self.step()
        return self.facts


# ---------------------------------------------------------------------------------------- rendering
def _dv_stmts(dvs):
    return [['$d', x, y, '$.'] for x, y in dvs]


def assertion_stmts(a: Assertion):
    """list of token lists for an assertion (with its block)"""
    kw = '$a' if a.kind == 'a' else '$p'
    main = [a.label, kw, a.typecode] + t_text(a.concl).split()
    if a.kind == 'p':
        main += ['$='] + a.proof.split() 
    main.append('$.')
    hyps = [[l, '$e', '|-'] + t_text(h).split() + ['$.'] for l, h in a.hyps]
    dvs = _dv_stmts(a.dvs)
    if a.shape == 'plain' and not hyps and not dvs:
        return [main]
    if a.shape == 'wrapped':
        return [['${']] + dvs + hyps + [main, ['$}']]
    if a.shape in ('block', 'plain', 'wrapped'):
        return [['${']] + dvs + hyps + [main, ['$}']]
    if a.shape == 'nested':
        k = len(hyps) // 2 if not dvs else 0
        if not dvs and k == 0:
            k = 1 if len(hyps) > 1 else 0
        return [['${']] + dvs + hyps[:k] + [['${']] + hyps[k:] + [main, ['$}'], ['$}']]
    if a.shape == 'twin':
        tw = a.twin
        tmain = [tw.label, '$a', tw.typecode] + t_text(tw.concl).split() + ['$.']
        if getattr(a, 'flat_twin', False):
            return [['${']] + dvs + hyps + [main, tmain, ['$}']]
        thyps = [[l, '$e', '|-'] + t_text(h).split() + ['$.'] for l, h in tw.hyps[1:]]
        return ([['${']] + dvs + hyps[:1] + [['${']] + hyps[1:] + [main, ['$}']] +
                [['${']] + thyps + [tmain, ['$}'], ['$}']])
    raise ValueError(a.shape)


def theory_stmts(th: Theory, extra_vars=()):
    out = []
    for it in th.items:
        k = it[0]
        if k == 'c':
            cs = th.all_constants()
            out.append(['$c'] + cs + ['$.'])
        elif k == 'v':
            out.append(['$v'] + th.pvars + th.evars + ['$.'])
        elif k == 'f':
            v = it[1]
            out.append([th.f_label[v], '$f', th.f_tc[v], v, '$.'])
        elif k == 'd':
            out.append(['$d'] + list(it[1]) + ['$.'])
        elif k == 'ctor':
            s = it[1]
            lab, params = th.ctors[s]
            out.append([lab, '$a', '#Pattern'] + t_text((s,) + tuple(params)).split() + ['$.'])
        elif k == 'sym':
            s = it[1]
            lab = dict(th.symbols)[s]
            out.append([lab, '$a', '#Symbol', s, '$.'])
        elif k == 'notation':
            s = it[1]
            lab, params, rhs = th.notations[s]
            out.append([lab, '$a', '#Notation'] + t_text((s,) + tuple(params)).split() + t_text(rhs).split() + ['$.'])
        elif k == 'ax':
            out.extend(assertion_stmts(it[1]))
        elif k == 'lemma':
            out.extend(assertion_stmts(it[1]))
    return out


COMMENTS = ['$( generated $)', '$( a comment\n   over two lines $)', '$( $a $p inside a comment $)', '$(\n$)']


def render(stmts, rng=None, style='canonical'):
    if style == 'canonical' or rng is None:
        depth = 0
        lines = []
        for s in stmts:
            if s == ['$}']:
                depth -= 1
            lines.append('    ' * depth + ' '.join(s))
            if s == ['${']:
                depth += 1
        return '\n'.join(lines) + '\n'
    parts = []
    for s in stmts:
        for tok in s:
            parts.append(tok)
            parts.append(rng.choice(WS_CHOICES))
        if rng.random() < 0.08:
            parts.append(rng.choice(COMMENTS))
            parts.append(rng.choice(['\n', ' ', '\n\n']))
    return ''.join(parts)


def proof_text(rng, listed, steps, style='canonical'):
    s = letters(steps)
    if style == 'canonical':
        return '( ' + ' '.join(listed) + ' ) ' + break_letters(rng, s, 'lines' if len(s) > 79 else 'one')
    return '( ' + ' '.join(listed) + ' ) ' + break_letters(rng, s)


LAYOUTS = ('none', 'max', 'random')


def proof_features(th: Theory, labels):
    f = set()
    s = set(labels)
    if 'proof-rule-prop-1' in s: f.add('uses_prop1')
    if 'proof-rule-prop-2' in s: f.add('uses_prop2')
    if 'proof-rule-mp' in s: f.add('uses_mp')
    for sym, (lab, params) in th.ctors.items():
        if lab in s:
            if sym in th.notations:
                f.add('uses_notation')
            elif sym == APP:
                f.add('uses_app')
            elif sym != IMP and params:
                f.add('uses_nary_constructor')
                if len(params) >= 2 and [th.f_index(p) for p in params] != sorted(th.f_index(p) for p in params):
                    f.add('uses_permuted_constructor')
            elif not params:
                f.add('uses_constant')
    for a in th.axioms:
        for x in (a, a.twin):
            if x is not None and x.label in s:
                f.add('uses_rule_with_hyps' if x.hyps else 'uses_axiom')
                if len(x.hyps) >= 2:
                    f.add('uses_rule_with_2plus_hyps')
    for a in th.lemmas:
        if a.label in s:
            f.add('uses_lemma')
    return f


def make_case(rng, nsteps=None, max_rpn=2500, target_label=None, text_style=None):
    """One C16 case: a theory, one derivation, the target `$p` in three compression layouts.
    Returns None if the random derivation produced nothing usable (caller retries)."""
    th = gen_theory(rng, 'c16')
    nv = rng.choice([0, 1, 1, 2, 2, 3, 3])
    nv = min(nv, len(th.pvars))
    V = rng.sample(th.pvars, nv)
    pr = Prover(th)
    dv = Deriver(rng, th, pr, V)
    nsteps = nsteps or rng.choice([1, 2, 4, 8, 12, 20, 30, 45, 60])
    facts = dv.run(nsteps)
    if not facts:
        return None
    # prefer a deep fact among the last ones
    if rng.random() < 0.75:
        pref = rng.random() < 0.6
        tgt = max(facts, key=lambda f: (f.rule and pref, f.depth, tree_size(f.tree)))
    else:
        tgt = rng.choice(facts[-max(1, len(facts) // 3):])
    flat = flatten(tgt.tree)
    if len(flat) > max_rpn:
        cands = [f for f in facts if tree_size(f.tree) <= max_rpn]
        if not cands:
            return None
        tgt = max(cands, key=lambda f: f.depth)
        flat = flatten(tgt.tree)
    label = target_label or rng.choice(['goal', 'goal', 'the-lemma', 'imp-thing', 'lemma-1'])
    tvars = sorted(t_vars(tgt.term), key=th.f_index)
    mand = [th.f_label[v] for v in tvars]
    shape = 'wrapped' if rng.random() < 0.25 else 'plain'
    style = text_style or ('canonical' if rng.random() < 0.7 else 'wild')
    layouts = {}
    base = theory_stmts(th)
    for lay in LAYOUTS:
        listed, steps = compress(tgt.tree, mand, rng, lay)
        lem = Assertion(label, tgt.term, kind='p', shape=shape)
        lem.proof = proof_text(rng, listed, steps, style)
        text = render(base + assertion_stmts(lem), rng, style)
        db, err = mm.verify_text(text, strict=True)
        if err is not None or db.results.get(label, 'x') is not None:
            raise AssertionError(f'G6 produced a proof that O6(b) rejects ({lay}): {err}\n{text}')
        layouts[lay] = {'text': text, 'listed': listed, 'steps': steps, 'nz': steps.count('Z'),
                        'reuse': any(s != 'Z' and s > len(mand) + len(listed) for s in steps)}
    feats = set(th.features) | proof_features(th, flat)
    if len(tvars) >= 2:
        feats.add('multi_var_target')
    if shape == 'wrapped':
        feats.add('target_in_block')
    if style == 'wild':
        feats.add('wild_whitespace')
    return {'theory': th, 'target': label, 'term': tgt.term, 'tvars': tvars, 'mand': mand, 'layouts': layouts,
            'features': sorted(feats), 'rpn_len': len(flat), 'derivation_steps': tgt.depth, 'nfacts': len(facts),
            'kinds': sorted(set(dv.kinds))}


# ------------------------------------------------------------------------- C15: decoding workloads
HEADER_MIN = ['$c #Pattern |- ( ) \\imp $.']


def numbers_case(lo, hi, rng=None, zs=False):
    """A database whose target 'proof' is the step list encode(lo) ... encode(hi-1) (decode-only workload)."""
    steps = list(range(lo, hi))
    if zs and rng is not None:
        out = []
        for s in steps:
            out.append(s)
            if rng.random() < 0.1:
                out.append('Z')
        steps = out
    s = letters(steps)
    w = 79
    body = '\n  '.join(s[i:i + w] for i in range(0, len(s), w))
    text = ('$c #Pattern |- ( ) \\imp $.\n$v ph0 ph1 $.\nph0-is-pattern $f #Pattern ph0 $.\nph1-is-pattern $f #Pattern ph1 $.\n'
            'imp-is-pattern $a #Pattern ( \\imp ph0 ph1 ) $.\n'
            f'numbers $p |- ( \\imp ph0 ph0 ) $=\n  ( imp-is-pattern ) {body} $.\n')
    return {'text': text, 'target': 'numbers', 'mand': ['ph0-is-pattern'], 'listed': ['imp-is-pattern'], 'steps': steps}


def decode_case(rng, conventional=True, twin=False):
    """Label-table workload: a target with 0-6 mandatory variables, $f order a random permutation of
    name order, a label list of length 0-40, random (not necessarily valid) step numbers and Z marks."""
    k = rng.randint(6, 8)
    names = [f'ph{i}' for i in range(k)]
    if rng.random() < 0.3:
        names = names[:4] + ['th0', 'ptn1', 'xi', 'A'][:k - 4]
    order = list(names)
    rng.shuffle(order)
    if conventional:
        flab = {v: f'{v}-is-pattern' for v in names}
    else:
        flab = {v: rng.choice([f'{v}-pattern', f'w{v}', f'{v}-is-pattern']) for v in names}
    m = rng.choice([0, 1, 2, 2, 3, 3, 4, 5, 6])
    tv = rng.sample(names, m)
    nconst = 40
    consts = [f'\\c{i}' for i in range(nconst)]
    # target term: variables in random positions of an implication chain, constants in between
    leaves = list(tv) + [(rng.choice(consts),) for _ in range(rng.randint(0 if m else 1, 2))]
    rng.shuffle(leaves)
    dup = [rng.choice(tv) for _ in range(rng.randint(0, 2))] if tv else []
    leaves += dup
    t = leaves[0]
    for x in leaves[1:]:
        t = imp(x, t) if rng.random() < 0.5 else imp(t, x)
    if isinstance(t, str) and rng.random() < 0.5:
        t = imp(t, t)            # (otherwise the whole statement body is a bare variable: its hypothesis is mandatory all the same)
    mand = [flab[v] for v in order if v in tv]
    # optionally a second theorem over OTHER variables that carries byte-for-byte the same compressed proof text: its numbers 1..m
    # denote ITS mandatory hypotheses
    tv2 = None
    if twin == 'same_vars':
        tv2 = list(tv)
    elif twin and m >= 1:
        for _ in range(10):
            cand = rng.sample(names, m)
            if [flab[v] for v in order if v in cand] != mand:
                tv2 = cand
                break
    pool = ['imp-is-pattern', 'proof-rule-prop-1', 'proof-rule-prop-2', 'proof-rule-mp'] + [f'c{i}-is-pattern' for i in range(nconst)]
    pool += [flab[v] for v in names if v not in tv and (tv2 is None or v not in tv2)]
    L = rng.choice([0, 0, 1, 2, 3, 5, 8, 13, 21, 30, 40, rng.randint(0, 40)])
    listed = rng.sample(pool, min(L, len(pool)))
    zmode = rng.choice(['never', 'every', 'random', 'random'])
    nst = rng.choice([0, 1, 2, 5, 10, 30, 80, 200])
    steps = []
    nsaved = 0
    for _ in range(nst):
        hi = max(1, len(mand) + len(listed) + nsaved)
        r = rng.random()
        if r < 0.9:
            n = rng.randint(1, hi)
        elif r < 0.97:
            n = rng.choice([20, 21, 40, 41, 120, 121, 140, 141, 620, 621, 640, 3120, 3121, 15620, 15621])
        else:
            n = rng.randint(1, 5 ** 9 * 20)
        steps.append(n)
        if zmode == 'every' or (zmode == 'random' and rng.random() < 0.3):
            steps.append('Z')
            nsaved += 1
    a, b, c = order[0], order[1], order[2]
    # some variables are element / set variables: their floating hypotheses are mandatory hypotheses like any other
    tcode = {v: '#Pattern' for v in names}
    if conventional and rng.random() < 0.35:
        for v in rng.sample(names, rng.randint(1, 2)):
            if v not in (a, b, c):          # the syntax axioms below are stated over pattern variables
                tcode[v] = rng.choice(('#ElementVariable', '#SetVariable'))
    stmts = [['$c', '#Pattern', '#ElementVariable', '#SetVariable', '|-', '(', ')', IMP] + consts + ['$.'], ['$v'] + names + ['$.']]
    for v in order:
        stmts.append([flab[v], '$f', tcode[v], v, '$.'])
    stmts.append(['imp-is-pattern', '$a', '#Pattern', '(', IMP, a, b, ')', '$.'])
    for i, cst in enumerate(consts):
        stmts.append([f'c{i}-is-pattern', '$a', '#Pattern', cst, '$.'])
    stmts.append(['proof-rule-prop-1', '$a', '|-'] + t_text(imp(a, imp(b, a))).split() + ['$.'])
    stmts.append(['proof-rule-prop-2', '$a', '|-'] + t_text(imp(imp(a, imp(b, c)), imp(imp(a, b), imp(a, c)))).split() + ['$.'])
    stmts += [['${'], ['proof-rule-mp.0', '$e', '|-'] + t_text(imp(a, b)).split() + ['$.'],
              ['proof-rule-mp.1', '$e', '|-', a, '$.'], ['proof-rule-mp', '$a', '|-', b, '$.'], ['$}']]
    label = rng.choice(['goal', 'target', 'lemma-7', 't'])
    style = 'canonical' if rng.random() < 0.4 else 'wild'
    lem = Assertion(label, t, kind='p', shape='wrapped' if rng.random() < 0.3 else 'plain')
    if style == 'canonical':
        lem.proof = proof_text(rng, listed, steps, 'canonical')
    else:
        lem.proof = '( ' + ' '.join(listed) + ' ) ' + break_letters(rng, letters(steps))
    # the proof string goes through the real lark parser, so the wild rendering also varies the whitespace
    # inside the label list and the letter stream
    lems = assertion_stmts(lem)
    out = {'target': label, 'mand': mand, 'listed': listed, 'steps': steps, 'nvars': m, 'non_pattern_mandatory': sum(1 for v in tv if tcode[v] != '#Pattern'),
           'f_order': [flab[v] for v in order], 'zmode': zmode, 'style': style, 'conventional': conventional,
           'f_sorted': mand == sorted(mand)}
    if tv2 is not None:
        ren = dict(zip(tv, tv2))
        lem2 = Assertion('twin-' + label, t_subst(t, ren), kind='p', shape=lem.shape)
        lem2.proof = lem.proof
        listed2, steps2 = listed, steps
        if twin == 'same_vars':
            # same mandatory variables, but its own label list and step list: the two tables share a prefix and nothing else
            listed2 = rng.sample(pool, min(rng.choice([1, 2, 3, 5, 8]), len(pool)))
            steps2 = [rng.randint(1, max(1, len(mand) + len(listed2))) for _ in range(rng.choice([1, 3, 8, 20]))]
            if rng.random() < 0.5 and steps2:
                steps2.insert(rng.randrange(len(steps2)) + 1, 'Z')
            lem2.proof = proof_text(rng, listed2, steps2, 'canonical')
        first_twin = rng.random() < 0.5
        lems = (assertion_stmts(lem2) + lems) if first_twin else (lems + assertion_stmts(lem2))
        mand2 = [flab[v] for v in order if v in tv2]
        out['twin'] = dict(out, target='twin-' + label, mand=mand2, listed=listed2, steps=steps2, f_sorted=mand2 == sorted(mand2), twin_of=label)
    out['text'] = render(stmts + lems, rng, style)
    if 'twin' in out:
        out['twin']['text'] = out['text']
    return out


# ------------------------------------------------------------------- C17: databases with several lemmas
def make_c17_case(rng, nlemmas=None, style=None):
    """A database with nested blocks, $d, essential hypotheses and several dependent lemmas with compressed
    proofs; the whole database is verified by O6(b) before it is returned."""
    th = gen_theory(rng, 'c17')
    pr = Prover(th)
    pool = list(th.axioms)
    nl = nlemmas or rng.randint(2, 7)
    feats = set()
    for i in range(nl):
        nv = min(rng.choice([0, 1, 2, 2, 3]), len(th.pvars))
        V = rng.sample(th.pvars, nv)
        E = rng.sample(th.evars, rng.randint(0, len(th.evars))) if th.evars else []
        label = f'lemma-{i}' if i < nl - 1 or rng.random() < 0.5 else 'goal'
        dv = Deriver(rng, th, pr, V, E, pool=pool)
        hyps = []
        if rng.random() < 0.45 and (V or th.consts):
            for j in range(rng.randint(1, 2)):
                h = dv.term(rng.randint(0, 2))
                if rng.random() < 0.5:
                    h = imp(dv.term(1), h)
                if h in dv.index:
                    continue
                hl = f'{label}.{j}'
                hyps.append((hl, h))
                dv.add(Fact(h, (hl, ()), frozenset(), 0), 'hyp')
        dv.run(rng.choice([2, 4, 8, 14]) + len(hyps))
        cands = [f for f in dv.facts if f.depth >= 1 and tree_size(f.tree) <= 1500]
        if not cands:
            continue
        tgt = max(cands, key=lambda f: (f.depth, tree_size(f.tree))) if rng.random() < 0.7 else rng.choice(cands)
        flat = flatten(tgt.tree)
        used_h = [(l, h) for l, h in hyps if l in flat or rng.random() < 0.5]
        gl = {frozenset(p) for p in th.global_dvs}
        pairs = sorted(tuple(sorted(p)) for p in tgt.dv if p not in gl or rng.random() < 0.3)
        lem = Assertion(label, tgt.term, used_h, dvs=pairs, kind='p')
        if rng.random() < 0.25 and lem.vars:
            # a wider-than-needed $d: it also names a declared variable that occurs nowhere else in the lemma (legal Metamath)
            unused = [v for v in th.f_order if v not in lem.vars and th.f_tc.get(v) == th.f_tc.get(sorted(lem.vars)[0])]
            if unused:
                w = rng.choice(unused)
                v = rng.choice(sorted(lem.vars))
                extra = tuple(sorted((v, w)))
                if extra not in pairs:
                    pairs = sorted(pairs + [extra])
                    lem = Assertion(label, tgt.term, used_h, dvs=pairs, kind='p')
                    feats.add('lemma_dv_names_unused_variable')
        lem.shape = 'plain' if not used_h and not pairs and rng.random() < 0.7 else 'block'
        mvars = sorted(lem.vars, key=th.f_index)
        mand = [th.f_label[v] for v in mvars] + [l for l, _ in used_h]
        lay = rng.choice(LAYOUTS)
        listed, steps = compress(tgt.tree, mand, rng, lay)
        lem.proof = proof_text(rng, listed, steps, 'canonical')
        th.lemmas.append(lem)
        th.items.append(('lemma', lem))
        # as an assertion for later lemmas: only the $d between mandatory variables are inherited
        use = Assertion(label, tgt.term, used_h, dvs=[p for p in pairs if p[0] in lem.vars and p[1] in lem.vars], kind='p')
        use.gdvs = th.gdvs_for(use.vars)
        pool.append(use)
        if used_h: feats.add('lemma_with_hyps')
        if pairs: feats.add('lemma_with_dv')
        if 'Z' in steps: feats.add('lemma_with_Z')
        f = proof_features(th, flat)
        feats |= {x for x in f if x in ('uses_lemma', 'uses_rule_with_hyps', 'uses_notation')}
        for a in th.axioms:
            for x in (a, a.twin):
                if x is not None and x.label in flat:
                    if a.shape == 'twin':
                        feats.add('uses_twin_first' if x is a else 'uses_twin_second')
                    if a.shape == 'nested':
                        feats.add('uses_nested_rule')
                    if x.dvs:
                        feats.add('uses_dv_axiom')
    if not th.lemmas:
        return None
    style = style or ('canonical' if rng.random() < 0.6 else 'wild')
    text = render(theory_stmts(th), rng, style)
    db, err = mm.verify_text(text, strict=True)
    if err is not None or any(v is not None for v in db.results.values()):
        raise AssertionError(f'G6(C17) produced a database that O6(b) rejects: {err}\n{text}')
    return {'text': text, 'lemmas': [l.label for l in th.lemmas], 'features': sorted(set(th.features) | feats),
            'f_labels': [th.f_label[v] for v in th.f_order], 'theory': th}


# ------------------------------------------------------------------------- C17: a top-level $d that comes after an axiom
def late_dv_case(rng):
    """An axiom over two variables, THEN a top-level $d on those variables, then a lemma that instantiates the axiom with
    non-disjoint terms (legal: the $d was not in force when the axiom was declared) and a control lemma that needs the $d.
    Returns {'text', 'lemmas', 'features'}; the text is verified by O6(b)."""
    from ..oracles import mm
    n = rng.randint(3, 5)
    names = [f'ph{i}' for i in range(n)]
    order = names[:]
    if rng.random() < 0.5:
        rng.shuffle(order)
    i, j = rng.sample(range(n), 2)
    k = rng.choice([x for x in range(n)])
    rel = rng.choice(['\\r', '\\rel', '\\s'])
    lines = ['$c #Pattern |- ( ) \\imp ' + rel + ' $.', '$v ' + ' '.join(names) + ' $.']
    for v in order:
        lines.append(f'{v}-is-pattern $f #Pattern {v} $.')
    lines.append('imp-is-pattern $a #Pattern ( \\imp ph0 ph1 ) $.')
    lines.append(f'rel-is-pattern $a #Pattern ( {rel} ph0 ph1 ) $.')
    if rng.random() < 0.5:
        # TWO top-level $d statements with an axiom between them: the first restricts the axiom, the second does not; the lemma uses the
        # axiom in a way only the second would forbid, so each $d has to stay where it was
        I, J, M = (names[x] for x in rng.sample(range(n), 3))
        lines.append(f'$d {I} {J} $.')
        lines.append(f'ax-rel3 $a |- ( \\imp {I} ( {rel} {J} {M} ) ) $.')
        if rng.random() < 0.5:
            lines.append(f'ax-other $a |- ( \\imp {J} {J} ) $.')
        lines.append(f'$d {I} {M} $.')
        lem_floats = [v for v in order if v in (I, J)]
        ax_floats = [v for v in order if v in (I, J, M)]
        subst = {I: I, J: J, M: I}
        letters = 'ABCDEFGHIJKLMNOPQRST'
        proof = ''.join(letters[lem_floats.index(subst[v])] for v in ax_floats) + letters[len(lem_floats)]
        lines.append(f'lem3 $p |- ( \\imp {I} ( {rel} {J} {I} ) ) $= ( ax-rel3 ) {proof} $.')
        text = '\n'.join(lines) + '\n'
        db, err = mm.verify_text(text, strict=True)
        if err is not None or any(v is not None for v in db.results.values()):
            raise AssertionError(f'late_dv_case (two $d) produced a database that O6(b) rejects: {err} {db.results if db else None}\n{text}')
        return {'text': text, 'lemmas': ['lem3'], 'features': ['global_dv_after_axioms', 'two_global_dv_around_an_axiom']}
    lines.append(f'ax-rel $a |- ( {rel} {names[i]} {names[j]} ) $.')
    if rng.random() < 0.5:
        lines.append(f'ax-other $a |- ( \\imp {names[k]} {names[k]} ) $.')
    lines.append(f'$d {names[i]} {names[j]} $.')
    # the lemma uses one variable for both arguments of the axiom: proof = push its float twice, apply ax-rel
    lines.append(f'lem-same $p |- ( {rel} {names[k]} {names[k]} ) $= ( ax-rel ) AAB $.')
    text = '\n'.join(lines) + '\n'
    db, err = mm.verify_text(text, strict=True)
    if err is not None or any(v is not None for v in db.results.values()):
        raise AssertionError(f'late_dv_case produced a database that O6(b) rejects: {err} {db.results if db else None}\n{text}')
    return {'text': text, 'lemmas': ['lem-same'], 'features': ['global_dv_after_axioms', 'lemma_instantiates_earlier_axiom_non_disjointly']}

"""G7 - seeded generator of Kore definitions, rewrite rules, ground substitutions and execution traces.

Everything is built from the dataclasses of `pyk.kore.syntax` (the structural stand-in in this
environment).  One `Case` = one definition (1-3 modules with imports; sorts incl. hooked ones; symbols:
constants, n-ary constructors, functions, non-functional symbols, cells, a top cell, kseq/dotk/inj and
other PARAMETRIC symbols; rewrite axioms interleaved with axioms that are not rewrite rules so that
ordinals are not contiguous) plus several traces.

Traces are produced together with the rules they use: from the current ground configuration either an
existing rule that matches is re-used (textbook matching, O7) or a new rule is synthesised by
abstracting sub-terms of the configuration into variables (equal sub-terms may share one variable ->
non-linear left sides) and rewriting parts of it (variables may be swapped, duplicated or dropped on
the right side).  So every `matching` trace is chained by construction: step i+1 starts from the
configuration that step i reached.  A `mismatch` trace is a matching trace with ONE step changed so
that its instantiated left side differs from the configuration reached before it.

Supported fragment (deciding classes): every substitution value is a ground term whose head is a
symbol declared `functional` other than `kseq` (the toolkit documents that functional assumptions are
only generated for such heads).  Traces that bind a variable to a domain value, a `kseq` term or a
term with a non-functional head are generated as separate, tagged classes.
"""
from __future__ import annotations

import random
from dataclasses import dataclass, field

import pyk.kore.syntax as K

from ..oracles import koreref as kr

TOP = K.SortApp('SortGeneratedTopCell')
SORT_K = K.SortApp('SortK')
SORT_KITEM = K.SortApp('SortKItem')
SORT_INT = K.SortApp('SortInt')
SORT_BOOL = K.SortApp('SortBool')

USER_SORTS = ['SortExp', 'SortVal', 'SortFoo', 'SortTree', 'SortNat', 'SortId', 'SortStmt', 'SortPgm', "SortA'Unds'b", 'Sorta', 'a']
CELL_NAMES = ['k', 'state', 'env', 'store', 'out', 'in', 'stack', 'pc']
CONST_NAMES = ['a', 'b', 'c', 'd', 'zero', 'nil', 'init', 'next', 'skip', 'FooA', 'FooB', 'x', 'kseq0', 'ksym_a', 'inhabitant', 'mzero', 'yes', 'k0', '_unit']
CTOR_NAMES = ['f', 'g', 'h', 'node', 'succ', 'cons', 'plus', 'seq', 'assign', 'pair2', 'app', 'mul', 'kitem', 'sym']
FUN_NAMES = ['reverse', 'size', 'lookup', 'eval']
VAR_NAMES = ['VarX', 'VarY', 'VarZ', 'VarT1', 'VarT2', "Var'Unds'DotVar0", "Var'Unds'DotVar1", 'VarHOLE', 'VarK', 'VarN', 'VarM',
             'VarRest', 'X', 'x', 'X0', 'X1', 'Var0', 'Var1', 'phi0', 'VarXs']


def A(name):  # attribute
    return K.App(name, (), ())


@dataclass
class Sym:
    name: str
    sort_params: tuple          # names of sort variables
    arg_sorts: tuple            # K.Sort (may mention K.SortVar)
    result: object              # K.Sort
    functional: bool = False
    ctor: bool = False
    cell: bool = False
    extra_attrs: tuple = ()
    module: int = 0

    @property
    def parametric(self):
        return bool(self.sort_params)

    def decl(self):
        attrs = []
        # attribute order is irrelevant to the toolkit; vary it deterministically by name
        if self.functional:
            attrs.append(A('functional'))
        if self.ctor:
            attrs.append(A('constructor'))
        if self.cell:
            attrs.append(A('cell'))
        for e in self.extra_attrs:
            attrs.append(A(e))
        if len(self.name) % 2:
            attrs.reverse()
        return K.SymbolDecl(K.Symbol(self.name, tuple(K.SortVar(v) for v in self.sort_params)), self.arg_sorts, self.result, tuple(attrs))


@dataclass
class Rule:
    idx: int
    lhs: object
    rhs: object
    sort: object = TOP
    side_condition: object = None     # Kore pattern or None (= \top)
    ordinal: int = -1
    module: int = 0
    tags: set = field(default_factory=set)

    @property
    def rewrite(self):
        return K.Rewrites(self.sort, self.lhs, self.rhs)

    @property
    def axiom(self):
        c1 = self.side_condition if self.side_condition is not None else K.Top(self.sort)
        return K.Axiom((), K.Rewrites(self.sort, K.And(self.sort, (self.lhs, c1)), K.And(self.sort, (self.rhs, K.Top(self.sort)))), ())

    @property
    def variables(self):
        return kr.variables(self.rewrite)

    @property
    def var_occurrences(self):
        return kr.var_occurrences(self.rewrite)


@dataclass
class Step:
    rule: int                   # index into Case.rules
    sigma: dict                 # variable name -> ground Kore term (order = order in the hint)
    after: object               # configuration recorded after the step


@dataclass
class Trace:
    init: object
    steps: list
    kind: str = 'matching'      # 'matching' | 'mismatch'
    bad_step: int | None = None
    mode: str | None = None
    tags: set = field(default_factory=set)


@dataclass
class Case:
    sorts: dict                 # name -> (module index, hooked)
    symbols: dict               # name -> Sym
    nmodules: int
    rules: list
    traces: list
    noise: list                 # [(module index, position key, K.Axiom, kind)]
    definition: object = None
    extra_imports: list = field(default_factory=list)
    sig: object = None

    def rule_by_ordinal(self, o):
        for r in self.rules:
            if r.ordinal == o:
                return r
        raise KeyError(o)


# ------------------------------------------------------------------------------------- signature
class Sig:
    def __init__(self, rng: random.Random):
        self.rng = rng
        self.sorts: dict[str, tuple[int, bool]] = {}
        self.symbols: dict[str, Sym] = {}
        self.value_sorts: list = []         # sorts terms are freely generated for
        self.base: dict = {}                # sort -> callable producing a small ground term
        self.pool: dict = {}                # sort -> previously generated ground terms (for repeated sub-terms)
        self.has_k = False
        self.nmodules = 1

    # -- declaration helpers
    def add_sort(self, name, module=0, hooked=False):
        self.sorts[name] = (module, hooked)
        return K.SortApp(name)

    def add_sym(self, s: Sym):
        assert s.name not in self.symbols
        self.symbols[s.name] = s
        return s

    def result_sort(self, app):
        s = self.symbols[app.symbol]
        if isinstance(s.result, K.SortVar):
            return app.sorts[s.sort_params.index(s.result.name)]
        return s.result

    def sort_of(self, t):
        return kr.sort_of(t, self.result_sort)

    def inst_arg_sorts(self, s: Sym, sort_args):
        m = dict(zip(s.sort_params, sort_args))
        return tuple(m[a.name] if isinstance(a, K.SortVar) else a for a in s.arg_sorts)

    def producers(self, sort):
        """[(Sym, sort_args)] of symbols that can build a term of `sort`"""
        out = []
        for s in self.symbols.values():
            if s.name in ('kseq', 'dotk', 'inj') or s.cell:
                continue
            if isinstance(s.result, K.SortVar):
                if sort in self.value_sorts:
                    out.append((s, s.result.name))
            elif s.result == sort:
                out.append((s, None))
        return out

    def head_supported(self, t) -> bool:
        """substitution values the toolkit documents as supported: functional K symbol at the head, not kseq"""
        return isinstance(t, K.App) and t.symbol != 'kseq' and self.symbols[t.symbol].functional


def mangle_cell(name):
    return "Lbl'-LT-'" + name + "'-GT-'"


def gen_signature(rng: random.Random) -> Sig:
    sg = Sig(rng)
    sg.nmodules = rng.choice((1, 1, 2, 2, 3))
    nm = sg.nmodules

    def early():
        return rng.randrange(nm) if rng.random() < 0.5 else 0

    users = rng.sample(USER_SORTS, rng.randint(1, 4))
    user_sorts = [sg.add_sort(n, early()) for n in users]
    sg.value_sorts = list(user_sorts)
    if rng.random() < 0.6:
        sg.add_sort('SortInt', 0, hooked=True)
        sg.value_sorts.append(SORT_INT)
    has_bool = rng.random() < 0.35
    if has_bool:
        sg.add_sort('SortBool', 0, hooked=rng.random() < 0.8)
    sg.has_k = rng.random() < 0.75
    smod = {n: m for n, (m, _) in sg.sorts.items()}

    def modof(*sorts):
        lo = max([smod[s.name] for s in sorts if isinstance(s, K.SortApp)] or [0])
        return rng.randint(lo, nm - 1) if rng.random() < 0.5 else lo

    def pref():
        # K labels start with 'Lbl'; hand-written Kore definitions use bare names (which may start with any letter, also those of 'ksym_')
        return 'Lbl' if rng.random() < 0.75 else ''

    # constants: every user sort is inhabited by at least one functional constructor constant
    cnames = rng.sample(CONST_NAMES, len(CONST_NAMES))
    for s in user_sorts:
        for _ in range(rng.randint(1, 3)):
            if cnames:
                sg.add_sym(Sym(pref() + cnames.pop(), (), (), s, True, True, module=modof(s)))
    # n-ary constructors
    for n in rng.sample(CTOR_NAMES, rng.randint(1, 5)):
        res = rng.choice(user_sorts)
        args = tuple(rng.choice(sg.value_sorts) for _ in range(rng.randint(1, 3)))
        sg.add_sym(Sym(pref() + n, (), args, res, True, True, module=modof(res, *args)))
    # functions (functional, not constructors) and symbols that are neither
    for n in rng.sample(FUN_NAMES, rng.randint(0, 2)):
        res = rng.choice(user_sorts)
        args = tuple(rng.choice(sg.value_sorts) for _ in range(rng.randint(1, 2)))
        sg.add_sym(Sym(pref() + n, (), args, res, True, False, extra_attrs=('function',), module=modof(res, *args)))
    if rng.random() < 0.5:
        res = rng.choice(user_sorts)
        args = tuple(rng.choice(sg.value_sorts) for _ in range(rng.randint(0, 2)))
        sg.add_sym(Sym('Lblpartial', (), args, res, False, False, module=modof(res, *args)))
    # parametric symbols other than inj
    kinds = rng.sample(['pair', 'some', 'noneOf', 'id', 'ite'], rng.randint(0, 3))
    for kd in kinds:
        res = rng.choice(user_sorts)
        if kd == 'pair':
            sg.add_sym(Sym('Lblpair', ('SA', 'SB'), (K.SortVar('SA'), K.SortVar('SB')), res, True, True, module=modof(res)))
        elif kd == 'some':
            sg.add_sym(Sym('Lblsome', ('SA',), (K.SortVar('SA'),), res, True, True, module=modof(res)))
        elif kd == 'noneOf':
            sg.add_sym(Sym('LblnoneOf', ('SA',), (), res, True, True, module=modof(res)))
        elif kd == 'id':
            sg.add_sym(Sym('Lblid', ('SA',), (K.SortVar('SA'),), K.SortVar('SA'), True, False, module=nm - 1 if rng.random() < 0.5 else 0))
        else:
            sg.add_sym(Sym('Lblite', ('SA',), (res, K.SortVar('SA'), K.SortVar('SA')), K.SortVar('SA'), True, False, module=modof(res)))
    if has_bool:
        arg = rng.choice(sg.value_sorts)
        sg.add_sym(Sym('LblisGood', (), (arg,), SORT_BOOL, True, False, extra_attrs=('function',), module=modof(arg)))
    # K sorts
    if sg.has_k:
        sg.add_sort('SortKItem', 0)
        sg.add_sort('SortK', 0)
        sg.add_sym(Sym('kseq', (), (SORT_KITEM, SORT_K), SORT_K, True, True, extra_attrs=('injective',), module=0))
        sg.add_sym(Sym('dotk', (), (), SORT_K, True, True, module=0))
        inj_functional = rng.random() < 0.3     # the K frontend emits only sortInjection{}()
        sg.add_sym(Sym('inj', ('From', 'To'), (K.SortVar('From'),), K.SortVar('To'), inj_functional, False,
                       extra_attrs=('sortInjection',), module=0))
    # cells
    ncell = rng.randint(1, 3)
    cells = []
    names = rng.sample(CELL_NAMES[1:], ncell - 1) if sg.has_k else rng.sample(CELL_NAMES[1:], ncell)
    if sg.has_k:
        names = ['k'] + names
    def vis(*sorts):
        return max([sg.sorts[s.name][0] for s in sorts] or [0])

    for n in names:
        if n == 'k':
            content = (SORT_K,)
        else:
            content = tuple(rng.choice(sg.value_sorts) for _ in range(rng.choice((1, 1, 1, 2))))
        m = vis(*content)
        csort = sg.add_sort('Sort' + n.capitalize() + 'Cell', m)
        sg.add_sym(Sym(mangle_cell(n), (), content, csort, True, True, True, module=m))
        cells.append(csort)
    # optionally nest the last two cells into an intermediate cell
    if len(cells) >= 2 and rng.random() < 0.3:
        inner = (cells[-2], cells[-1])
        m = vis(*inner)
        tsort = sg.add_sort('SortTCell', m)
        sg.add_sym(Sym(mangle_cell('T'), (), inner, tsort, True, True, True, module=m))
        cells = cells[:-2] + [tsort]
    m = vis(*cells)
    sg.add_sort(TOP.name, m)
    sg.add_sym(Sym(mangle_cell('generatedTop'), (), tuple(cells), TOP, True, True, True, module=m))
    return sg


# ----------------------------------------------------------------------------------- ground terms
def base_term(sg: Sig, sort):
    """a small ground term of `sort` (always terminates)"""
    rng = sg.rng
    if sort == SORT_INT:
        return K.DV(SORT_INT, K.String(str(rng.choice((0, 1, 2, 3, 7, 42, -1)))))
    if sort == SORT_BOOL:
        return K.DV(SORT_BOOL, K.String(rng.choice(('true', 'false'))))
    if sort == SORT_K:
        return K.App('dotk', (), ())
    if sort == SORT_KITEM:
        s = rng.choice([v for v in sg.value_sorts])
        return K.App('inj', (s, SORT_KITEM), (base_term(sg, s),))
    consts = [s for s in sg.symbols.values() if not s.arg_sorts and not s.sort_params and s.result == sort and s.ctor]
    if consts:
        return K.App(rng.choice(consts).name, (), ())
    # cell sorts and the top sort
    for s in sg.symbols.values():
        if s.cell and s.result == sort:
            return K.App(s.name, (), tuple(base_term(sg, a) for a in s.arg_sorts))
    raise AssertionError(f'no base term for {sort}')


def ground_term(sg: Sig, sort, depth: int, leaves=None, leaf_p=0.0):
    """random term of `sort`; `leaves`: {sort: [variables]} allowed as leaves with probability leaf_p"""
    rng = sg.rng
    if leaves and rng.random() < leaf_p and leaves.get(sort):
        return rng.choice(leaves[sort])
    if not leaves and depth >= 1 and sg.pool.get(sort) and rng.random() < 0.25:
        return rng.choice(sg.pool[sort])
    t = _ground_term(sg, sort, depth, leaves, leaf_p)
    if not leaves:
        sg.pool.setdefault(sort, []).append(t)
        if len(sg.pool[sort]) > 12:
            sg.pool[sort].pop(0)
    return t


def _ground_term(sg, sort, depth, leaves, leaf_p):
    rng = sg.rng
    sub = lambda s: ground_term(sg, s, depth - 1, leaves, leaf_p)  # noqa: E731
    if sort == SORT_INT or sort == SORT_BOOL:
        if sort == SORT_BOOL and depth > 0 and 'LblisGood' in sg.symbols and rng.random() < 0.3:
            s = sg.symbols['LblisGood']
            return K.App(s.name, (), tuple(sub(a) for a in s.arg_sorts))
        return base_term(sg, sort)
    if sort == SORT_K:
        if depth <= 0 or rng.random() < 0.3:
            return base_term(sg, sort)
        return K.App('kseq', (), (sub(SORT_KITEM), sub(SORT_K)))
    if sort == SORT_KITEM:
        s = rng.choice(sg.value_sorts)
        return K.App('inj', (s, SORT_KITEM), (sub(s),))
    cellsyms = [s for s in sg.symbols.values() if s.cell and s.result == sort]
    if cellsyms:
        s = cellsyms[0]
        return K.App(s.name, (), tuple(ground_term(sg, a, depth, leaves, leaf_p) for a in s.arg_sorts))
    if depth <= 0:
        return base_term(sg, sort)
    prods = sg.producers(sort)
    if not prods:
        return base_term(sg, sort)
    s, bound = rng.choice(prods)
    sort_args = tuple(sort if v == bound else rng.choice(sg.value_sorts) for v in s.sort_params)
    args = tuple(sub(a) for a in sg.inst_arg_sorts(s, sort_args))
    return K.App(s.name, sort_args, args)


# ------------------------------------------------------------------------------------------ rules
def _overlaps(p, q):
    n = min(len(p), len(q))
    return p[:n] == q[:n]


def synth_rule(sg: Sig, config, idx: int, allow_unsupported: bool):
    """Abstract `config` into a left side with variables, derive a right side.  Returns (Rule, sigma)."""
    rng = sg.rng
    pos = [(p, t) for p, t in kr.positions(config) if p]
    rng.shuffle(pos)
    want = rng.choice((0, 1, 1, 2, 2, 3, 3, 4, 5))
    names = rng.sample(VAR_NAMES, len(VAR_NAMES))
    chosen = []        # [(path, term, var name)]
    val2var = {}
    sigma = {}
    nvars = 0
    for p, t in pos:
        if nvars >= want:
            break
        if any(_overlaps(p, q) for q, _, _ in chosen):
            continue
        sup = sg.head_supported(t)
        if not sup and not (allow_unsupported and rng.random() < 0.5):
            continue
        key = (t, sg.sort_of(t))
        if key in val2var and rng.random() < 0.8:
            v = val2var[key]
        else:
            v = names.pop()
            val2var.setdefault(key, v)
            sigma[v] = t
            nvars += 1
        chosen.append((p, t, v))
        # other occurrences of the same ground sub-term share the variable (non-linear left side)
        for p2, t2 in pos:
            if t2 == t and p2 != p and not any(_overlaps(p2, q) for q, _, _ in chosen) and rng.random() < 0.7:
                chosen.append((p2, t2, v))
    lhs = config
    vsort = {}
    for p, t, v in chosen:
        vs = sg.sort_of(t)
        vsort[v] = vs
        lhs = kr.replace_at(lhs, p, K.EVar(v, vs))
    # right side
    leaves = {}
    for v, s in vsort.items():
        leaves.setdefault(s, []).append(K.EVar(v, s))
    rhs = lhs
    for _attempt in range(6):
        if rhs != lhs and rng.random() < 0.97:
            break
        for _ in range(rng.choice((1, 1, 2, 3))):
            r = rng.random()
            ps = [(p, t) for p, t in kr.positions(rhs) if p]
            if r < 0.55 or not vsort:
                p, t = rng.choice(ps)
                rhs = kr.replace_at(rhs, p, ground_term(sg, sg.sort_of(t), rng.choice((0, 1, 1, 2)), leaves, 0.45))
            elif r < 0.8:
                # swap two variables of one sort everywhere
                same = [vs for vs in leaves.values() if len(vs) >= 2]
                if same:
                    a, b = rng.sample(rng.choice(same), 2)
                    rhs = kr.subst(rhs, {a.name: b, b.name: a})
            else:
                # duplicate a variable: put it where a term of its sort stands
                v = rng.choice(list(vsort))
                cands = [(p, t) for p, t in ps if sg.sort_of(t) == vsort[v]]
                if cands:
                    p, t = rng.choice(cands)
                    rhs = kr.replace_at(rhs, p, K.EVar(v, vsort[v]))
    if kr.size(rhs) > 90:
        rhs = lhs if rng.random() < 0.5 else base_term(sg, TOP)
    rule = Rule(idx, lhs, rhs)
    if 'LblisGood' in sg.symbols and rng.random() < 0.25:
        s = sg.symbols['LblisGood']
        cands = leaves.get(s.arg_sorts[0])
        arg = rng.choice(cands) if cands else base_term(sg, s.arg_sorts[0])
        rule.side_condition = K.Equals(SORT_BOOL, TOP, K.App(s.name, (), (arg,)), K.DV(SORT_BOOL, K.String('true')))
        rule.tags.add('side_condition')
    # order of the hint's substitution is arbitrary
    items = list(sigma.items())
    rng.shuffle(items)
    return rule, dict(items)


def tag_rule(rule: Rule):
    occ = rule.var_occurrences
    locc = kr.var_occurrences(rule.lhs)
    rule.tags -= {'two_vars', 'nonlinear_lhs', 'repeated_var', 'no_vars'}
    if len(set(occ)) >= 2:
        rule.tags.add('two_vars')
    if len(set(locc)) < len(locc):
        rule.tags.add('nonlinear_lhs')
    if len(occ) > len(set(occ)):
        rule.tags.add('repeated_var')
    if not occ:
        rule.tags.add('no_vars')


def sigma_supported(sg: Sig, sigma) -> bool:
    return all(sg.head_supported(t) for t in sigma.values())


def gen_trace(sg: Sig, rules: list, length: int, allow_unsupported=False, reuse_p=0.35) -> Trace:
    rng = sg.rng
    c = ground_term(sg, TOP, rng.choice((1, 2, 2, 3)))
    tr = Trace(c, [])
    used = set()
    for _ in range(length):
        pick = None
        if rules and rng.random() < reuse_p:
            for r in rng.sample(rules, len(rules)):
                s = kr.match(r.lhs, c)
                if s is not None and (allow_unsupported or sigma_supported(sg, s)):
                    inst = kr.subst(r.rewrite, s)
                    if inst in used and rng.random() < 0.85:
                        continue
                    items = list(s.items())
                    rng.shuffle(items)
                    pick = (r, dict(items))
                    tr.tags.add('reused_rule')
                    break
        if pick is None:
            r, s = synth_rule(sg, c, len(rules), allow_unsupported)
            rules.append(r)
            pick = (r, s)
        r, s = pick
        c2 = kr.subst(r.rhs, s)
        if kr.size(c2) > 160:   # keep configurations small: restart from a fresh rule with a ground right side
            r = Rule(len(rules), r.lhs, base_term(sg, TOP), tags=set(r.tags))
            rules.append(r)
            c2 = r.rhs
        if not sigma_supported(sg, s):
            tr.tags.add('unsupported_subst_head')
        if not s:
            tr.tags.add('empty_substitution')
        used.add(kr.subst(r.rewrite, s))
        tr.steps.append(Step(r.idx, s, c2))
        c = c2
    return tr


def first_repeat(tr: Trace, rules):
    """index of the first step whose instantiated rule equals that of an earlier step, else None"""
    seen = set()
    for i, st in enumerate(tr.steps):
        key = kr.subst(rules[st.rule].rewrite, st.sigma)
        if key in seen:
            return i
        seen.add(key)
    return None


def configs(tr: Trace, rules):
    """configuration reached before each step according to the RULES (not the recorded ones):
    [c0, sigma_0(rhs_0), ...] up to and including the configuration after the last step"""
    out = [tr.init]
    for st in tr.steps:
        out.append(kr.subst(rules[st.rule].rhs, st.sigma))
    return out


def supported_value(sg: Sig, sort, avoid=None, tries=30):
    for _ in range(tries):
        t = ground_term(sg, sort, sg.rng.choice((0, 1, 2)))
        if sg.head_supported(t) and t != avoid:
            return t
    return None


def inject_mismatch(sg: Sig, rules: list, tr: Trace):
    """A copy of a matching trace (length >= 1) with one step that does not start where the previous one
    ended.  Returns None if no mismatch could be injected."""
    rng = sg.rng
    n = len(tr.steps)
    if n == 0:
        return None
    cfg = configs(tr, rules)
    for _ in range(12):
        k = rng.randrange(n)
        st = tr.steps[k]
        r = rules[st.rule]
        modes = ['rule']
        if kr.variables(r.lhs):
            modes += ['subst', 'subst', 'subst', 'unbound']
        if k == 0:
            modes += ['init']
        if k >= 1:
            modes += ['skip']
        mode = rng.choice(modes)
        steps = [Step(s.rule, dict(s.sigma), s.after) for s in tr.steps]
        init = tr.init
        bad = k
        if mode == 'subst':
            v = rng.choice(kr.variables(r.lhs))
            srt = kr.var_sorts(r.lhs)[v]
            new = supported_value(sg, srt, avoid=st.sigma[v])
            if new is None:
                continue
            steps[k].sigma[v] = new
        elif mode == 'unbound':
            # the substitution leaves one variable of the left side unbound: the instantiated left side still contains a
            # variable, so it is not the configuration reached before
            v = rng.choice(kr.variables(r.lhs))
            if v not in steps[k].sigma:
                continue
            del steps[k].sigma[v]
        elif mode == 'rule':
            others = [q for q in rules if q.idx != r.idx]
            if not others:
                continue
            q = rng.choice(others)
            vs = kr.var_sorts(q.rewrite)
            s2 = {}
            for v in rng.sample(q.variables, len(q.variables)):
                val = supported_value(sg, vs[v])
                if val is None:
                    break
                s2[v] = val
            if len(s2) != len(q.variables):
                continue
            steps[k] = Step(q.idx, s2, kr.subst(q.rhs, s2))
        elif mode == 'init':
            init = ground_term(sg, TOP, rng.choice((1, 2)))
        else:  # skip: drop step k-1
            del steps[k - 1]
            bad = k - 1
        out = Trace(init, steps, 'mismatch', bad, mode, set())
        c2 = configs(out, rules)
        st2 = out.steps[bad]
        if kr.subst(rules[st2.rule].lhs, st2.sigma) == c2[bad]:
            continue                      # not a mismatch after all
        # the prefix must be a matching, repeat-free trace so that the refusal is due to the changed step
        okp = all(kr.subst(rules[s.rule].lhs, s.sigma) == c2[i] for i, s in enumerate(out.steps[:bad]))
        fr = first_repeat(Trace(init, out.steps[:bad + 1]), rules)
        if not okp or fr is not None:
            continue
        if not all(sigma_supported(sg, s.sigma) for s in out.steps[:bad + 1]):
            continue
        return out
    return None


# ------------------------------------------------------------------------------------- definition
def noise_axioms(sg: Sig, n: int):
    """axioms that are NOT rewrite rules (they consume an ordinal each)"""
    rng = sg.rng
    out = []
    funs = [s for s in sg.symbols.values() if s.functional and not s.sort_params and not s.cell and s.name not in ('kseq', 'dotk')]
    for _ in range(n):
        r = rng.random()
        R = K.SortVar('R')
        if r < 0.45 and funs:
            # equational rule  \implies{R}(\top{R}(), \equals{S,R}(f(args), \and{S}(rhs, \top{S}())))  (converted by the toolkit)
            s = rng.choice(funs)
            S = s.result
            vs = [K.EVar(f'VarE{i}', a) for i, a in enumerate(s.arg_sorts)]
            left = K.App(s.name, (), tuple(vs))
            leaves = {}
            for v in vs:
                leaves.setdefault(v.sort, []).append(v)
            right = ground_term(sg, S, 1, leaves, 0.5) if S in sg.value_sorts else left
            ax = K.Axiom((R,), K.Implies(R, K.Top(R), K.Equals(S, R, left, K.And(S, (right, K.Top(S))))), ())
            out.append((ax, 'equational', s.module))
        elif r < 0.8 and funs:
            # "functional" axiom as the K frontend states it: not a rule shape, skipped by the toolkit; uses \exists,
            # which must not even be looked at
            s = rng.choice(funs)
            S = s.result
            vs = [K.EVar(f'K{i}', a) for i, a in enumerate(s.arg_sorts)]
            ax = K.Axiom((R,), K.Exists(R, K.EVar('Val', S), K.Equals(S, R, K.EVar('Val', S), K.App(s.name, (), tuple(vs)))),
                         (A('functional'),))
            out.append((ax, 'other', s.module))
        else:
            S = rng.choice(sg.value_sorts)
            ax = K.Axiom((R,), K.Or(S, (K.Top(S), K.Bottom(S))), ())
            out.append((ax, 'other', 0))
    return out


def lay_out(sg: Sig, rules: list, rng: random.Random):
    """Build the K.Definition; assigns Rule.module / Rule.ordinal.  Returns (definition, noise list)."""
    nm = sg.nmodules
    main = nm - 1
    per_mod_axioms = [[] for _ in range(nm)]
    smod = {n: m for n, (m, _) in sg.sorts.items()}

    def min_module(pattern):
        lo = 0
        for _, t in kr.positions(pattern):
            if isinstance(t, K.App):
                lo = max(lo, sg.symbols[t.symbol].module)
                for s in t.sorts:
                    lo = max(lo, smod[s.name])
            if isinstance(t, (K.EVar, K.DV)):
                lo = max(lo, smod[t.sort.name])
        return lo

    items = [('rule', r) for r in rules]
    noise = noise_axioms(sg, rng.randint(0, 4))
    items += [('noise', x) for x in noise]
    # rules keep their relative order (ordinals are assigned below anyway); noise is interleaved at random
    order = list(range(len(items)))
    rng.shuffle(order)
    for i in order:
        kind, x = items[i]
        if kind == 'rule':
            lo = min_module(x.axiom.pattern)
            x.module = main if rng.random() < 0.6 else rng.randint(lo, main)
            per_mod_axioms[x.module].append(x.axiom)
        else:
            ax, k, m = x
            lo = max(m, min_module(ax.pattern)) if k == 'equational' else m
            per_mod_axioms[rng.randint(lo, main)].append(ax)
    modules = []
    extra_imports = []
    for m in range(nm):
        sent = []
        if m > 0:
            sent.append(K.Import(f'M{m - 1}', ()))
            if m >= 2 and rng.random() < 0.4:
                sent.append(K.Import(f'M{m - 2}', ()))      # a second path to the same module
                extra_imports.append((m, m - 2))
        for n, (mm, hooked) in sg.sorts.items():
            if mm == m:
                sent.append(K.SortDecl(n, (), (), hooked=hooked))
        for s in sg.symbols.values():
            if s.module == m:
                sent.append(s.decl())
        sent.extend(per_mod_axioms[m])
        modules.append(K.Module(f'M{m}', tuple(sent), ()))
    d = K.Definition(tuple(modules), ())
    # Rule.axiom builds a new object each time: identify by equality, first unused ordinal
    used = set()
    for r in rules:
        ax = r.axiom
        for o, _, a in kr.ordinals(d):
            if o not in used and a == ax:
                r.ordinal = o
                used.add(o)
                break
        assert r.ordinal >= 0
    return d, noise, extra_imports


def gen_case(rng: random.Random, ntraces=3, max_len=8, unsupported_p=0.12) -> Case:
    sg = gen_signature(rng)
    rules: list[Rule] = []
    traces: list[Trace] = []
    lengths = [rng.choice((0, 1, 2, 3, 3, 4, 5, 6, 8)) for _ in range(ntraces)]
    if max(lengths) < 3:
        lengths[0] = rng.randint(3, max_len)
    for L in lengths:
        traces.append(gen_trace(sg, rules, min(L, max_len), allow_unsupported=rng.random() < unsupported_p))
    # a trace that deliberately returns to an earlier configuration and repeats a step (a loop a -> b -> a -> b)
    if rng.random() < 0.15 and rules:
        tr = gen_trace(sg, rules, 1)
        st = tr.steps[0]
        r = rules[st.rule]
        before = tr.init
        back = Rule(len(rules), st.after, before)      # ground rule that undoes the step
        rules.append(back)
        tr.steps.append(Step(back.idx, {}, before))
        tr.steps.append(Step(st.rule, dict(st.sigma), st.after))
        tr.tags.update(('repeated_step', 'loop'))
        if not sigma_supported(sg, st.sigma):
            tr.tags.add('unsupported_subst_head')
        traces.append(tr)
    # distractor rules never used by a trace
    for _ in range(rng.randint(0, 2)):
        r, _s = synth_rule(sg, ground_term(sg, TOP, 2), len(rules), False)
        r.tags.add('unused')
        rules.append(r)
    # mismatching variants
    mism = []
    for tr in list(traces):
        if len(tr.steps) >= 1 and 'unsupported_subst_head' not in tr.tags:
            m = inject_mismatch(sg, rules, tr)
            if m is not None:
                mism.append(m)
    traces.extend(mism)
    for r in rules:
        tag_rule(r)
    for tr in traces:
        tr.tags.discard('repeated_step')
        if tr.kind == 'matching' and first_repeat(tr, rules) is not None:
            tr.tags.add('repeated_step')
    d, noise, extra = lay_out(sg, rules, rng)
    return Case(sg.sorts, sg.symbols, sg.nmodules, rules, traces, noise, d, extra, sg)


# ------------------------------------------------------------------------------------------ print
def show_sigma(s) -> str:
    return '{' + ', '.join(f'{k} |-> {v.text}' for k, v in s.items()) + '}'


def show_trace(tr: Trace, rules) -> list[str]:
    out = [f'kind={tr.kind} bad_step={tr.bad_step} mode={tr.mode} tags={sorted(tr.tags)}', 'init: ' + tr.init.text]
    for i, st in enumerate(tr.steps):
        out.append(f'step {i}: rule ordinal {rules[st.rule].ordinal} {show_sigma(st.sigma)} -> {st.after.text}')
    return out


// ===================================================================================
// pi2v harness - appended to a verbatim copy of /repo/rust/src/lib.rs by build.py.
// Everything above this line is the repository's checker, unmodified.
// Wire format: DESIGN.md Appendix C.
// ===================================================================================
extern crate std;

mod pi2v_harness {
    use super::*;
    use std::cell::RefCell;
    use std::io::{BufRead, Write};
    use std::panic::{catch_unwind, AssertUnwindSafe};
    use std::string::String;
    use std::string::ToString;
    use std::format;

    std::thread_local! {
        static LAST_PANIC: RefCell<String> = RefCell::new(String::new());
    }

    fn show(p: &Pattern, out: &mut String) {
        match p {
            Pattern::EVar(n) => out.push_str(&format!("(ev {})", n)),
            Pattern::SVar(n) => out.push_str(&format!("(sv {})", n)),
            Pattern::Symbol(n) => out.push_str(&format!("(sy {})", n)),
            Pattern::Implies { left, right } => {
                out.push_str("(im ");
                show(left, out);
                out.push(' ');
                show(right, out);
                out.push(')');
            }
            Pattern::App { left, right } => {
                out.push_str("(ap ");
                show(left, out);
                out.push(' ');
                show(right, out);
                out.push(')');
            }
            Pattern::Exists { var, subpattern } => {
                out.push_str(&format!("(ex {} ", var));
                show(subpattern, out);
                out.push(')');
            }
            Pattern::Mu { var, subpattern } => {
                out.push_str(&format!("(mu {} ", var));
                show(subpattern, out);
                out.push(')');
            }
            Pattern::MetaVar { id, e_fresh, s_fresh, positive, negative, app_ctx_holes } => {
                out.push_str(&format!("(mv {}", id));
                for l in [e_fresh, s_fresh, positive, negative, app_ctx_holes] {
                    out.push_str(" (");
                    let mut first = true;
                    for i in l.iter() {
                        if !first { out.push(' '); }
                        first = false;
                        out.push_str(&i.to_string());
                    }
                    out.push(')');
                }
                out.push(')');
            }
            Pattern::ESubst { pattern, evar_id, plug } => {
                out.push_str("(es ");
                show(pattern, out);
                out.push_str(&format!(" {} ", evar_id));
                show(plug, out);
                out.push(')');
            }
            Pattern::SSubst { pattern, svar_id, plug } => {
                out.push_str("(ss ");
                show(pattern, out);
                out.push_str(&format!(" {} ", svar_id));
                show(plug, out);
                out.push(')');
            }
        }
    }

    fn show_term(t: &Term, out: &mut String) {
        match t {
            Term::Pattern(p) => { out.push_str("(pat "); show(p, out); out.push(')'); }
            Term::Proved(p) => { out.push_str("(prf "); show(p, out); out.push(')'); }
        }
    }
    fn show_entry(t: &Entry, out: &mut String) {
        match t {
            Entry::Pattern(p) => { out.push_str("(pat "); show(p, out); out.push(')'); }
            Entry::Proved(p) => { out.push_str("(prf "); show(p, out); out.push(')'); }
        }
    }

    fn show_state(stack: &Stack, memory: &Memory, claims: &Claims) -> String {
        let mut s = String::new();
        s.push('[');
        let mut first = true;
        for t in stack.iter() { if !first { s.push(' '); } first = false; show_term(t, &mut s); }
        s.push_str("] [");
        first = true;
        for t in memory.iter() { if !first { s.push(' '); } first = false; show_entry(t, &mut s); }
        s.push_str("] [");
        first = true;
        for t in claims.iter() { if !first { s.push(' '); } first = false; show(t, &mut s); }
        s.push(']');
        s
    }

    // ---- s-expression reader
    struct Rd<'a> { toks: Vec<&'a str>, pos: usize }
    impl<'a> Rd<'a> {
        fn new(s: &'a str) -> Rd<'a> {
            // tokens are separated by whitespace; parentheses are always surrounded by spaces by the client
            Rd { toks: s.split_whitespace().collect(), pos: 0 }
        }
        fn next(&mut self) -> &'a str { let t = self.toks[self.pos]; self.pos += 1; t }
        fn num(&mut self) -> u8 { self.next().parse::<u16>().unwrap() as u8 }
        fn list(&mut self) -> Vec<u8> {
            assert_eq!(self.next(), "(");
            let mut v = Vec::new();
            while self.toks[self.pos] != ")" { v.push(self.num()); }
            self.pos += 1;
            v
        }
        fn pat(&mut self) -> Rc<Pattern> {
            assert_eq!(self.next(), "(");
            let k = self.next();
            let r = match k {
                "ev" => evar(self.num()),
                "sv" => svar(self.num()),
                "sy" => symbol(self.num()),
                "im" => { let a = self.pat(); let b = self.pat(); implies(a, b) }
                "ap" => { let a = self.pat(); let b = self.pat(); app(a, b) }
                "ex" => { let n = self.num(); let a = self.pat(); exists(n, a) }
                "mu" => { let n = self.num(); let a = self.pat(); mu(n, a) }
                "mv" => {
                    let id = self.num();
                    let e_fresh = self.list(); let s_fresh = self.list();
                    let positive = self.list(); let negative = self.list();
                    let app_ctx_holes = self.list();
                    Rc::new(Pattern::MetaVar { id, e_fresh, s_fresh, positive, negative, app_ctx_holes })
                }
                "es" => { let a = self.pat(); let n = self.num(); let b = self.pat(); esubst(a, n, b) }
                "ss" => { let a = self.pat(); let n = self.num(); let b = self.pat(); ssubst(a, n, b) }
                _ => panic!("bad sexpr head"),
            };
            assert_eq!(self.next(), ")");
            r
        }
    }

    fn unhex(s: &str) -> Vec<u8> {
        if s == "-" { return Vec::new(); }
        let b = s.as_bytes();
        let mut v = Vec::with_capacity(b.len() / 2);
        let h = |c: u8| -> u8 { match c { b'0'..=b'9' => c - b'0', b'a'..=b'f' => c - b'a' + 10, _ => panic!("hex") } };
        let mut i = 0;
        while i + 1 < b.len() { v.push(h(b[i]) * 16 + h(b[i + 1])); i += 2; }
        v
    }

    fn panic_class() -> String {
        LAST_PANIC.with(|m| {
            let s = m.borrow();
            let mut out = String::new();
            for c in s.chars().take(48) {
                if c == '\n' || c == '\r' { break; }
                out.push(if c == ' ' { '_' } else { c });
            }
            if out.is_empty() { out.push_str("panic"); }
            out
        })
    }

    struct Session { stack: Stack, memory: Memory, claims: Claims, phase: u8 }

    fn phase_of(n: u8) -> ExecutionPhase {
        match n { 0 => ExecutionPhase::Gamma, 1 => ExecutionPhase::Claim, _ => ExecutionPhase::Proof }
    }

    fn handle(line: &str, sess: &mut Session, out: &mut String) {
        let mut it = line.splitn(2, ' ');
        let cmd = it.next().unwrap_or("");
        let rest = it.next().unwrap_or("");
        match cmd {
            "RUN" => {
                let parts: Vec<&str> = rest.split(' ').collect();
                let g = unhex(parts[0]); let c = unhex(parts[1]); let p = unhex(parts[2]);
                let verdict = catch_unwind(AssertUnwindSafe(|| { verify(&g, &c, &p); }));
                match verdict {
                    Err(_) => { out.push_str("REJECT "); out.push_str(&panic_class()); }
                    Ok(()) => {
                        // state dump through the same private entry point, phase by phase
                        let dump = catch_unwind(AssertUnwindSafe(|| {
                            let mut claims: Claims = Vec::new();
                            let mut memory: Memory = Vec::new();
                            let mut stack: Stack = Vec::new();
                            execute_instructions(&g, &mut stack, &mut memory, &mut claims, ExecutionPhase::Gamma);
                            stack.clear();
                            execute_instructions(&c, &mut stack, &mut memory, &mut claims, ExecutionPhase::Claim);
                            stack.clear();
                            execute_instructions(&p, &mut stack, &mut memory, &mut claims, ExecutionPhase::Proof);
                            show_state(&stack, &memory, &claims)
                        }));
                        match dump {
                            Ok(s) => { out.push_str("ACCEPT "); out.push_str(&s); }
                            Err(_) => { out.push_str("ACCEPT ?dump-panic "); out.push_str(&panic_class()); }
                        }
                    }
                }
            }
            "NEW" => {
                sess.stack = Vec::new(); sess.memory = Vec::new(); sess.claims = Vec::new(); sess.phase = 0;
                out.push_str("OK");
            }
            "PHASE" => {
                sess.phase = rest.trim().parse::<u8>().unwrap();
                sess.stack.clear();
                out.push_str("OK");
            }
            "STEP" => {
                let buf = unhex(rest.trim());
                let ph = sess.phase;
                let r = catch_unwind(AssertUnwindSafe(|| {
                    execute_instructions(&buf, &mut sess.stack, &mut sess.memory, &mut sess.claims, phase_of(ph));
                }));
                match r {
                    Ok(()) => {
                        out.push_str("TOP ");
                        match sess.stack.last() { Some(t) => show_term(t, out), None => out.push_str("EMPTY") }
                    }
                    Err(_) => { out.push_str("PANIC "); out.push_str(&panic_class()); }
                }
            }
            "DUMP" => { out.push_str("STATE "); out.push_str(&show_state(&sess.stack, &sess.memory, &sess.claims)); }
            "FN" => {
                let mut it2 = rest.splitn(2, ' ');
                let name = it2.next().unwrap_or("");
                let args = it2.next().unwrap_or("");
                let r = catch_unwind(AssertUnwindSafe(|| {
                    let mut rd = Rd::new(args);
                    let mut o = String::new();
                    match name {
                        "e_fresh" => { let p = rd.pat(); let v = rd.num(); o.push_str(if p.e_fresh(v) { "BOOL 1" } else { "BOOL 0" }); }
                        "s_fresh" => { let p = rd.pat(); let v = rd.num(); o.push_str(if p.s_fresh(v) { "BOOL 1" } else { "BOOL 0" }); }
                        "positive" => { let p = rd.pat(); let v = rd.num(); o.push_str(if p.positive(v) { "BOOL 1" } else { "BOOL 0" }); }
                        "negative" => { let p = rd.pat(); let v = rd.num(); o.push_str(if p.negative(v) { "BOOL 1" } else { "BOOL 0" }); }
                        "well_formed" => { let p = rd.pat(); o.push_str(if p.well_formed() { "BOOL 1" } else { "BOOL 0" }); }
                        "apply_esubst" => { let p = rd.pat(); let v = rd.num(); let g = rd.pat(); o.push_str("TERM "); show(&apply_esubst(&p, v, &g), &mut o); }
                        "apply_ssubst" => { let p = rd.pat(); let v = rd.num(); let g = rd.pat(); o.push_str("TERM "); show(&apply_ssubst(&p, v, &g), &mut o); }
                        "instantiate" => {
                            let mut p = rd.pat();
                            let ids = rd.list();
                            let mut plugs: Vec<Rc<Pattern>> = Vec::new();
                            for _ in 0..ids.len() { plugs.push(rd.pat()); }
                            instantiate_in_place(&mut p, &ids, &plugs);
                            o.push_str("TERM "); show(&p, &mut o);
                        }
                        _ => { o.push_str("ERR unknown-fn"); }
                    }
                    o
                }));
                match r { Ok(o) => out.push_str(&o), Err(_) => { out.push_str("PANIC "); out.push_str(&panic_class()); } }
            }
            "PING" => out.push_str("PONG"),
            _ => out.push_str("ERR unknown-command"),
        }
    }

    pub fn main_loop() {
        std::panic::set_hook(std::boxed::Box::new(|info| {
            let msg = if let Some(s) = info.payload().downcast_ref::<&str>() { s.to_string() }
                      else if let Some(s) = info.payload().downcast_ref::<String>() { s.clone() }
                      else { "panic".to_string() };
            LAST_PANIC.with(|m| *m.borrow_mut() = msg);
        }));
        let stdin = std::io::stdin();
        let stdout = std::io::stdout();
        let mut w = std::io::BufWriter::with_capacity(1 << 16, stdout.lock());
        let mut sess = Session { stack: Vec::new(), memory: Vec::new(), claims: Vec::new(), phase: 0 };
        let mut out = String::new();
        for line in stdin.lock().lines() {
            let line = match line { Ok(l) => l, Err(_) => break };
            out.clear();
            if line == "FLUSH" { w.flush().unwrap(); continue; }
            handle(&line, &mut sess, &mut out);
            w.write_all(out.as_bytes()).unwrap();
            w.write_all(b"\n").unwrap();
        }
        w.flush().unwrap();
    }
}

fn main() {
    let child = std::thread::Builder::new()
        .stack_size(1 << 29)
        .spawn(pi2v_harness::main_loop)
        .unwrap();
    let _ = child.join();
}

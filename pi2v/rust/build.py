"""Build the Rust harness (lib.rs + harness.rs) and the real checker binary from /repo's working tree.

Binaries live in /verif/.build/<hash>/ keyed by sha256(lib.rs + main.rs + harness.rs); rebuilt whenever
any of them changes.  All builds run with an explicit RUSTUP_TOOLCHAIN so /repo/rust-toolchain (a
nightly that is not installed) is never consulted.
"""
from __future__ import annotations

import fcntl
import hashlib
import os
import shutil
import subprocess
import sys
import time
from pathlib import Path

VERIF = Path(__file__).resolve().parents[2]
REPO = Path(os.environ.get('PI2_REPO', '/repo'))
BUILD = VERIF / '.build'
HARNESS = Path(__file__).with_name('harness.rs')


class BuildError(Exception):
    pass


def _hash() -> str:
    h = hashlib.sha256()
    for p in (REPO / 'rust/src/lib.rs', REPO / 'rust/src/main.rs', HARNESS):
        h.update(p.read_bytes())
        h.update(b'\0')
    return h.hexdigest()[:16]


def _rustc(args, cwd, toolchain='stable'):
    env = dict(os.environ)
    env['RUSTUP_TOOLCHAIN'] = toolchain
    env.setdefault('CARGO_NET_OFFLINE', 'true')
    r = subprocess.run(['rustc', *args], cwd=cwd, env=env, capture_output=True, text=True, timeout=900)
    if r.returncode != 0:
        raise BuildError(f'rustc {" ".join(args)} failed:\n{r.stderr[-4000:]}')


def ensure(variants=('hx', 'checker')) -> dict:
    """Returns {variant: path}.  variants: hx, hx_dbg, hx_asan, checker."""
    BUILD.mkdir(exist_ok=True)
    d = BUILD / _hash()
    d.mkdir(exist_ok=True)
    lock = open(d / '.lock', 'w')
    fcntl.flock(lock, fcntl.LOCK_EX)
    try:
        src = d / 'hx.rs'
        if not src.exists():
            src.write_text((REPO / 'rust/src/lib.rs').read_text() + '\n' + HARNESS.read_text())
        out = {}
        for v in variants:
            target = d / v
            if not target.exists():
                tmp = d / (v + '.tmp')
                if v == 'hx':
                    _rustc(['--edition', '2021', '-O', '--cap-lints', 'allow', '--crate-name', 'hx', '--crate-type', 'bin',
                            '-o', str(tmp), str(src)], d)
                elif v == 'hx_dbg':
                    _rustc(['--edition', '2021', '-C', 'opt-level=1', '-C', 'overflow-checks=on', '-C', 'debug-assertions=on',
                            '--cap-lints', 'allow', '--crate-name', 'hx_dbg', '--crate-type', 'bin', '-o', str(tmp), str(src)], d)
                elif v == 'hx_asan':
                    _rustc(['--edition', '2021', '-O', '-Zsanitizer=address', '--cap-lints', 'allow', '--crate-name', 'hx_asan',
                            '--crate-type', 'bin', '-o', str(tmp), str(src)], d, toolchain='nightly')
                elif v == 'checker':
                    lib = d / 'lib.rs'
                    lib.write_text((REPO / 'rust/src/lib.rs').read_text())
                    mainrs = d / 'main.rs'
                    mainrs.write_text((REPO / 'rust/src/main.rs').read_text())
                    _rustc(['--edition', '2021', '-O', '--cap-lints', 'allow', '--crate-type', 'rlib', '--crate-name', 'checker',
                            '-o', str(d / 'libchecker.rlib'), str(lib)], d)
                    _rustc(['--edition', '2021', '-O', '--cap-lints', 'allow', '--crate-name', 'checker_bin', '--extern',
                            f'checker={d / "libchecker.rlib"}', '-o', str(tmp), str(mainrs)], d)
                else:
                    raise BuildError(f'unknown variant {v}')
                os.replace(tmp, target)
            out[v] = target
        # drop stale build dirs (keep disk use bounded)
        for other in BUILD.iterdir():
            if other.is_dir() and other != d and other.name != 'scratch' and len(other.name) == 16:
                try:
                    if time.time() - other.stat().st_mtime > 3600:
                        shutil.rmtree(other, ignore_errors=True)
                except Exception:
                    pass
        return out
    finally:
        fcntl.flock(lock, fcntl.LOCK_UN)
        lock.close()


if __name__ == '__main__':
    vs = sys.argv[1:] or ['hx', 'checker']
    try:
        for k, v in ensure(tuple(vs)).items():
            print(k, v)
    except BuildError as e:
        print(e, file=sys.stderr)
        sys.exit(2)

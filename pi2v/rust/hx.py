"""Client for the Rust harness (line protocol, DESIGN.md Appendix C)."""
from __future__ import annotations

import os
import subprocess
import threading

from . import build


def hexs(b: bytes) -> str:
    return b.hex() if b else '-'


def spaced(sexpr: str) -> str:
    return sexpr.replace('(', ' ( ').replace(')', ' ) ')


class Hx:
    def __init__(self, variant='hx', env=None):
        self.path = str(build.ensure((variant,))[variant])
        self.variant = variant
        self.env = env
        self.proc = None
        self.restarts = 0
        self.stderr_tail = b''
        self._start()

    def _start(self):
        e = dict(os.environ)
        if self.env:
            e.update(self.env)
        self.proc = subprocess.Popen([self.path], stdin=subprocess.PIPE, stdout=subprocess.PIPE,
                                     stderr=subprocess.PIPE, env=e, bufsize=1 << 20)
        self._errbuf = []
        t = threading.Thread(target=self._drain, args=(self.proc, self._errbuf), daemon=True)
        t.start()

    @staticmethod
    def _drain(proc, buf):
        try:
            for line in proc.stderr:
                buf.append(line)
                if len(buf) > 200:
                    del buf[:100]
        except Exception:
            pass

    def close(self):
        if self.proc:
            try:
                self.proc.stdin.close()
            except Exception:
                pass
            try:
                self.proc.wait(timeout=10)
            except Exception:
                self.proc.kill()
            self.proc = None

    def batch(self, lines: list[str], chunk: int = 2000) -> list[str]:
        """Send requests, return one answer per request.  A request that kills the process is answered
        'ABORT <stderr tail>' and the process is restarted (session state is lost)."""
        out: list[str] = []
        i = 0
        n = len(lines)
        while i < n:
            part = lines[i:i + chunk]
            got = self._roundtrip(part)
            out.extend(got)
            if len(got) < len(part):
                # process died on request i+len(got)
                tail = b''.join(self._errbuf[-5:]).decode('utf8', 'replace').replace('\n', ' ')[:200]
                out.append('ABORT ' + tail)
                self.restarts += 1
                try:
                    self.proc.kill()
                except Exception:
                    pass
                self._start()
                i += len(got) + 1
            else:
                i += len(part)
        return out

    def _roundtrip(self, part):
        data = ('\n'.join(part) + '\nFLUSH\n').encode()
        res = []
        err = []

        def writer():
            try:
                self.proc.stdin.write(data)
                self.proc.stdin.flush()
            except Exception as e:  # broken pipe when the process died
                err.append(e)

        t = threading.Thread(target=writer, daemon=True)
        t.start()
        for _ in range(len(part)):
            line = self.proc.stdout.readline()
            if not line:
                break
            res.append(line.decode('utf8', 'replace').rstrip('\n'))
        t.join(timeout=5)
        return res

    def one(self, line: str) -> str:
        return self.batch([line])[0]

    # convenience
    def run_triples(self, triples) -> list[str]:
        return self.batch([f'RUN {hexs(g)} {hexs(c)} {hexs(p)}' for g, c, p in triples])

"""Shipped artefacts used as workloads."""
from __future__ import annotations

import os
from pathlib import Path

REPO = Path(os.environ.get('PI2_REPO', '/repo'))


def snapshot_triples():
    """[(name, gamma, claim, proof)] for every committed .ml-* triple under proofs/ (non-empty proof)."""
    out = []
    seen = set()
    for g in sorted((REPO / 'proofs').rglob('*.ml-gamma')):
        c = g.with_suffix('.ml-claim')
        p = g.with_suffix('.ml-proof')
        if not (c.exists() and p.exists()):
            continue
        gb, cb, pb = g.read_bytes(), c.read_bytes(), p.read_bytes()
        if not pb:
            continue
        key = (gb, cb, pb)
        if key in seen:
            continue
        seen.add(key)
        out.append((str(g.relative_to(REPO))[:-len('.ml-gamma')], gb, cb, pb))
    return out

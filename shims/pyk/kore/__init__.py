"""Stand-in for pyk.kore (see pyk/__init__.py of this shim)."""

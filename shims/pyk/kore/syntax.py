"""Structural stand-in for `pyk.kore.syntax` (pyk v0.1.535), used by check C20 only.

Frozen dataclasses with exactly the class names and the POSITIONAL field order that the toolkit
relies on in its `match` statements and constructor calls
(generation/src/proof_generation/k/kore_convertion/language_semantics.py, rewrite_steps.py,
k/proof_gen.py, llvm_proof_hint*.py and the K tests):

    SortVar(name)  SortApp(name, sorts)
    EVar(name, sort)  SVar(name, sort)  String(value)  App(symbol, sorts, args)
    Top(sort) Bottom(sort) Not(sort, pattern) And(sort, ops) Or(sort, ops)
    Implies(sort, left, right) Iff(sort, left, right)
    Exists(sort, var, pattern) Forall(sort, var, pattern) Mu(var, pattern) Nu(var, pattern)
    Ceil(op_sort, sort, pattern) Floor(op_sort, sort, pattern)
    Equals(op_sort, sort, left, right) In(op_sort, sort, left, right)
    Next(sort, pattern) Rewrites(sort, left, right) DV(sort, value: String)
    Symbol(name, vars)
    SortDecl(name, vars, attrs, hooked) SymbolDecl(symbol, param_sorts, sort, attrs, hooked)
    Import(module_name, attrs) Axiom(vars, pattern, attrs) Claim(vars, pattern, attrs)
    Module(name, sentences, attrs) [.axioms]  Definition(modules, attrs)

ASSUMPTION: shape-compatible with pyk v0.1.535 for the constructors used.  No behaviour is stubbed
beyond plain data and the trivially derived `.text` (textual Kore) and `Module.axioms` properties; iterables
are normalised to tuples (as pyk does) so that values are hashable and comparable.
"""
from __future__ import annotations

from dataclasses import dataclass, field


def _tup(x):
    return x if isinstance(x, tuple) else tuple(x)


class Kore:
    """Root of the hierarchy."""

    @property
    def text(self) -> str:  # textual Kore, derived from the data only
        raise NotImplementedError(type(self).__name__)


# ------------------------------------------------------------------------------------------ sorts
class Sort(Kore):
    name: str


@dataclass(frozen=True)
class SortVar(Sort):
    name: str

    @property
    def text(self) -> str:
        return self.name


@dataclass(frozen=True)
class SortApp(Sort):
    name: str
    sorts: tuple = ()

    def __post_init__(self):
        object.__setattr__(self, 'sorts', _tup(self.sorts))

    @property
    def text(self) -> str:
        return self.name + '{' + ', '.join(s.text for s in self.sorts) + '}'


# --------------------------------------------------------------------------------------- patterns
class Pattern(Kore):
    pass


class VarPattern(Pattern):
    name: str
    sort: Sort

    @property
    def text(self) -> str:
        return f'{self.name} : {self.sort.text}'


@dataclass(frozen=True)
class EVar(VarPattern):
    name: str
    sort: Sort


@dataclass(frozen=True)
class SVar(VarPattern):
    name: str
    sort: Sort


@dataclass(frozen=True)
class String(Pattern):
    value: str

    @property
    def text(self) -> str:
        return '"' + self.value.replace('\\', '\\\\').replace('"', '\\"') + '"'


@dataclass(frozen=True)
class App(Pattern):
    symbol: str
    sorts: tuple = ()
    args: tuple = ()

    def __post_init__(self):
        object.__setattr__(self, 'sorts', _tup(self.sorts))
        object.__setattr__(self, 'args', _tup(self.args))

    @property
    def text(self) -> str:
        return (self.symbol + '{' + ', '.join(s.text for s in self.sorts) + '}('
                + ', '.join(a.text for a in self.args) + ')')


class MLPattern(Pattern):
    _symbol = ''

    def _sorts(self):
        return ()

    def _ctor_patterns(self):
        return ()

    @property
    def text(self) -> str:
        return (self._symbol + '{' + ', '.join(s.text for s in self._sorts()) + '}('
                + ', '.join(p.text for p in self._ctor_patterns()) + ')')


@dataclass(frozen=True)
class Top(MLPattern):
    sort: Sort
    _symbol = '\\top'

    def _sorts(self): return (self.sort,)


@dataclass(frozen=True)
class Bottom(MLPattern):
    sort: Sort
    _symbol = '\\bottom'

    def _sorts(self): return (self.sort,)


@dataclass(frozen=True)
class Not(MLPattern):
    sort: Sort
    pattern: Pattern
    _symbol = '\\not'

    def _sorts(self): return (self.sort,)
    def _ctor_patterns(self): return (self.pattern,)


@dataclass(frozen=True)
class And(MLPattern):
    sort: Sort
    ops: tuple = ()
    _symbol = '\\and'

    def __post_init__(self):
        object.__setattr__(self, 'ops', _tup(self.ops))

    def _sorts(self): return (self.sort,)
    def _ctor_patterns(self): return self.ops


@dataclass(frozen=True)
class Or(MLPattern):
    sort: Sort
    ops: tuple = ()
    _symbol = '\\or'

    def __post_init__(self):
        object.__setattr__(self, 'ops', _tup(self.ops))

    def _sorts(self): return (self.sort,)
    def _ctor_patterns(self): return self.ops


@dataclass(frozen=True)
class Implies(MLPattern):
    sort: Sort
    left: Pattern
    right: Pattern
    _symbol = '\\implies'

    def _sorts(self): return (self.sort,)
    def _ctor_patterns(self): return (self.left, self.right)


@dataclass(frozen=True)
class Iff(MLPattern):
    sort: Sort
    left: Pattern
    right: Pattern
    _symbol = '\\iff'

    def _sorts(self): return (self.sort,)
    def _ctor_patterns(self): return (self.left, self.right)


@dataclass(frozen=True)
class Exists(MLPattern):
    sort: Sort
    var: EVar
    pattern: Pattern
    _symbol = '\\exists'

    def _sorts(self): return (self.sort,)
    def _ctor_patterns(self): return (self.var, self.pattern)


@dataclass(frozen=True)
class Forall(MLPattern):
    sort: Sort
    var: EVar
    pattern: Pattern
    _symbol = '\\forall'

    def _sorts(self): return (self.sort,)
    def _ctor_patterns(self): return (self.var, self.pattern)


@dataclass(frozen=True)
class Mu(MLPattern):
    var: SVar
    pattern: Pattern
    _symbol = '\\mu'

    def _ctor_patterns(self): return (self.var, self.pattern)


@dataclass(frozen=True)
class Nu(MLPattern):
    var: SVar
    pattern: Pattern
    _symbol = '\\nu'

    def _ctor_patterns(self): return (self.var, self.pattern)


@dataclass(frozen=True)
class Ceil(MLPattern):
    op_sort: Sort
    sort: Sort
    pattern: Pattern
    _symbol = '\\ceil'

    def _sorts(self): return (self.op_sort, self.sort)
    def _ctor_patterns(self): return (self.pattern,)


@dataclass(frozen=True)
class Floor(MLPattern):
    op_sort: Sort
    sort: Sort
    pattern: Pattern
    _symbol = '\\floor'

    def _sorts(self): return (self.op_sort, self.sort)
    def _ctor_patterns(self): return (self.pattern,)


@dataclass(frozen=True)
class Equals(MLPattern):
    op_sort: Sort
    sort: Sort
    left: Pattern
    right: Pattern
    _symbol = '\\equals'

    def _sorts(self): return (self.op_sort, self.sort)
    def _ctor_patterns(self): return (self.left, self.right)


@dataclass(frozen=True)
class In(MLPattern):
    op_sort: Sort
    sort: Sort
    left: Pattern
    right: Pattern
    _symbol = '\\in'

    def _sorts(self): return (self.op_sort, self.sort)
    def _ctor_patterns(self): return (self.left, self.right)


@dataclass(frozen=True)
class Next(MLPattern):
    sort: Sort
    pattern: Pattern
    _symbol = '\\next'

    def _sorts(self): return (self.sort,)
    def _ctor_patterns(self): return (self.pattern,)


@dataclass(frozen=True)
class Rewrites(MLPattern):
    sort: Sort
    left: Pattern
    right: Pattern
    _symbol = '\\rewrites'

    def _sorts(self): return (self.sort,)
    def _ctor_patterns(self): return (self.left, self.right)


@dataclass(frozen=True)
class DV(MLPattern):
    sort: Sort
    value: String
    _symbol = '\\dv'

    def _sorts(self): return (self.sort,)
    def _ctor_patterns(self): return (self.value,)


# -------------------------------------------------------------------------------------- sentences
def _attrs_text(attrs) -> str:
    return '[' + ', '.join(a.text for a in attrs) + ']'


@dataclass(frozen=True)
class Symbol(Kore):
    name: str
    vars: tuple = ()

    def __post_init__(self):
        object.__setattr__(self, 'vars', _tup(self.vars))

    @property
    def text(self) -> str:
        return self.name + '{' + ', '.join(v.text for v in self.vars) + '}'


class Sentence(Kore):
    attrs: tuple


@dataclass(frozen=True)
class Import(Sentence):
    module_name: str
    attrs: tuple = ()

    def __post_init__(self):
        object.__setattr__(self, 'attrs', _tup(self.attrs))

    @property
    def text(self) -> str:
        return f'import {self.module_name} {_attrs_text(self.attrs)}'


@dataclass(frozen=True)
class SortDecl(Sentence):
    name: str
    vars: tuple = ()
    attrs: tuple = ()
    hooked: bool = field(default=False, kw_only=True)

    def __post_init__(self):
        object.__setattr__(self, 'vars', _tup(self.vars))
        object.__setattr__(self, 'attrs', _tup(self.attrs))

    @property
    def text(self) -> str:
        return (('hooked-' if self.hooked else '') + 'sort ' + self.name + '{' + ', '.join(v.text for v in self.vars)
                + '} ' + _attrs_text(self.attrs))


@dataclass(frozen=True)
class SymbolDecl(Sentence):
    symbol: Symbol
    param_sorts: tuple = ()
    sort: Sort = None  # type: ignore[assignment]
    attrs: tuple = ()
    hooked: bool = field(default=False, kw_only=True)

    def __post_init__(self):
        object.__setattr__(self, 'param_sorts', _tup(self.param_sorts))
        object.__setattr__(self, 'attrs', _tup(self.attrs))

    @property
    def text(self) -> str:
        return (('hooked-' if self.hooked else '') + 'symbol ' + self.symbol.text + '('
                + ', '.join(s.text for s in self.param_sorts) + ') : ' + self.sort.text + ' ' + _attrs_text(self.attrs))


@dataclass(frozen=True)
class Axiom(Sentence):
    vars: tuple = ()
    pattern: Pattern = None  # type: ignore[assignment]
    attrs: tuple = ()
    _label = 'axiom'

    def __post_init__(self):
        object.__setattr__(self, 'vars', _tup(self.vars))
        object.__setattr__(self, 'attrs', _tup(self.attrs))

    @property
    def text(self) -> str:
        return (self._label + '{' + ', '.join(v.text for v in self.vars) + '} ' + self.pattern.text + ' '
                + _attrs_text(self.attrs))


@dataclass(frozen=True)
class Claim(Sentence):
    vars: tuple = ()
    pattern: Pattern = None  # type: ignore[assignment]
    attrs: tuple = ()

    def __post_init__(self):
        object.__setattr__(self, 'vars', _tup(self.vars))
        object.__setattr__(self, 'attrs', _tup(self.attrs))

    @property
    def text(self) -> str:
        return ('claim{' + ', '.join(v.text for v in self.vars) + '} ' + self.pattern.text + ' '
                + _attrs_text(self.attrs))


@dataclass(frozen=True)
class Module(Kore):
    name: str
    sentences: tuple = ()
    attrs: tuple = ()

    def __post_init__(self):
        object.__setattr__(self, 'sentences', _tup(self.sentences))
        object.__setattr__(self, 'attrs', _tup(self.attrs))

    @property
    def axioms(self) -> tuple:
        return tuple(s for s in self.sentences if isinstance(s, Axiom))

    @property
    def text(self) -> str:
        return '\n'.join([f'module {self.name}', *('    ' + s.text for s in self.sentences),
                          f'endmodule {_attrs_text(self.attrs)}'])


@dataclass(frozen=True)
class Definition(Kore):
    modules: tuple = ()
    attrs: tuple = ()

    def __post_init__(self):
        object.__setattr__(self, 'modules', _tup(self.modules))
        object.__setattr__(self, 'attrs', _tup(self.attrs))

    @property
    def text(self) -> str:
        return '\n\n'.join([_attrs_text(self.attrs), *(m.text for m in self.modules)])

"""Stand-in for pyk.kore.parser.  The textual Kore parser is pyk's code, not the toolkit's; C20 feeds
`pyk.kore.syntax` objects directly."""


class KoreParser:
    def __init__(self, text: str):
        self._text = text

    def definition(self):
        raise NotImplementedError('pyk.kore.parser is not available in this environment (C20 shim)')

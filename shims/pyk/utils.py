"""Stand-in for the one helper of pyk.utils that the toolkit imports."""
from pathlib import Path


def check_file_path(path) -> None:
    path = Path(path)
    if not path.exists():
        raise ValueError(f'File does not exist: {path}')
    if not path.is_file():
        raise ValueError(f'Path is not a file: {path}')

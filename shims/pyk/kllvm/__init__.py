"""Stand-in for pyk.kllvm: empty.  The LLVM bindings (binary hint decoding) are out of scope of C20."""

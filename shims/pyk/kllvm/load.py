"""Stand-in for pyk.kllvm.load (imported by the toolkit only for its side effect of loading the
compiled kllvm bindings).  Intentionally empty."""

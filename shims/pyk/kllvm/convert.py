"""Stand-in for pyk.kllvm.convert.  Binary Kore decoding is out of scope of C20."""


def llvm_to_pattern(pattern):
    raise NotImplementedError('pyk.kllvm bindings are not available in this environment (C20 shim)')

"""Stand-in for pyk.kllvm.ast (compiled bindings in the real package).  Only the name the toolkit
dereferences (`Pattern.deserialize`) exists; calling it is out of scope of C20."""


class Pattern:
    @staticmethod
    def deserialize(raw: bytes):
        raise NotImplementedError('pyk.kllvm bindings are not available in this environment (C20 shim)')

"""Structural stand-in for the `pyk` package (runtimeverification/pyk), used by check C20 only.

The pinned environment has no `pyk.kore` / `pyk.kllvm` (the installed `pyk 0.3.2` in /venv is an
unrelated project).  /verif/shims precedes site-packages on PYTHONPATH, so this package shadows it.

ASSUMPTION (recorded in the evidence of C20): the classes in `pyk.kore.syntax` below are
shape-compatible with pyk v0.1.535 (the tag pinned in generation/pyproject.toml) for the
constructors, positional `match` patterns and attributes that the toolkit itself uses.  Nothing here
has behaviour beyond plain data and trivially derived properties; the Kore parser and the LLVM
bindings (binary proof-hint decoding) are out of scope and raise NotImplementedError when called.
"""

#!/usr/bin/env python3
"""Seeded property-breaking changes (from independent sub-agents).

  seeded.py add <PROP> <label> <patch.diff> <demo> "<needs>"      copy into /verif/seeded/<PROP>_<label>/
  seeded.py confirm [name...] [--tests]    scratch worktree: demo passes clean / fails patched; optionally the fast pytest suite with the patch
  seeded.py run [name...] [--checks C01 C05] [--tier quick]       run checks against the patched worktree, record who detects it
Worktrees live under $TMPDIR (default /tmp) and are removed afterwards."""
import argparse, json, os, shutil, subprocess, sys, tempfile, time
from pathlib import Path

SEEDED = Path('/verif/seeded')
PYTEST = ['/venv/bin/python', '-m', 'pytest', '-q', '-p', 'no:cacheprovider', '--timeout=900', 'generation/src/tests/unit',
          '--ignore=generation/src/tests/unit/test_mm_parser.py', '--ignore=generation/src/tests/unit/test_execution_proof_generation.py',
          '--ignore=generation/src/tests/unit/test_kore_language_semantics.py']


def worktree(patch=None):
    wt = tempfile.mkdtemp(prefix='wt_seed_', dir=os.environ.get('TMPDIR', '/tmp'))
    os.rmdir(wt)
    subprocess.run(['git', '-C', '/repo', 'worktree', 'add', '-q', '--detach', wt, 'HEAD'], check=True)
    if patch:
        r = subprocess.run(['git', '-C', wt, 'apply', str(patch)], capture_output=True, text=True)
        if r.returncode != 0:
            drop(wt)
            raise RuntimeError('patch does not apply: ' + r.stderr[-300:])
    return wt


def drop(wt):
    subprocess.run(['git', '-C', '/repo', 'worktree', 'remove', '--force', wt], capture_output=True)
    shutil.rmtree(wt, ignore_errors=True)


def run_demo(demo: Path, root):
    cmd = ['/venv/bin/python', str(demo), root] if demo.suffix == '.py' else ['bash', str(demo), root]
    env = dict(os.environ, PYTHONPATH=f'{root}/generation/src', TMPDIR=f'{root}/.scratch_demo', PYK_SHIM='/verif/shims')
    os.makedirs(f'{root}/.scratch_demo', exist_ok=True)
    try:
        r = subprocess.run(cmd, capture_output=True, text=True, timeout=1800, env=env, cwd=root)
        return r.returncode, (r.stdout + r.stderr)[-400:]
    except subprocess.TimeoutExpired:
        return 124, 'timeout'


def names(sel):
    all_ = sorted(p.name for p in SEEDED.iterdir() if (p / 'patch.diff').exists())
    return [n for n in all_ if not sel or any(s in n for s in sel)]


def main():
    ap = argparse.ArgumentParser()
    ap.add_argument('cmd')
    ap.add_argument('rest', nargs='*')
    ap.add_argument('--tests', action='store_true')
    ap.add_argument('--checks', nargs='*')
    ap.add_argument('--tier', default='quick')
    a = ap.parse_args()
    SEEDED.mkdir(exist_ok=True)
    if a.cmd == 'add':
        prop, label, patch, demo, needs = a.rest
        d = SEEDED / f'{prop}_{label}'
        d.mkdir(exist_ok=True)
        shutil.copy(patch, d / 'patch.diff')
        shutil.copy(demo, d / ('demo' + Path(demo).suffix))
        meta = {'property': prop, 'label': label, 'needs_to_manifest': needs, 'origin': 'independent sub-agent given only the property text and a scratch worktree',
                'confirmed': {}, 'detected_by': {}}
        (d / 'meta.json').write_text(json.dumps(meta, indent=1))
        print('added', d)
        return
    for n in names(a.rest):
        d = SEEDED / n
        meta = json.loads((d / 'meta.json').read_text())
        demo = next(d.glob('demo.*'))
        if meta.get('unowned') and a.cmd == 'run' and not a.checks:
            print(n, 'UNOWNED (no stated property covers it):', meta['unowned'][:100])
            continue
        if meta.get('obsolete') and a.cmd == 'run':
            print(n, 'OBSOLETE (skipped):', meta['obsolete'][:80])
            continue
        if a.cmd == 'confirm':
            clean = worktree()
            try:
                rc0, out0 = run_demo(demo, clean)
            finally:
                drop(clean)
            try:
                wt = worktree(d / 'patch.diff')
            except RuntimeError as e:
                meta['confirmed'] = {'error': str(e)}
                (d / 'meta.json').write_text(json.dumps(meta, indent=1))
                print(n, 'PATCH DOES NOT APPLY')
                continue
            try:
                rc1, out1 = run_demo(demo, wt)
                conf = {'demo_clean_rc': rc0, 'demo_patched_rc': rc1, 'demo_patched_tail': out1[-200:], 'repo_head': subprocess.run(['git', '-C', '/repo', 'rev-parse', '--short', 'HEAD'], capture_output=True, text=True).stdout.strip(),
                        'ran': f'demo on a clean worktree of /repo HEAD and on one with patch.diff applied ({time.strftime("%Y-%m-%d %H:%M")})'}
                if a.tests:
                    r = subprocess.run(PYTEST, cwd=wt, capture_output=True, text=True, env=dict(os.environ, PYTHONPATH=f'{wt}/generation/src'))
                    conf['pytest_tail'] = r.stdout.strip().splitlines()[-1] if r.stdout.strip() else r.stderr[-200:]
                    conf['pytest_rc'] = r.returncode
                meta['confirmed'] = {**meta.get('confirmed', {}), **conf}
                ok = rc0 == 0 and rc1 != 0 and (not a.tests or conf['pytest_rc'] == 0)
                print(n, 'CONFIRMED' if ok else 'NOT CONFIRMED', {k: v for k, v in conf.items() if k.endswith('rc') or k == 'pytest_tail'})
            finally:
                drop(wt)
        elif a.cmd == 'run':
            checks = a.checks or meta.get('expected_checks') or [meta['property']]
            try:
                wt = worktree(d / 'patch.diff')
            except RuntimeError as e:
                print(n, 'PATCH DOES NOT APPLY', str(e)[-120:])
                continue
            try:
                env = dict(os.environ, PI2_REPO=wt)
                for c in checks:
                    t0 = time.time()
                    r = subprocess.run(['/verif/check', c, '--tier', a.tier, '--no-evidence'], env=env, capture_output=True, text=True)
                    mechs = [l.split('mechanism=')[1].split(' ')[0] for l in r.stdout.splitlines() if l.startswith('# ' + c + ' violation')]
                    verdict = {0: 'missed', 1: 'detected', 2: 'inconclusive'}.get(r.returncode, f'rc{r.returncode}')
                    meta.setdefault('detected_by', {})[f'{c}:{a.tier}'] = {'verdict': verdict, 'mechanisms': mechs[:6], 'wall_s': round(time.time() - t0)}
                    print(n, c, verdict, mechs[:3])
                    sys.stdout.flush()
            finally:
                drop(wt)
        (d / 'meta.json').write_text(json.dumps(meta, indent=1))


if __name__ == '__main__':
    main()

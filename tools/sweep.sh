#!/bin/bash
# usage: tools/sweep.sh "1 2 3" [quick|thorough] [checks...]   - runs checks under several VERIF_SEED values, prints verdict lines
seeds="$1"; tier="${2:-quick}"; shift; shift
checks="${@:-C01 C02 C03 C04 C05 C06 C07 C08 C09 C10 C11 C12 C13 C14 C15 C16 C17 C18 C19 C20}"
for s in $seeds; do for c in $checks; do
  out=$(VERIF_SEED=$s ./check $c --tier $tier --no-evidence 2>&1); rc=$?
  echo "seed=$s $c rc=$rc $(echo "$out" | grep -E '^# C[0-9]+ tier' | cut -c1-160)"
  if [ $rc -ne 0 ]; then echo "$out" | grep -E 'violation mechanism|INCONCLUSIVE' | cut -c1-300 | head -5; fi
done; done

#!/usr/bin/env python3
"""Regenerate MANIFEST.json from the check modules that exist (pi2v/checks/cNN.py)."""
import importlib, json, sys, os
sys.path.insert(0, os.path.dirname(os.path.dirname(os.path.abspath(__file__))))
PENDING = {}
props = [json.loads(l) for l in open('/verif/properties.jsonl')]
checks = []
na = []
for p in props:
    pid = p['id']
    path = f'/verif/pi2v/checks/{pid.lower()}.py'
    if not os.path.exists(path):
        na.append({'property_id': pid, 'reason': PENDING.get(pid, 'runtime monitor for this property is not built yet in this session; not claimed until it is')})
        continue
    src = open(path).read()
    ns = {}
    # read constants without importing the repo
    import ast
    tree = ast.parse(src)
    for node in tree.body:
        if isinstance(node, ast.Assign) and len(node.targets) == 1 and isinstance(node.targets[0], ast.Name):
            n = node.targets[0].id
            if n in ('LEVEL', 'TECHNIQUE', 'LEVEL_TEXT', 'LEVEL_NOTE', 'DESIGN_REF', 'READY'):
                ns[n] = ast.literal_eval(node.value)
    if not ns.get('READY'):
        na.append({'property_id': pid, 'reason': 'runtime monitor for this property is still being validated in this session; not claimed until it is silent on the unchanged tree and catches deliberate breaks'})
        continue
    checks.append({
        'property_id': pid,
        'quick_cmd': f'./check {pid} --tier quick',
        'thorough_cmd': f'./check {pid} --tier thorough',
        'evidence_file': f'/verif/evidence/{pid}.json',
        'replay_cmd_template': f'./check {pid} --replay {{path}}',
        'engine': 'pi2v',
        'level_claimed': {'category': ns['LEVEL'], 'text': ns['LEVEL_TEXT'], 'design_ref': ns.get('DESIGN_REF', 'DESIGN.md section 5')},
        'level_note': ns['LEVEL_NOTE'],
        'technique': ns['TECHNIQUE'],
    })
m = {
 'version': 1,
 'setup_cmd': './setup.sh',
 'hooks': {'guard': 'PI2_VERIF', 'enable': 'no source hooks are needed: monitors wrap the real Python classes from outside (attribute replacement before the workload starts) and the Rust harness is the text of rust/src/lib.rs followed by harness code; PI2_VERIF=1 is exported by the driver for symmetry only',
           'baseline_off_cmd': 'cd /repo && /venv/bin/python -m pytest -ra -q -p no:cacheprovider --timeout=900 --continue-on-collection-errors',
           'source_commits': [], 'add_only': True},
 'engines': [{'name': 'pi2v', 'path': '/verif/pi2v', 'serves_properties': [c['property_id'] for c in checks],
              'kind_free_text': 'runtime monitors + reference oracles (Python) and an include-based Rust harness; entry point ./check'}],
 'checks': checks,
 'notes': 'Exit codes of ./check: 0 held on what was observed, 1 violation (VIOLATION line), 2 inconclusive (a deciding monitor was not reached or a build step is missing; never printed as a violation). Known findings are in known_findings.json.',
 'not_applicable': na,
}
json.dump(m, open('/verif/MANIFEST.json', 'w'), indent=1)
print('checks:', [c['property_id'] for c in checks], 'na:', len(na))

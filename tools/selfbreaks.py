#!/usr/bin/env python3
"""Own deliberate breaks (DESIGN.md Appendix D) applied to scratch worktrees; prints which check caught which.
usage: selfbreaks.py [name-substring ...]"""
import os, subprocess, sys, tempfile, shutil, json
G = 'generation/src/proof_generation/'
BREAKS = [
 # name, file, old, new, checks
 ('C01_drop_esubst_capture_assert', 'rust/src/lib.rs', '''            assert!(
                plug.e_fresh(*var),
                "EVar substitution would capture free variable {}!",
                var
            );
            exists(*var, apply_esubst(subpattern, evar_id, plug))''', '''            exists(*var, apply_esubst(subpattern, evar_id, plug))''', ['C01', 'C05', 'C11']),
 ('C01_skip_efresh_constraint', 'rust/src/lib.rs', '''                if let Some(evar) = e_fresh.into_iter().find(|&evar| !plugs[pos].e_fresh(*evar)) {''', '''                if let Some(evar) = e_fresh.into_iter().find(|&evar| false && !plugs[pos].e_fresh(*evar)) {''', ['C01', 'C05']),
 ('C01_gen_tests_left', 'rust/src/lib.rs', '''                    if !right.e_fresh(evar_id) {''', '''                    if !left.e_fresh(evar_id) {''', ['C01', 'C05']),
 ('C01_positive_implies_left_positive', 'rust/src/lib.rs', '''            Pattern::Implies { left, right } => left.negative(svar) && right.positive(svar),''', '''            Pattern::Implies { left, right } => left.positive(svar) && right.positive(svar),''', ['C01', 'C05', 'C06']),
 ('C05_pop_noop', 'rust/src/lib.rs', '''            Instruction::Pop => {
                _ = pop_stack(stack);
            }''', '''            Instruction::Pop => {
            }''', ['C05']),
 ('C05_load_plus_one', 'rust/src/lib.rs', '''                match &memory[index as usize] {''', '''                match &memory[(index as usize + 1).min(memory.len() - 1)] {''', ['C05']),
 ('C05_claims_left_ok', 'rust/src/lib.rs', '''    assert!(
        claims.is_empty(),''', '''    assert!(
        true || claims.is_empty(),''', ['C05']),
 ('C05_implies_swapped', 'rust/src/lib.rs', '''            Instruction::Implies => {
                let right = pop_stack_pattern(stack);
                let left = pop_stack_pattern(stack);''', '''            Instruction::Implies => {
                let left = pop_stack_pattern(stack);
                let right = pop_stack_pattern(stack);''', ['C05', 'C02']),
 ('C06_rust_exists_efresh', 'rust/src/lib.rs', '''            Pattern::Exists { var, subpattern } => evar == *var || subpattern.e_fresh(evar),''', '''            Pattern::Exists { subpattern, .. } => subpattern.e_fresh(evar),''', ['C06', 'C05']),
 ('C06_rust_ssubst_positive_guard', 'rust/src/lib.rs', '''                let plug_positive_svar = plug.s_fresh(svar)
                    || (pattern.positive(*svar_id) && plug.positive(svar))''', '''                let plug_positive_svar = plug.s_fresh(svar)
                    || (plug.positive(svar))''', ['C06', 'C05', 'C01']),
 ('C06_py_esubst_ignores_plug', G + 'pattern.py', '''        # We assume that at least one instance will be replaced
        return self.pattern.evar_is_free(name) and self.plug.evar_is_free(name)

    def metavars(self) -> set[int]:
        return self.pattern.metavars().union(self.plug.metavars())

    def instantiate(self, delta: Mapping[int, Pattern]) -> Pattern:
        if not delta:
            return self
        return self.pattern.instantiate(delta).apply_esubst(''', '''        # We assume that at least one instance will be replaced
        return self.pattern.evar_is_free(name)

    def metavars(self) -> set[int]:
        return self.pattern.metavars().union(self.plug.metavars())

    def instantiate(self, delta: Mapping[int, Pattern]) -> Pattern:
        if not delta:
            return self
        return self.pattern.instantiate(delta).apply_esubst(''', ['C06', 'C07']),
 ('C07_mp_no_antecedent_check', G + 'basic_interpreter.py', '''        assert l == right.conclusion, str(l) + ' != ' + str(right.conclusion)
''', '', ['C07']),
 ('C07_gen_no_freshness', G + 'basic_interpreter.py', '''        assert r.evar_is_free(var.name), f'{str(var)} in FV({str(r)})'
''', '', ['C07', 'C02']),
 ('C07_inst_single_key_noop', G + 'basic_interpreter.py', '''        if not delta:
            return proved
        return Proved(proved.conclusion.instantiate(delta))''', '''        if not delta or (len(delta) == 1 and 7 in delta):
            return proved
        return Proved(proved.conclusion.instantiate(delta))''', ['C07']),
 ('C02_inst_keys_not_reversed', G + 'serializing_interpreter.py', '''        ret = super().instantiate(proved, delta)
        self.out.write(bytes([Instruction.Instantiate, len(delta), *reversed(delta.keys())]))''', '''        ret = super().instantiate(proved, delta)
        self.out.write(bytes([Instruction.Instantiate, len(delta), *delta.keys()]))''', ['C02', 'C04', 'C14']),
 ('C02_claims_not_reversed', G + 'proof.py', '''        for claim in reversed(self._claims):''', '''        for claim in self._claims:''', ['C02', 'C03']),
 ('C03_first_axiom_twice', G + 'proof.py', '''        for axiom in self._axioms:
            interpreter.publish_axiom(interpreter.pattern(axiom))''', '''        for i, axiom in enumerate(self._axioms):
            interpreter.publish_axiom(interpreter.pattern(axiom))
            if i == 0 and len(self._axioms) > 2:
                interpreter.publish_axiom(interpreter.pattern(axiom))''', ['C03']),
 ('C08_instopt_identity_skip', G + 'optimizing_interpreters.py', '''        ret = b_interp.instantiate(proved, delta)
        if len(delta):
            self.sub_interpreter.instantiate(proved, delta)
        return ret''', '''        ret = b_interp.instantiate(proved, delta)
        if len(delta) and not all(isinstance(v, type(proved.conclusion)) and False or (getattr(v, 'name', None) == k and type(v).__name__ == 'MetaVar') for k, v in delta.items()):
            self.sub_interpreter.instantiate(proved, delta)
        return ret''', ['C08']),
 ('C11_exists_esubst_ignores_binder', G + 'pattern.py', '''        if evar_id == self.var:
            return self
        assert plug.evar_is_free(self.var), f'EVar substitution would capture free variable x{self.var}\'''', '''        assert plug.evar_is_free(self.var), f'EVar substitution would capture free variable x{self.var}\'''', ['C11', 'C12']),
 ('C11_implies_inst_right_empty', G + 'pattern.py', '''        return Implies(self.left.instantiate(delta), self.right.instantiate(delta))''', '''        return Implies(self.left.instantiate(delta), self.right.instantiate(delta if len(delta) != 3 else {}))''', ['C11', 'C07']),
 ('C11_esubst_inst_plug_not_instantiated', G + 'pattern.py', '''        return self.pattern.instantiate(delta).apply_esubst(self.var.name, self.plug.instantiate(delta))''', '''        return self.pattern.instantiate(delta).apply_esubst(self.var.name, self.plug)''', ['C11', 'C07', 'C04']),
 ('C12_eq_compares_definition', G + 'pattern.py', '''        return self.simplify() == o''', '''        return self.simplify() == o or (isinstance(o, Instantiate) and self.pattern == o.pattern and len(self.inst) > 3)''', ['C12']),
 ('C12_metavars_ignores_inst', G + 'pattern.py', '''            if v in self.inst:
                ret = ret.union(self.inst[v].metavars())
            else:
                ret.add(v)''', '''            ret.add(v)''', ['C12']),
 ('C13_match_no_consistency', G + 'pattern.py', '''            if ret[id] != instance:
                return None''', '''            pass''', ['C13']),
 ('C13_exists_ignores_binder', G + 'pattern.py', '''        if pat_ex[0] != inst_ex[0]:
            return None''', '''        pass''', ['C13']),
 ('C14_deser_implies_swapped', G + 'deserialize.py', '''        elif instruction == Instruction.Implies:
            right = interpreter.stack[-1]
            left = interpreter.stack[-2]''', '''        elif instruction == Instruction.Implies:
            left = interpreter.stack[-1]
            right = interpreter.stack[-2]''', ['C14']),
 ('C14_deser_load_minus_one', G + 'deserialize.py', '''            interpreter.load(str(id), interpreter.memory[id])''', '''            interpreter.load(str(id), interpreter.memory[id - 1 if id > 2 else id])''', ['C14']),
 ('C18_axioms_from_set', G + 'proof.py', '''        for axiom in self._axioms:
            interpreter.publish_axiom(interpreter.pattern(axiom))''', '''        for axiom in (self._axioms if len(self._axioms) < 3 else list(set(self._axioms))):
            interpreter.publish_axiom(interpreter.pattern(axiom))''', ['C18', 'C03']),
 ('C19_kore_implies_format', G + 'proofs/kore.py', ''''({1} k-> {2}):{0}\'''', ''''({1} k-> {2})\'''', ['C19']),
 ('C19_pretty_skips_empty_instantiate', G + 'pretty_printing_interpreter.py', '''    @pretty()
    def pop(self, term: Pattern | Proved) -> None:
        self.out.write('Pop')''', '''    @pretty()
    def pop(self, term: Pattern | Proved) -> None:
        self.out.write('Pop' if len(self.stack) < 6 else 'pop')''', ['C19']),
]


def main():
    sel = sys.argv[1:]
    results = {}
    for name, path, old, new, checks in BREAKS:
        if sel and not any(s in name for s in sel):
            continue
        wt = tempfile.mkdtemp(prefix='wt_sb_', dir=os.environ.get('TMPDIR', '/tmp'))
        os.rmdir(wt)
        subprocess.run(['git', '-C', '/repo', 'worktree', 'add', '-q', '--detach', wt, 'HEAD'], check=True)
        try:
            p = os.path.join(wt, path)
            s = open(p).read()
            if s.count(old) != 1:
                print(f'{name}: EDIT FAILED ({s.count(old)} occurrences)')
                continue
            open(p, 'w').write(s.replace(old, new))
            env = dict(os.environ, PI2_REPO=wt)
            row = {}
            for c in checks:
                r = subprocess.run(['/verif/check', c, '--tier', 'quick', '--no-evidence'], env=env, capture_output=True, text=True)
                mechs = [l.split('mechanism=')[1].split(' ')[0] for l in r.stdout.splitlines() if l.startswith('# ' + c + ' violation')]
                row[c] = {0: 'MISSED', 1: 'caught', 2: 'inconclusive'}.get(r.returncode, f'rc{r.returncode}') + (' ' + ','.join(m[:50] for m in mechs[:3]) if mechs else '')
            results[name] = row
            print(name, json.dumps(row))
            sys.stdout.flush()
        finally:
            subprocess.run(['git', '-C', '/repo', 'worktree', 'remove', '--force', wt])
            shutil.rmtree(wt, ignore_errors=True)


if __name__ == '__main__':
    main()

#!/usr/bin/env python3
"""python3-vt tools/validate.py : validate MANIFEST.json and all evidence files against the schemas."""
import json, jsonschema, glob, sys
ok = True
try:
    jsonschema.validate(json.load(open('/verif/MANIFEST.json')), json.load(open('/root/.vp/MANIFEST.schema.json')))
except Exception as e:
    ok = False; print('MANIFEST invalid:', e)
sch = json.load(open('/root/.vp/EVIDENCE.schema.json'))
for f in sorted(glob.glob('/verif/evidence/*.json')):
    try:
        jsonschema.validate(json.load(open(f)), sch)
    except Exception as e:
        ok = False; print(f, 'invalid:', str(e)[:300])
print('all valid' if ok else 'INVALID')
sys.exit(0 if ok else 1)

#!/bin/bash
# tools/runall.sh [quick|thorough] [checks...] : run checks with evidence, print verdict lines
tier="${1:-quick}"; shift
checks="${@:-C01 C02 C03 C04 C05 C06 C07 C08 C09 C10 C11 C12 C13 C14 C15 C16 C17 C18 C19 C20}"
cd "$(dirname "$0")/.."
for c in $checks; do
  out=$(./check $c --tier $tier 2>&1); rc=$?
  echo "$c rc=$rc $(echo "$out" | grep -E '^# C[0-9]+ tier' | cut -c1-160)"
  if [ $rc -ne 0 ]; then echo "$out" | grep -E 'violation mechanism|INCONCLUSIVE' | cut -c1-300 | head -5; fi
done

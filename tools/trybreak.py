#!/usr/bin/env python3
"""Apply a textual break to a scratch worktree of /repo and run checks against it.
usage: trybreak.py [--patch file.diff] [--edit path::old::new]... --checks C04 C02 [--tier quick]
The worktree lives under $TMPDIR (default /tmp) and is removed afterwards."""
import argparse, os, subprocess, sys, tempfile, shutil
ap = argparse.ArgumentParser()
ap.add_argument('--edit', action='append', default=[])
ap.add_argument('--patch', default=None)
ap.add_argument('--checks', nargs='+', required=True)
ap.add_argument('--tier', default='quick')
ap.add_argument('--seed', default='0')
ap.add_argument('--keep', action='store_true')
a = ap.parse_args()
wt = tempfile.mkdtemp(prefix='wt_break_', dir=os.environ.get('TMPDIR', '/tmp'))
os.rmdir(wt)
subprocess.run(['git', '-C', '/repo', 'worktree', 'add', '-q', '--detach', wt, 'HEAD'], check=True)
rc = 0
try:
    if a.patch:
        subprocess.run(['git', '-C', wt, 'apply', a.patch], check=True)
    for e in a.edit:
        path, old, new = e.split('::', 2)
        p = os.path.join(wt, path)
        s = open(p).read()
        if s.count(old) != 1:
            print(f'EDIT FAILED: {path}: pattern occurs {s.count(old)} times'); sys.exit(3)
        open(p, 'w').write(s.replace(old, new))
    env = dict(os.environ, PI2_REPO=wt, VERIF_SEED=a.seed)
    for c in a.checks:
        r = subprocess.run(['/verif/check', c, '--tier', a.tier, '--no-evidence'], env=env, capture_output=True, text=True)
        lines = [l for l in r.stdout.splitlines() if l.startswith(('VIOLATION', '# ' + c)) or 'INCONCLUSIVE' in l]
        print(f'--- {c}: exit {r.returncode}')
        for l in lines[:12]:
            print('   ', l[:260])
        if r.returncode not in (0, 1, 2):
            print(r.stderr[-800:])
finally:
    if not a.keep:
        subprocess.run(['git', '-C', '/repo', 'worktree', 'remove', '--force', wt])
        shutil.rmtree(wt, ignore_errors=True)

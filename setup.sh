#!/bin/bash
# Run once after a fresh restore, offline.  Builds the Rust harness from /repo's working tree and
# runs the oracle self-checks.  Everything else is pure Python run with /venv/bin/python.
set -e
HERE="$(cd "$(dirname "$0")" && pwd)"
cd "$HERE"
export PYTHONPATH="$HERE:$HERE/shims:${PI2_REPO:-/repo}/generation/src"
export PYTHONDONTWRITEBYTECODE=1
export CARGO_NET_OFFLINE=true
mkdir -p .build evidence replays
/venv/bin/python -m pi2v.rust.build hx checker || echo "WARNING: rust build failed; Rust-dependent checks will be inconclusive"
/venv/bin/python -m pi2v.selfcheck
